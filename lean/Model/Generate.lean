/-
  Model/Generate.lean — follows `gen_data` / `generate_many` of `fastavro/utils.py`.  The library's
  random source is an arbitrary oracle `ρ : Nat → Nat` read at increasing positions: `randint(a, b)`
  returns *some* integer of [a, b], `random()` some float, `getrandbits` some bytes — the theorem about
  the generator quantifies over every oracle, i.e. over every state of the random source.
  Logical-type annotations are outside this model (`.other`).
-/
import Model.Binary
import Model.Validate

namespace Generate
open Binary

abbrev Rand := Nat → Nat

/-- `random.randint(a, b)`: ValueError for an empty range -/
def randint (a b : Int) (ρ : Rand) (i : Nat) : R Int :=
  if b < a then .error .value else .ok (a + ((ρ i : Int) % (b - a + 1)))

/-- `_randbytes(n)` -/
def randBytes (n : Nat) (ρ : Rand) (i : Nat) : Bytes := (List.range n).map fun k => UInt8.ofNat (ρ (i + k))

def LETTERS : List Char := "abcdefghijklmnopqrstuvwxyzABCDEFGHIJKLMNOPQRSTUVWXYZ".toList

/-- `_gen_utf8()`: ten ASCII letters -/
def genUtf8 (ρ : Rand) (i : Nat) : String :=
  String.ofList ((List.range 10).map fun k => LETTERS.getD (ρ (i + k) % 52) 'a')

def genPrim (p : Prim) (ρ : Rand) (i : Nat) : R (Val × Nat) :=
  match p with
  | .null => pure (.none, i)
  | .string => pure (.str (genUtf8 ρ i), i + 10)
  | .int => do let n ← randint Validate.INT_MIN Validate.INT_MAX ρ i; pure (.int n, i + 1)
  | .long => do let n ← randint Validate.LONG_MIN Validate.LONG_MAX ρ i; pure (.int n, i + 1)
  | .float => pure (.float (UInt64.ofNat (ρ i)), i + 1)
  | .double => pure (.float (UInt64.ofNat (ρ i)), i + 1)
  | .boolean => do let n ← randint 0 1 ρ i; pure (.bool (n != 0), i + 1)
  | .bytes => pure (.bytes (randBytes 10 ρ i), i + 10)

/-- `[gen_data(items) for _ in range(n)]` -/
def genItemsWith (g : Nat → R (Val × Nat)) : Nat → Nat → R (List Val × Nat)
  | 0, i => pure ([], i)
  | n+1, i => do
    let (x, i) ← g i
    let (xs, i) ← genItemsWith g n i
    pure (x :: xs, i)

/-- `{_gen_utf8(): gen_data(values) for _ in range(n)}` -/
def genEntriesWith (g : Nat → R (Val × Nat)) (ρ : Rand) : Nat → Nat → List (Val × Val) → R (List (Val × Val) × Nat)
  | 0, i, acc => pure (acc, i)
  | n+1, i, acc => do
    let k := genUtf8 ρ i
    let (x, i) ← g (i + 10)
    genEntriesWith g ρ n i (valDictSet acc k x)

/-- `{field["name"]: gen_data(field["type"]) for field in fields}` -/
def genFieldsWith (g : Schema → Nat → R (Val × Nat)) : List Field → Nat → List (Val × Val) → R (List (Val × Val) × Nat)
  | [], i, acc => pure (acc, i)
  | f :: rest, i, acc => do
    let (x, i) ← g f.type i
    genFieldsWith g rest i (valDictSet acc f.name x)

/-- `gen_data(schema, named_schemas)` -/
def genData (fuel : Nat) (env : Env) (ρ : Rand) (s : Schema) (i : Nat) : R (Val × Nat) :=
  match fuel with
  | 0 => .error .fuel
  | fuel+1 =>
  match s with
  | .prim p _ none => genPrim p ρ i
  | .prim _ _ (some _) => throw .other
  | .fixed _ size none _ => pure (.bytes (randBytes size ρ i), i + size)
  | .fixed _ _ (some _) _ => throw .other
  | .enum _ syms _ _ => do
    let n ← randint 0 ((syms.length : Int) - 1) ρ i
    match syms[n.toNat]? with
    | some x => pure (.str x, i + 1)
    | none => throw .index
  | .array items => do
    let (xs, i) ← genItemsWith (genData fuel env ρ items) 10 i
    pure (.list xs, i)
  | .map values => do
    let (kv, i) ← genEntriesWith (genData fuel env ρ values) ρ 10 i []
    pure (.dict kv, i)
  | .union bs => do
    let n ← randint 0 ((bs.length : Int) - 1) ρ i
    match bs[n.toNat]? with
    | some b => genData fuel env ρ b (i + 1)
    | none => throw .index
  | .record _ fields _ => do
    let (kv, i) ← genFieldsWith (genData fuel env ρ) fields i []
    pure (.dict kv, i)
  | .ref n =>
    match env.get? n with
    | some s' => genData fuel env ρ s' i
    | none => throw .index

/-- `generate_many(schema, count)`: exactly `count` values -/
def genMany (fuel : Nat) (env : Env) (ρ : Rand) (s : Schema) : Nat → Nat → R (List Val × Nat)
  | 0, i => pure ([], i)
  | n+1, i => do
    let (x, i) ← genData fuel env ρ s i
    let (xs, i) ← genMany fuel env ρ s n i
    pure (x :: xs, i)

/-! ### the image of the generator (for the correspondence check): could `v` have been returned? -/

def isGenString (s : String) : Bool := s.length == 10 && s.toList.all LETTERS.contains

def inImage (fuel : Nat) (env : Env) (s : Schema) (v : Val) : Bool :=
  match fuel with
  | 0 => false
  | fuel+1 =>
  match s with
  | .prim p _ none =>
    (match p, v with
     | .null, .none => true
     | .string, .str x => isGenString x
     | .int, .int n => decide (Validate.INT_MIN ≤ n ∧ n ≤ Validate.INT_MAX)
     | .long, .int n => decide (Validate.LONG_MIN ≤ n ∧ n ≤ Validate.LONG_MAX)
     | .float, .float _ => true
     | .double, .float _ => true
     | .boolean, .bool _ => true
     | .bytes, .bytes b => b.length == 10
     | _, _ => false)
  | .prim _ _ (some _) => false
  | .fixed _ size none _ => (match v with | .bytes b => b.length == size | _ => false)
  | .fixed _ _ (some _) _ => false
  | .enum _ syms _ _ => (match v with | .str x => syms.contains x | _ => false)
  | .array items => (match v with | .list xs => xs.length == 10 && xs.all (inImage fuel env items) | _ => false)
  | .map values =>
    (match v with
     | .dict kv => decide (kv.length ≤ 10) && decide (1 ≤ kv.length) &&
        kv.all fun e => (match e.1 with | .str k => isGenString k | _ => false) && inImage fuel env values e.2
     | _ => false)
  | .union bs => bs.any fun b => inImage fuel env b v
  | .record _ fields _ =>
    (match v with
     | .dict kv => kv.length == (fields.map Field.name).eraseDups.length &&
        fields.all fun f => (match dictGetV kv f.name with | some x => inImage fuel env f.type x | none => false)
     | _ => false)
  | .ref n => (match env.get? n with | some s' => inImage fuel env s' v | none => false)

end Generate
