/-
  Model/Load.lean — follows `_inject_schema` of `fastavro/_schema_py.py` (used by `load_schema` and
  `load_schema_ordered`): substitutes the definition `inner` for the first reference to its name in
  the raw schema `outer`, tracking the namespace in effect.  Raw schemas are Python objects (`Val`);
  the in-place dict assignments of the code are modelled functionally (`valDictSet`).
-/
import Model.Parse
import Model.Binary

namespace Load
open Binary

def isPrimName (s : String) : Bool := (Prim.ofName? s).isSome

/-- the union loop / the field loop: elements after the injection point are kept as they are -/
def injectListWith (f : Val → Bool → R (Val × Bool)) : List Val → Bool → R (List Val × Bool)
  | [], inj => pure ([], inj)
  | x :: rest, inj =>
    if inj then do
      let (ys, i2) ← injectListWith f rest inj
      pure (x :: ys, i2)
    else do
      let (y, i1) ← f x inj
      let (ys, i2) ← injectListWith f rest (inj || i1)
      pure (y :: ys, i2)

/-- one field of a record: `field["type"] = _inject_schema(field["type"], …)` -/
def injectFieldWith (f : Val → Bool → R (Val × Bool)) (fld : Val) (inj : Bool) : R (Val × Bool) :=
  match fld with
  | .dict fkv =>
    match dictGetV fkv "type" with
    | some t => do
      let (t', i) ← f t inj
      pure (.dict (valDictSet fkv "type" t'), i)
    | none => throw .index
  | _ => throw .type

/-- `_inject_schema(outer_schema, inner_schema, ns, is_injected)`; `innerName = inner_schema["name"]` -/
def inject (fuel : Nat) (inner : Val) (innerName : String) (outer : Val) (ns : String) (isInj : Bool) : R (Val × Bool) :=
  match fuel with
  | 0 => .error .fuel
  | fuel+1 =>
  if isInj then pure (outer, true) else
  match outer with
  | .list xs => do
    let (ys, i) ← injectListWith (fun x inj => inject fuel inner innerName x ns inj) xs false
    pure (.list ys, i)
  | .str name =>
    if isPrimName name then pure (outer, false)
    else
      let full := if !name.contains '.' && ns != "" then ns ++ "." ++ name else name
      if full == innerName then pure (inner, true) else pure (.str full, false)
  | .dict kv =>
    match dictGetV kv "type" with
    | some (.str ty) =>
      if ty == "array" then
        match dictGetV kv "items" with
        | some items => do
          let (r, i) ← inject fuel inner innerName items ns false
          pure (.dict (valDictSet kv "items" r), i)
        | none => throw .index
      else if ty == "map" then
        match dictGetV kv "values" with
        | some values => do
          let (r, i) ← inject fuel inner innerName values ns false
          pure (.dict (valDictSet kv "values" r), i)
        | none => throw .index
      else if ty == "enum" || ty == "fixed" then pure (outer, false)
      else if ty == "record" || ty == "error" then do
        let (ns', _) ← Parse.schemaName kv ns
        let fields := dictListOr kv "fields"
        let (fs, i) ← injectListWith (injectFieldWith fun t inj => inject fuel inner innerName t ns' inj) fields false
        if fs.isEmpty then pure (outer, i) else pure (.dict (valDictSet kv "fields" (.list fs)), i)
      else if isPrimName ty then pure (outer, false)
      else throw .other
    | some _ => throw .other
    | none => throw .index
  | _ => throw .type

end Load
