/-
  Model/JsonMachine.lean — the push-down machine that sequences the JSON encoder / decoder calls:
  `fastavro/io/parser.py` (grammar built from the schema, symbol stack, `advance`, `drain_actions`,
  `flush`), `fastavro/io/symbols.py`, `fastavro/io/json_encoder.py` (`AvroJSONEncoder`: `_stack`,
  `_current`, `_key`, `_records`) and `fastavro/io/json_decoder.py` (`AvroJSONDecoder`), driven by the
  traversals of `write_data` (`_write_py.py`) and `read_data` (`_read_py.py`).

  Conventions
    * a symbol stack is a `List Sym` with the TOP AT THE HEAD; a production is stored top-first, i.e.
      as Python's `production[::-1]` (for a record this is the natural order
      RecordStart, FieldStart f1, T1, FieldEnd, …, RecordEnd that `_process_record` builds backwards
      with `insert(0, …)`); `Alternative.production` keeps Python's order (it is indexed);
    * `Repeater.production = [self] + symbols`: `rep e body` holds `symbols[::-1]`, the expansion is
      `body ++ [self]`; `Root.production = [root, symbol]`: `root body` expands to `[body, root body]`;
    * symbol equality is class equality (`Symbol.__eq__`), so `advance(X())` looks for a terminal of kind X;
    * the encoder's / decoder's Python objects `_current` are mutable and shared; the model is functional
      and reproduces exactly the mutations that can be observed later (`pop(0)` in `iter_array`, the
      re-binding of a union member in `read_index`, `del` in `iter_map`).  Schema defaults handed out by
      `get_default()` are copied by the code (see the fix for finding F30), so no default is shared.
  `Json.encode` / `Json.decode` (Model/Json.lean) describe the net effect; `Proofs/JsonMachine.lean`
  proves that the machine computes exactly that on the schemas where it does not derail.
-/
import Model.Json

namespace JM
open Binary Json

/-- terminal classes of `symbols.py` -/
inductive TK where
  | null | boolean | string | bytes | int | long | float | double | fixed | union
  | mapEnd | mapStart | mapKeyMarker | itemEnd | arrayEnd | arrayStart | enum
deriving DecidableEq, Repr, Inhabited

inductive Sym where
  | root (body : Sym)
  | term (k : TK) (dflt : Option Val)
  | seq (prod : List Sym)
  | rep (endK : TK) (body : List Sym)
  | alt (syms : List Sym) (labels : List String) (dflt : Option Val)
  | enumLabels (labels : List String)
  | unionEnd
  | recordStart (dflt : Option Val)
  | recordEnd
  | fieldStart (name : String)
  | fieldEnd
deriving Repr, Inhabited

def Sym.isAction : Sym → Bool
  | .enumLabels _ | .unionEnd | .recordStart _ | .recordEnd | .fieldStart _ | .fieldEnd => true
  | _ => false

def Sym.isTerm (k : TK) : Sym → Bool
  | .term k' _ => k' == k
  | _ => false

/-- `symbol.get_default()` -/
def getDefault (d : Option Val) : R Val :=
  match d with
  | some v => .ok v
  | none => .error .value            -- ValueError("no value and no default")

def primTK : Prim → TK
  | .null => .null | .boolean => .boolean | .int => .int | .long => .long
  | .float => .float | .double => .double | .bytes => .bytes | .string => .string

/-! ### the grammar (`Parser._parse`, `Parser._process_record`) -/

/-- keys of the dict a parsed schema node is (standard attributes only; `doc` and user attributes
    are not modelled) — for `schema_name in field["type"]` when the field type is a dict -/
def dictKeysOf : Schema → List String
  | .prim _ _ lt => "type" :: (match lt with | some l => "logicalType" :: (if l.precision.isSome then ["precision", "scale"] else []) | none => [])
  | .record _ _ al => ["type", "name", "fields"] ++ (if al.isEmpty then [] else ["aliases"])
  | .enum _ _ d al => ["type", "name", "symbols"] ++ (if d.isSome then ["default"] else []) ++ (if al.isEmpty then [] else ["aliases"])
  | .fixed _ _ lt al => ["type", "name", "size"] ++ (match lt with | some _ => ["logicalType", "precision", "scale"] | none => []) ++ (if al.isEmpty then [] else ["aliases"])
  | .array _ => ["type", "items"]
  | .map _ => ["type", "values"]
  | _ => []

/-- Python's `schema_name in field["type"]`: substring test on a string, key test on a dict,
    element test on a list -/
def nameInType (name : String) : Schema → Bool
  | .prim p false _ => strContains p.name name
  | .ref n => strContains n name
  | .union bs => bs.any fun b =>
      match b with
      | .prim p false _ => p.name == name
      | .ref n => n == name
      | _ => false
  | s => (dictKeysOf s).contains name

/-- the forced production for a field of a record met again:
    `Sequence(Alternative([Null()], ["null"], default=None), Union())` -/
def forcedNull : Sym := .seq [.term .union none, .alt [.term .null none] ["null"] (some .none)]

/-- the field loop of `_process_record`; `again = some name` when the record was met before; `b` is `_parse` -/
def buildFieldsWith (b : List String → Schema → Option Val → R (Sym × List String)) (again : Option String) :
    List String → List Field → R (List Sym × List String)
  | proc, [] => pure ([.recordEnd], proc)
  | proc, f :: rest => do
    let (t, proc) ← match again with
      | some name => if nameInType name f.type then pure (forcedNull, proc) else b proc f.type f.default
      | none => b proc f.type f.default
    let (more, proc) ← buildFieldsWith b again proc rest
    pure (.fieldStart f.name :: t :: .fieldEnd :: more, proc)

/-- the branch loop of the union case -/
def buildListWith (b : List String → Schema → Option Val → R (Sym × List String)) :
    List String → List Schema → R (List Sym × List String)
  | proc, [] => pure ([], proc)
  | proc, x :: rest => do
    let (y, proc) ← b proc x none
    let (ys, proc) ← buildListWith b proc rest
    pure (y :: ys, proc)

/-- `Parser._parse(schema, default)`; `proc` is `_processed_records` -/
def build (fuel : Nat) (env : Env) (proc : List String) (s : Schema) (dflt : Option Val) : R (Sym × List String) :=
  match fuel with
  | 0 => .error .fuel
  | fuel+1 =>
  match s with
  | .record name fields _ =>
    if proc.contains name then do
      let (body, proc) ← buildFieldsWith (build fuel env) (some name) proc fields
      pure (.seq (.recordStart dflt :: body), proc)
    else do
      let (body, proc) ← buildFieldsWith (build fuel env) none (proc ++ [name]) fields
      pure (.seq (.recordStart dflt :: body), proc)
  | .union bs => do
    let (syms, proc) ← buildListWith (build fuel env) proc bs
    pure (.seq [.term .union none, .alt syms (bs.map label) dflt], proc)
  | .map values => do
    let (v, proc) ← build fuel env proc values none
    pure (.seq [.term .mapStart dflt, .rep .mapEnd [.term .string none, .term .mapKeyMarker none, v]], proc)
  | .array items => do
    let (i, proc) ← build fuel env proc items none
    pure (.seq [.term .arrayStart dflt, .rep .arrayEnd [i, .term .itemEnd none]], proc)
  | .enum _ syms _ _ => pure (.seq [.term .enum dflt, .enumLabels syms], proc)
  | .prim .null _ _ => pure (.term .null dflt, proc)
  | .prim p _ _ => pure (.term (primTK p) dflt, proc)
  | .fixed _ _ _ _ => pure (.term .fixed dflt, proc)
  | .ref n =>
    match env.get? n with
    | some s' => build fuel env proc s' dflt
    | none => .error .other                 -- Exception("Unhandled type")

/-- `Parser.parse()`: the initial stack `[root, symbol]` (top = `symbol`) -/
def initialStack (fuel : Nat) (env : Env) (s : Schema) : R (List Sym) := do
  let (g, _) ← build fuel env [] s none
  pure [g, .root g]

/-! ### `Parser.advance`

`advance(symbol)` is a loop: pop the top; a terminal of the wanted class ends it; an action is executed;
any other terminal is an error; a repeater whose end marker is wanted ends it; everything else is replaced
by its production.  The model computes the same result by recursion over the structure of the symbols
instead of by iteration over a growing stack: `advS k sym` works through the expansion of ONE symbol and
returns either `some (found, rem)` — the terminal found and what is left of this symbol's expansion (to be put
back on the stack, top first) — or `none` when the symbol was used up without meeting a terminal (only
actions).  A repeater or the root symbol used up in that way would be expanded again for ever (`.fuel`). -/
mutual
def advS {σ : Type} (act : Sym → σ → R σ) (k : TK) : Sym → σ → R (Option (Sym × List Sym) × σ)
  | .term k' d, st => if k' == k then .ok (some (.term k' d, []), st) else .error .other   -- "Internal Parser Exception"
  | .seq prod, st => advL act k prod st
  | .rep e body, st =>
      if e == k then .ok (some (.term k none, []), st)
      else match advL act k body st with
        | .ok (some (y, rem), st') => .ok (some (y, rem ++ [.rep e body]), st')
        | .ok (none, _) => .error .fuel
        | .error x => .error x
  | .root body, st =>
      match advS act k body st with
        | .ok (some (y, rem), st') => .ok (some (y, rem ++ [.root body]), st')
        | .ok (none, _) => .error .fuel
        | .error x => .error x
  | .alt syms _ _, st => advR act k syms st
  | .enumLabels l, st => do let st' ← act (.enumLabels l) st; pure (none, st')
  | .unionEnd, st => do let st' ← act .unionEnd st; pure (none, st')
  | .recordStart d, st => do let st' ← act (.recordStart d) st; pure (none, st')
  | .recordEnd, st => do let st' ← act .recordEnd st; pure (none, st')
  | .fieldStart n, st => do let st' ← act (.fieldStart n) st; pure (none, st')
  | .fieldEnd, st => do let st' ← act .fieldEnd st; pure (none, st')
/-- a stack (or a production stored top-first) -/
def advL {σ : Type} (act : Sym → σ → R σ) (k : TK) : List Sym → σ → R (Option (Sym × List Sym) × σ)
  | [], st => .ok (none, st)
  | x :: xs, st =>
      match advS act k x st with
      | .ok (some (y, rem), st') => .ok (some (y, rem ++ xs), st')
      | .ok (none, st') => advL act k xs st'
      | .error x => .error x
/-- the production of an `Alternative` (kept in Python's order: its last element is on top) -/
def advR {σ : Type} (act : Sym → σ → R σ) (k : TK) : List Sym → σ → R (Option (Sym × List Sym) × σ)
  | [], st => .ok (none, st)
  | x :: xs, st =>
      match advR act k xs st with
      | .ok (some (y, rem), st') => .ok (some (y, rem ++ [x]), st')
      | .ok (none, st') => advS act k x st'
      | .error x => .error x
end

/-- `Parser.advance(symbol)` with `symbol` a terminal of class `k`; `act` is `action_function` -/
def advance {σ : Type} (act : Sym → σ → R σ) (k : TK) (ps : List Sym) (st : σ) : R (Sym × List Sym × σ) :=
  match advL act k ps st with
  | .ok (some (y, rem), st') => .ok (y, rem, st')
  | .ok (none, _) => .error .index             -- pop from empty list
  | .error x => .error x

/-! ### the encoder (`AvroJSONEncoder`) -/

structure Enc where
  stack : List (Val × Val) := []      -- `_stack`, top at the head
  current : Val := .none              -- `_current`: None, a dict or a list
  key : Val := .none                  -- `_key`: None or a str
  records : List Val := []            -- `_records`
  out : Option (List Val) := none     -- what `write_buffer` wrote (one JSON document per record)
deriving Inhabited

/-- `d[k] = v` for a key that is a str or None -/
def dictSetKey (kv : List (Val × Val)) (k : Val) (v : Val) : List (Val × Val) :=
  match k with
  | .str s => valDictSet kv s v
  | k => kv ++ [(k, v)]

/-- `write_value` -/
def Enc.writeValue (e : Enc) (v : Val) : R Enc :=
  match e.current with
  | .dict kv =>
    match e.key with
    | .str s => if s.isEmpty then .error .other else .ok { e with current := .dict (valDictSet kv s v) }
    | _ => .error .other                       -- "No key was set"
  | .list xs => .ok { e with current := .list (xs ++ [v]) }
  | _ => .ok { e with records := e.records ++ [v] }

def Enc.push (e : Enc) : Enc := { e with stack := (e.current, e.key) :: e.stack }

/-- `_pop` -/
def Enc.pop (e : Enc) : R Enc :=
  match e.stack with
  | [] => .error .index
  | (pc, pk) :: rest =>
    match pc with
    | .dict kv => .ok { e with stack := rest, current := .dict (dictSetKey kv pk e.current) }
    | .list xs => .ok { e with stack := rest, current := .list (xs ++ [e.current]) }
    | .none =>
      match pk with
      | .none => .ok { e with stack := rest, records := e.records ++ [e.current], current := .none, key := .none }
      | _ => .error .other                     -- assert prev_key is None
    | _ => .error .other                       -- assert prev_current is None

def Enc.objectStart (e : Enc) : Enc := { e.push with current := .dict [] }

/-- `do_action` of the encoder (`Root` only reaches it from `flush`) -/
def encAct (a : Sym) (e : Enc) : R Enc :=
  match a with
  | .recordStart _ => .ok e.objectStart
  | .recordEnd => e.pop
  | .unionEnd => e.pop
  | .fieldStart n => .ok { e with key := .str n }
  | .fieldEnd => .ok e
  | .root _ => .ok { e with out := some e.records }
  | _ => .error .other

/-- encoder + parser -/
structure ES where
  ps : List Sym
  e : Enc
deriving Inhabited

def ES.advance (st : ES) (k : TK) : R (Sym × ES) := do
  let (top, ps, e) ← JM.advance encAct k st.ps st.e
  pure (top, { ps := ps, e := e })

/-- `write_null`, `write_boolean`, `write_int`, … : advance to the terminal, then `write_value` -/
def ES.writeLeaf (st : ES) (k : TK) (j : Val) : R ES := do
  let (_, st) ← st.advance k
  let e ← st.e.writeValue j
  pure { st with e := e }

/-- `write_utf8`: a string in map-key position becomes the key -/
def ES.writeUtf8 (st : ES) (j : Val) : R ES := do
  let (_, st) ← st.advance .string
  match st.ps with
  | [] => .error .index                        -- `self._parser.stack[-1]`
  | top :: _ =>
    if top.isTerm .mapKeyMarker then do
      let (_, st) ← st.advance .mapKeyMarker
      pure { st with e := { st.e with key := j } }
    else do
      let e ← st.e.writeValue j
      pure { st with e := e }

/-- `write_enum(index)` -/
def ES.writeEnum (st : ES) (idx : Nat) : R ES := do
  let (_, st) ← st.advance .enum
  match st.ps with
  | [] => .error .index
  | top :: ps =>
    match top with
    | .enumLabels labels =>
      match labels[idx]? with
      | some l => do
        let e ← st.e.writeValue (.str l)
        pure { ps := ps, e := e }
      | none => .error .index
    | .alt _ labels _ =>
      match labels[idx]? with
      | some l => do
        let e ← st.e.writeValue (.str l)
        pure { ps := ps, e := e }
      | none => .error .index
    | _ => .error .type                        -- no attribute `labels`

def ES.arrayStart (st : ES) : R ES := do
  let (_, st) ← st.advance .arrayStart
  pure { st with e := { st.e.push with current := .list [] } }

def ES.endItem (st : ES) : R ES := do
  let (_, st) ← st.advance .itemEnd
  pure st

def ES.arrayEnd (st : ES) : R ES := do
  let (_, st) ← st.advance .arrayEnd
  let e ← st.e.pop
  pure { st with e := e }

def ES.mapStart (st : ES) : R ES := do
  let (_, st) ← st.advance .mapStart
  pure { st with e := st.e.objectStart }

def ES.mapEnd (st : ES) : R ES := do
  let (_, st) ← st.advance .mapEnd
  let e ← st.e.pop
  pure { st with e := e }

/-- `write_index(index, schema)` -/
def ES.writeIndex (wut : Bool) (st : ES) (idx : Nat) : R ES := do
  let (_, st) ← st.advance .union
  match st.ps with
  | [] => .error .index
  | top :: ps =>
    match top with
    | .alt syms labels _ =>
      match syms[idx]? with
      | none => .error .index
      | some sym =>
        if !(sym.isTerm .null) && wut then
          match labels[idx]? with
          | none => .error .index
          | some l => pure { ps := sym :: .unionEnd :: ps, e := { st.e.objectStart with key := .str l } }
        else pure { ps := sym :: ps, e := st.e }
    | _ => .error .type                        -- no attribute `get_symbol`

/-- the item loop of `write_array` -/
def mItemsWith (f : Val → ES → R ES) : List Val → ES → R ES
  | [], st => pure st
  | x :: xs, st => do
    let st ← f x st
    let st ← st.endItem
    mItemsWith f xs st

/-- the entry loop of `write_map` -/
def mEntriesWith (f : Val → ES → R ES) : List (Val × Val) → ES → R ES
  | [], st => pure st
  | (k, x) :: rest, st => do
    match k with
    | .str _ =>
      let st ← st.writeUtf8 k
      let st ← f x st
      mEntriesWith f rest st
    | _ => .error .type

/-- the field loop of `write_record` -/
def mFieldsWith (f : Schema → Val → ES → R ES) : List Field → List (Val × Val) → ES → R ES
  | [], _, st => pure st
  | fld :: rest, kv, st => do
    let dv := presentOrDefault kv fld
    let dv ← fieldCoerce fld.type dv
    let st ← f fld.type dv st
    mFieldsWith f rest kv st

/-- `write_data(encoder, datum, schema, …)` with `encoder` the JSON encoder -/
def mEncode (wut : Bool) (fuel : Nat) (env : Env) (o : WOpts) (s : Schema) (v : Val) (st : ES) : R ES :=
  match fuel with
  | 0 => .error .fuel
  | fuel+1 =>
  match s with
  | .prim p _ none => do
    let j ← encPrim p v
    if p == .string then st.writeUtf8 j else st.writeLeaf (primTK p) j
  | .prim _ _ (some _) => .error .other
  | .fixed _ _ none _ =>
    match v with
    | .bytes b => st.writeLeaf .fixed (.str (latin1Dec b))
    | _ => .error .type
  | .fixed _ _ (some _) _ => .error .other
  | .enum _ syms _ _ =>
    match v with
    | .str x =>
      match indexOf? syms x with
      | some i => st.writeEnum i
      | none => .error .value
    | _ => .error .value
  | .array items =>
    match iterItems? v with                   -- anything with a `len` that can be iterated (bytes yield ints)
    | some xs => do
      let st ← st.arrayStart
      let st ← mItemsWith (mEncode wut fuel env o items) xs st
      st.arrayEnd
    | none => .error .type
  | .map values =>
    match v with
    | .dict kv => do
      let st ← st.mapStart
      let st ← mEntriesWith (mEncode wut fuel env o values) kv st
      st.mapEnd
    | _ => .error .type
  | .union bs => do
    let (i, v') ← choose fuel env o bs v
    match bs[i]? with
    | none => .error .index
    | some b =>
      let st ← st.writeIndex wut i
      mEncode wut fuel env o b v' st
  | .record _ fields _ =>
    match v with
    | .dict kv => mFieldsWith (mEncode wut fuel env o) fields kv st
    | _ => .error .type
  | .ref n =>
    match env.get? n with
    | some s' => mEncode wut fuel env o s' v st
    | none => .error .index

/-- `Parser.flush()` -/
def flush : List Sym → Enc → R Enc
  | [], e => .ok e
  | top :: ps, e =>
    match top with
    | .root _ => do let e ← encAct top e; flush ps e
    | a => if a.isAction then do let e ← encAct a e; flush ps e else .error .other

def mEncodeAllFrom (wut : Bool) (fuel : Nat) (env : Env) (o : WOpts) (s : Schema) : List Val → ES → R ES
  | [], st => pure st
  | v :: vs, st => do
    let st ← mEncode wut fuel env o s v st
    mEncodeAllFrom wut fuel env o s vs st

/-- `json_writer(fo, schema, records)`: the JSON documents written, one per line -/
def encodeAll (wut : Bool) (fuel : Nat) (env : Env) (o : WOpts) (s : Schema) (vs : List Val) : R (List Val) := do
  let ps ← initialStack fuel env s
  let st ← mEncodeAllFrom wut fuel env o s vs { ps := ps, e := {} }
  let e ← flush st.ps st.e
  match e.out with
  | some docs => pure docs
  | none => pure []

/-! ### the decoder (`AvroJSONDecoder`) -/

structure Dec where
  stack : List (Val × Val) := []
  current : Val := .none
  key : Val := .none
  data : List Val := []               -- `_json_data`
  done : Bool := false
deriving Inhabited

/-- `key in d` / `d[key]` for a key that is a str or None (JSON objects have str keys only) -/
def dictGetKey (kv : List (Val × Val)) (k : Val) : Option Val :=
  match k with
  | .str s => dictGetV kv s
  | _ => none

/-- `read_value(symbol)` -/
def Dec.readValue (d : Dec) (dflt : Option Val) : R Val :=
  match d.current with
  | .dict kv =>
    match dictGetKey kv d.key with
    | some x => .ok x
    | none => getDefault dflt
  | c => .ok c

def Dec.push (d : Dec) : Dec := { d with stack := (d.current, d.key) :: d.stack }

/-- `_push_and_adjust(symbol)` -/
def Dec.pushAdjust (d : Dec) (dflt : Option Val) : R Dec :=
  let d' := d.push
  match d.current, d.key with
  | .dict kv, .str s =>
    match dictGetV kv s with
    | some x => .ok { d' with current := x }
    | none => do let x ← getDefault dflt; pure { d' with current := x }
  | _, _ => .ok d'

def Dec.pop (d : Dec) : R Dec :=
  match d.stack with
  | [] => .error .index
  | (c, k) :: rest => .ok { d with stack := rest, current := c, key := k }

/-- `do_action` of the decoder -/
def decAct (a : Sym) (d : Dec) : R Dec :=
  match a with
  | .recordStart dflt => d.pushAdjust dflt
  | .recordEnd => d.pop
  | .fieldStart n => .ok { d with key := .str n }
  | .fieldEnd => .ok d
  | .unionEnd => .ok d
  | _ => .error .other                         -- "cannot handle"

structure DS where
  ps : List Sym
  d : Dec
deriving Inhabited

def symDefault : Sym → Option Val
  | .term _ d => d
  | .alt _ _ d => d
  | .recordStart d => d
  | _ => none

def DS.advance (st : DS) (k : TK) : R (Sym × DS) := do
  let (top, ps, d) ← JM.advance decAct k st.ps st.d
  pure (top, { ps := ps, d := d })

/-- `read_null`, `read_boolean`, `read_int`, … -/
def DS.readLeaf (st : DS) (k : TK) : R (Val × DS) := do
  let (sym, st) ← st.advance k
  let v ← st.d.readValue (symDefault sym)
  pure (v, st)

/-- the first key of a dict (`for key in self._current: break`) -/
def firstKey? : Val → Option Val
  | .dict ((k, _) :: _) => some k
  | _ => none

/-- `read_utf8` -/
def DS.readUtf8 (st : DS) : R (Val × DS) := do
  let (sym, st) ← st.advance .string
  match st.ps with
  | [] => .error .index
  | top :: _ =>
    if top.isTerm .mapKeyMarker then do
      let (_, st) ← st.advance .mapKeyMarker
      match st.d.current with
      | .dict kv =>
        let key := match kv with | (k, _) :: _ => k | [] => st.d.key
        pure (key, { st with d := { st.d with key := key } })
      | .list (x :: _) => pure (x, { st with d := { st.d with key := x } })   -- iterating a list yields its items
      | .list [] => pure (st.d.key, st)
      | .str s =>
        (match s.toList with
         | c :: _ => pure (.str (String.singleton c), { st with d := { st.d with key := .str (String.singleton c) } })
         | [] => pure (st.d.key, st))
      | _ => .error .type                      -- not iterable
    else do
      let v ← st.d.readValue (symDefault sym)
      pure (v, st)

/-- `read_enum`: the index of the label read -/
def DS.readEnum (st : DS) : R (Nat × DS) := do
  let (sym, st) ← st.advance .enum
  match st.ps with
  | [] => .error .index
  | top :: ps =>
    let st : DS := { st with ps := ps }
    let label ← st.d.readValue (symDefault sym)
    let labels ← match top with
      | .enumLabels ls => pure ls
      | .alt _ ls _ => pure ls
      | _ => .error .type
    match label with
    | .str l =>
      match indexOf? labels l with
      | some i => pure (i, st)
      | none => .error .value                  -- list.index: ValueError
    | _ => .error .value

/-- `read_index` -/
def DS.readIndex (st : DS) : R (Nat × DS) := do
  let (_, st) ← st.advance .union
  match st.ps with
  | [] => .error .index
  | top :: ps =>
    match top with
    | .alt syms labels dflt => do
      -- (label, state after the re-binding, whether UnionEnd is pushed)
      let (label, d, pushEnd) ← (match st.d.key with
        | .none =>
          (match st.d.current with
           | .none => pure ("null", st.d, false)
           | .dict kv =>
             (match kv.getLast? with
              | some (.str l, data) => pure (l, { st.d with current := data }, true)
              | some _ => .error .value
              | none => .error .index)          -- popitem(): dictionary is empty (KeyError)
           | _ => .error .type)                -- no attribute popitem
        | key =>
          (match st.d.current with
           | .dict kv => do
             let kv ← (match dictGetKey kv key with
               | some _ => pure kv
               | none => do
                 let dv ← getDefault dflt
                 match labels with
                 | l0 :: _ => pure (dictSetKey kv key (.dict [(.str l0, dv)]))
                 | [] => .error .index)
             match dictGetKey kv key with
             | some .none => pure ("null", { st.d with current := .dict kv }, false)
             | some (.dict inner) =>
               (match inner.getLast? with
                | some (.str l, data) => pure (l, { st.d with current := .dict (dictSetKey kv key data) }, true)
                | some _ => .error .value
                | none => .error .index)
             | some _ => .error .type
             | none => .error .index
           | .list _ => .error .type           -- list indices must be integers
           | _ => .error .type) : R (String × Dec × Bool))
      match indexOf? labels label with
      | none => .error .value
      | some idx =>
        match syms[idx]? with
        | none => .error .index
        | some sym =>
          let ps := if pushEnd then sym :: .unionEnd :: ps else sym :: ps
          pure (idx, { ps := ps, d := d })
    | _ => .error .type

def DS.mapStart (st : DS) : R DS := do
  let (sym, st) ← st.advance .mapStart
  let d ← st.d.pushAdjust (symDefault sym)
  pure { st with d := d }

def DS.mapEnd (st : DS) : R DS := do
  let (_, st) ← st.advance .mapEnd
  let d ← st.d.pop
  pure { st with d := d }

def DS.arrayStart (st : DS) : R DS := do
  let (sym, st) ← st.advance .arrayStart
  let d ← st.d.pushAdjust (symDefault sym)
  pure { st with d := { d with key := .none } }

def DS.arrayEnd (st : DS) : R DS := do
  let (_, st) ← st.advance .arrayEnd
  let d ← st.d.pop
  pure { st with d := d }

/-- `len(self._current)` of the loop tests -/
def pyLen? : Val → Option Nat
  | .list xs => some xs.length
  | .dict kv => some kv.length
  | .str s => some s.length
  | .tuple xs => some xs.length
  | _ => none

/-- `for item in decoder.iter_array(): read_items.append(item_reader(…))`; the fuel bounds the number of items -/
def mArrayLoop (f : DS → R (Val × DS)) : Nat → DS → List Val → R (List Val × DS)
  | 0, _, _ => .error .fuel
  | n+1, st, acc =>
    match st.d.current with
    | .list [] => pure (acc, st)
    | .list (x :: rest) => do
      -- `_push()` then `self._current = self._current.pop(0)`: the frame holds the same (now shorter) list
      let d : Dec := { st.d with stack := (.list rest, st.d.key) :: st.d.stack, current := x }
      let (v, st) ← f { st with d := d }
      let d ← st.d.pop
      let (_, st) ← ({ st with d := d } : DS).advance .itemEnd
      mArrayLoop f n st (acc ++ [v])
    | .dict [] => pure (acc, st)
    | .dict _ => .error .type                  -- dict.pop(0): KeyError/TypeError
    | .str s => if s.isEmpty then pure (acc, st) else .error .type
    | _ => .error .type                        -- object has no len()

/-- remove the first entry of a dict (`del self._current[key]` for the key picked before the `yield`) -/
def dropFirst : Val → Val
  | .dict (_ :: rest) => .dict rest
  | v => v

/-- `for item in decoder.iter_map(): key = decoder.read_utf8(); read_items[key] = item_reader(…)` -/
def mMapLoop (f : DS → R (Val × DS)) : Nat → DS → List (Val × Val) → R (List (Val × Val) × DS)
  | 0, _, _ => .error .fuel
  | n+1, st, acc =>
    match st.d.current with
    | .dict [] => pure (acc, st)
    | .dict ((k0, _) :: _) => do
      let st : DS := { st with d := st.d.push }
      let (key, st) ← st.readUtf8
      let (v, st) ← f st
      let d ← st.d.pop
      -- `del self._current[key]` with the key chosen before the yield, on whatever `_current` now is
      let cur ← (match d.current with
        | .dict kv =>
          (match k0 with
           | .str s => if (dictGetV kv s).isSome then pure (Val.dict (kv.filter fun e => !(e.1.strEq s))) else .error .index
           | _ => .error .index)
        | .list _ => .error .type
        | _ => .error .type : R Val)
      let acc := match key with
        | .str s => valDictSet acc s v
        | k => acc ++ [(k, v)]
      mMapLoop f n { st with d := { d with current := cur } } acc
    | .list [] => pure (acc, st)
    | .list _ => .error .type
    | .str s => if s.isEmpty then pure (acc, st) else .error .type
    | _ => .error .type

/-- the field loop of `read_record` (no reader schema) -/
def mDecFieldsWith (f : Schema → DS → R (Val × DS)) : List Field → DS → List (Val × Val) → R (List (Val × Val) × DS)
  | [], st, acc => pure (acc, st)
  | fld :: rest, st, acc => do
    let (v, st) ← f fld.type st
    mDecFieldsWith f rest st (valDictSet acc fld.name v)

def DFUEL : Nat := 1000000

/-- `read_data(decoder, writer_schema, named_schemas)` with `decoder` the JSON decoder -/
def mDecode (fuel : Nat) (env : Env) (s : Schema) (st : DS) : R (Val × DS) :=
  match fuel with
  | 0 => .error .fuel
  | fuel+1 =>
  match s with
  | .prim p _ none =>
    match p with
    | .string => st.readUtf8
    | .bytes => do
      let (v, st) ← st.readLeaf .bytes
      match v with
      | .str t => (match latin1Enc t with | some b => pure (.bytes b, st) | none => .error .value)
      | _ => .error .type
    | p => st.readLeaf (primTK p)
  | .prim _ _ (some _) => .error .other
  | .fixed _ _ none _ => do
    let (v, st) ← st.readLeaf .fixed
    match v with
    | .str t => (match latin1Enc t with | some b => pure (.bytes b, st) | none => .error .value)
    | _ => .error .type
  | .fixed _ _ (some _) _ => .error .other
  | .enum _ syms _ _ => do
    let (i, st) ← st.readEnum
    match syms[i]? with
    | some x => pure (.str x, st)
    | none => .error .index
  | .array items => do
    let st ← st.arrayStart
    let (xs, st) ← mArrayLoop (mDecode fuel env items) DFUEL st []
    let st ← st.arrayEnd
    pure (.list xs, st)
  | .map values => do
    let st ← st.mapStart
    let (kv, st) ← mMapLoop (mDecode fuel env values) DFUEL st []
    let st ← st.mapEnd
    pure (.dict kv, st)
  | .union bs => do
    let (i, st) ← st.readIndex
    match bs[i]? with
    | none => .error .index
    | some b => mDecode fuel env b st
  | .record _ fields _ => do
    let (kv, st) ← mDecFieldsWith (mDecode fuel env) fields st []
    pure (.dict kv, st)
  | .ref n =>
    match env.get? n with
    | some s' => mDecode fuel env s' st
    | none => .error .index

/-! `Parser.drain_actions()`: pop until the root symbol is on top (it is pushed back); actions are executed,
other non-terminals replaced by their production, a terminal is an error.  As for `advance`, by recursion over
the symbols: `drainS sym` returns `some rem` when the root was met inside `sym`'s expansion. -/
mutual
def drainS : Sym → Dec → R (Option (List Sym) × Dec)
  | .root body, d => .ok (some [.root body], d)
  | .term _ _, _ => .error .other
  | .seq prod, d => drainL prod d
  | .rep e body, d =>
      match drainL body d with
      | .ok (some rem, d') => .ok (some (rem ++ [.rep e body]), d')
      | .ok (none, _) => .error .fuel
      | .error x => .error x
  | .alt syms _ _, d => drainR syms d
  | .enumLabels l, d => do let d' ← decAct (.enumLabels l) d; pure (none, d')
  | .unionEnd, d => do let d' ← decAct .unionEnd d; pure (none, d')
  | .recordStart x, d => do let d' ← decAct (.recordStart x) d; pure (none, d')
  | .recordEnd, d => do let d' ← decAct .recordEnd d; pure (none, d')
  | .fieldStart n, d => do let d' ← decAct (.fieldStart n) d; pure (none, d')
  | .fieldEnd, d => do let d' ← decAct .fieldEnd d; pure (none, d')
def drainL : List Sym → Dec → R (Option (List Sym) × Dec)
  | [], d => .ok (none, d)
  | x :: xs, d =>
      match drainS x d with
      | .ok (some rem, d') => .ok (some (rem ++ xs), d')
      | .ok (none, d') => drainL xs d'
      | .error e => .error e
def drainR : List Sym → Dec → R (Option (List Sym) × Dec)
  | [], d => .ok (none, d)
  | x :: xs, d =>
      match drainR xs d with
      | .ok (some rem, d') => .ok (some (rem ++ [x]), d')
      | .ok (none, d') => drainS x d'
      | .error e => .error e
end

def drain (ps : List Sym) (d : Dec) : R (List Sym × Dec) :=
  match drainL ps d with
  | .ok (some rem, d') => .ok (rem, d')
  | .ok (none, _) => .error .index
  | .error e => .error e

/-- the `_elems` loop of `reader` for a JSON decoder -/
def mDecodeLoop (fuel : Nat) (env : Env) (s : Schema) : Nat → DS → List Val → R (List Val)
  | 0, _, _ => .error .fuel
  | n+1, st, acc =>
    if st.d.done then pure acc else do
      let (v, st) ← mDecode fuel env s st
      let (ps, d) ← drain st.ps st.d
      let d := match d.data with
        | x :: rest => { d with current := x, key := .none, data := rest }
        | [] => { d with done := true }
      mDecodeLoop fuel env s n { ps := ps, d := d } (acc ++ [v])

/-- `list(json_reader(fo, schema))` for a text whose lines parse to `docs` -/
def decodeAll (fuel : Nat) (env : Env) (s : Schema) (docs : List Val) : R (List Val) := do
  let ps ← initialStack fuel env s
  let d : Dec := match docs with
    | x :: rest => { current := x, data := rest }
    | [] => { done := true }
  mDecodeLoop fuel env s (docs.length + 1) { ps := ps, d := d } []

end JM
