/-
  Model/Canon.lean — follows `_to_parsing_canonical_form` of `fastavro/_schema_py.py`
  (f-string interpolation of names and symbols, no escaping), on the parsed schema.
-/
import Model.Schema

namespace Canon

def q (s : String) : String := "\"" ++ s ++ "\""

mutual
def canon : Schema → String
  | .union bs => "[" ++ canonList bs ++ "]"
  | .prim p _ _ => q p.name
  | .ref n => q n
  | .array items => "{\"type\":\"array\",\"items\":" ++ canon items ++ "}"
  | .map values => "{\"type\":\"map\",\"values\":" ++ canon values ++ "}"
  | .enum name syms _ _ =>
      "{\"name\":" ++ q name ++ ",\"type\":\"enum\",\"symbols\":[" ++
        ",".intercalate (syms.map q) ++ "]}"
  | .fixed name size _ _ =>
      "{\"name\":" ++ q name ++ ",\"type\":\"fixed\",\"size\":" ++ toString size ++ "}"
  | .record name fields _ =>
      "{\"name\":" ++ q name ++ ",\"type\":\"record\",\"fields\":[" ++ canonFields fields ++ "]}"
def canonList : List Schema → String
  | [] => ""
  | [s] => canon s
  | s :: rest => canon s ++ "," ++ canonList rest
def canonFields : List Field → String
  | [] => ""
  | [.mk n t _ _] => "{\"name\":" ++ q n ++ ",\"type\":" ++ canon t ++ "}"
  | .mk n t _ _ :: rest => "{\"name\":" ++ q n ++ ",\"type\":" ++ canon t ++ "}," ++ canonFields rest
end

/-! the JSON value the canonical text denotes (C13, fixed-point clause) -/
mutual
/-- the JSON value `json.loads(canon s)` yields -/
def toRaw : Schema → Val
  | .union bs => .list (toRawList bs)
  | .prim p _ _ => .str p.name
  | .ref n => .str n
  | .array items => .dict [(.str "type", .str "array"), (.str "items", toRaw items)]
  | .map values => .dict [(.str "type", .str "map"), (.str "values", toRaw values)]
  | .enum name syms _ _ => .dict [(.str "name", .str name), (.str "type", .str "enum"), (.str "symbols", .list (syms.map .str))]
  | .fixed name size _ _ => .dict [(.str "name", .str name), (.str "type", .str "fixed"), (.str "size", .int size)]
  | .record name fields _ => .dict [(.str "name", .str name), (.str "type", .str "record"), (.str "fields", .list (toRawFields fields))]
def toRawList : List Schema → List Val
  | [] => []
  | s :: rest => toRaw s :: toRawList rest
def toRawFields : List Field → List Val
  | [] => []
  | .mk n t _ _ :: rest => .dict [(.str "name", .str n), (.str "type", toRaw t)] :: toRawFields rest
end

end Canon
