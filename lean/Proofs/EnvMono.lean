/-
  Proofs/EnvMono.lean — C12: definitions added to the named-schema dictionary (by pieces parsed
  earlier or later against the same dictionary) do not change what reading or skipping returns.
-/
import Model.Binary
import Proofs.Mono

namespace EnvMono
open Binary MonoProofs

/-- every definition of `env` is a definition of `env'` -/
def EnvLe (env env' : Env) : Prop := ∀ n s, env.get? n = some s → env'.get? n = some s

theorem wrap_mono (env env' : Env) (hle : EnvLe env env') (ro : ROpts) (bs : List Schema) (b : Schema) (v v' : Val)
    (hb : ∀ n, b = .ref n → ∃ d, env.get? n = some d)
    (h : wrapUnionResult env ro bs b v = .ok v') : wrapUnionResult env' ro bs b v = .ok v' := by
  cases b with
  | ref n =>
    obtain ⟨d, hd⟩ := hb n rfl
    simp only [wrapUnionResult, hd, hle n d hd] at h ⊢
    exact h
  | _ => simpa only [wrapUnionResult] using h

theorem readData_env (env env' : Env) (hle : EnvLe env env') (ro : ROpts) (f : Nat) :
    ∀ s bs r, readData f env ro s bs = .ok r → readData f env' ro s bs = .ok r := by
  induction f with
  | zero => intro s bs r hr; simp [readData] at hr
  | succ f ih =>
    intro s bs r hr
    cases s with
    | prim p df lt => simpa [readData] using hr
    | fixed n sz lt al => simpa [readData] using hr
    | enum n syms d al => simpa [readData] using hr
    | array items =>
      simp only [readData, bind_ok_iff, pure_ok_iff] at hr ⊢
      obtain ⟨⟨c, b1⟩, h1, ⟨xs, b2⟩, h2, h3⟩ := hr
      exact ⟨(c, b1), h1, (xs, b2),
        readBlocksWith_mono _ _ (fun bs r hh => ih items bs r hh) _ _ _ _ h2 _ (Nat.le_refl _), h3⟩
    | map values =>
      simp only [readData, bind_ok_iff, pure_ok_iff] at hr ⊢
      obtain ⟨⟨c, b1⟩, h1, ⟨xs, b2⟩, h2, h3⟩ := hr
      exact ⟨(c, b1), h1, (xs, b2),
        readMapBlocksWith_mono _ _ (fun bs r hh => ih values bs r hh) _ _ _ _ _ h2 _ (Nat.le_refl _), h3⟩
    | union branches =>
      simp only [readData, bind_ok_iff] at hr ⊢
      obtain ⟨⟨i, b1⟩, h1, h2⟩ := hr
      refine ⟨(i, b1), h1, ?_⟩
      cases hb : indexChecked branches i with
      | none => simp [hb, throw_ne_ok] at h2
      | some b =>
        simp only [hb, bind_ok_iff, pure_ok_iff] at h2 ⊢
        obtain ⟨⟨v, b2⟩, h3, v', h4, h5⟩ := h2
        refine ⟨(v, b2), ih b _ _ h3, v', wrap_mono env env' hle ro branches b v v' ?_ h4, h5⟩
        intro n hn
        subst hn
        cases f with
        | zero => simp [readData] at h3
        | succ f =>
          simp only [readData] at h3
          cases hg : env.get? n with
          | none => simp [hg, throw_ne_ok] at h3
          | some d => exact ⟨d, rfl⟩
    | record n fields al =>
      simp only [readData, bind_ok_iff, pure_ok_iff] at hr ⊢
      obtain ⟨⟨kv, b1⟩, h1, h2⟩ := hr
      exact ⟨(kv, b1), readFieldsWith_mono _ _ (fun s bs r hh => ih s bs r hh) _ _ _ _ h1, h2⟩
    | ref n =>
      simp only [readData] at hr ⊢
      cases hg : env.get? n with
      | none => simp [hg, throw_ne_ok] at hr
      | some s' => simp only [hg, hle n s' hg] at hr ⊢; exact ih s' bs r hr

theorem skipData_env (env env' : Env) (hle : EnvLe env env') (f : Nat) :
    ∀ s bs r, skipData f env s bs = .ok r → skipData f env' s bs = .ok r := by
  induction f with
  | zero => intro s bs r hr; simp [skipData] at hr
  | succ f ih =>
    intro s bs r hr
    cases s with
    | prim p df lt => simpa [skipData] using hr
    | fixed n sz lt al => simpa [skipData] using hr
    | enum n syms d al => simpa [skipData] using hr
    | array items =>
      simp only [skipData, bind_ok_iff] at hr ⊢
      obtain ⟨⟨c, b1⟩, h1, h2⟩ := hr
      exact ⟨(c, b1), h1, skipBlocksWith_mono _ _ (fun bs r hh => ih items bs r hh) _ _ _ _ _ h2 _ (Nat.le_refl _)⟩
    | map values =>
      simp only [skipData, bind_ok_iff] at hr ⊢
      obtain ⟨⟨c, b1⟩, h1, h2⟩ := hr
      exact ⟨(c, b1), h1, skipBlocksWith_mono _ _ (fun bs r hh => ih values bs r hh) _ _ _ _ _ h2 _ (Nat.le_refl _)⟩
    | union branches =>
      simp only [skipData, bind_ok_iff] at hr ⊢
      obtain ⟨⟨i, b1⟩, h1, h2⟩ := hr
      refine ⟨(i, b1), h1, ?_⟩
      cases hb : indexChecked branches i with
      | none => simp [hb, throw_ne_ok] at h2
      | some b => simp only [hb] at h2 ⊢; exact ih b _ _ h2
    | record n fields al =>
      simp only [skipData] at hr ⊢
      exact skipFieldsWith_mono _ _ (fun s bs r hh => ih s bs r hh) _ _ _ hr
    | ref n =>
      simp only [skipData] at hr ⊢
      cases hg : env.get? n with
      | none => simp [hg, throw_ne_ok] at hr
      | some s' => simp only [hg, hle n s' hg] at hr ⊢; exact ih s' bs r hr

end EnvMono
