/-
  Proofs/CanonFixed.lean — C13, fixed-point clause at the level of JSON values: `Canon.toRaw s` is the JSON value the
  canonical text `Canon.canon s` denotes (the tie to `json.loads` of the implementation's text is checked on every case
  by the harness); the specification's transformation `Spec.pcf` applied to it gives the same text again, provided every
  name reads back, in the namespace context the canonical form gives it, as the same full name (`inScope`).
-/
import Proofs.Canon

namespace Canon

/-- the namespace a full name puts in effect -/
def nsOfFull (name : String) : String :=
  if name.contains '.' then ".".intercalate (name.splitOn ".").dropLast else ""

mutual
/-- every name of the schema reads back, in the namespace context the canonical form gives it, as the same full name:
    a name without a dot occurs only where no namespace is in effect (finding F18 is about the others), and no
    reference is spelled like a primitive -/
def inScope (ns : String) : Schema → Bool
  | .union bs => inScopeL ns bs
  | .prim _ _ _ => true
  | .ref n => (n.contains '.' || ns == "") && !Spec.PRIMS.contains n
  | .array items => inScope ns items
  | .map values => inScope ns values
  | .enum name _ _ _ => name.contains '.' || ns == ""
  | .fixed name _ _ _ => name.contains '.' || ns == ""
  | .record name fields _ => (name.contains '.' || ns == "") && inScopeF (nsOfFull name) fields
def inScopeL (ns : String) : List Schema → Bool
  | [] => true
  | s :: rest => inScope ns s && inScopeL ns rest
def inScopeF (ns : String) : List Field → Bool
  | [] => true
  | .mk _ t _ _ :: rest => inScope ns t && inScopeF ns rest
end

mutual
def depth : Schema → Nat
  | .union bs => depthL bs + 1
  | .array items => depth items + 1
  | .map values => depth values + 1
  | .record _ fields _ => depthF fields + 1
  | _ => 1
def depthL : List Schema → Nat
  | [] => 0
  | s :: rest => max (depth s) (depthL rest)
def depthF : List Field → Nat
  | [] => 0
  | .mk _ t _ _ :: rest => max (depth t) (depthF rest)
end

end Canon

namespace CanonProofs
open Canon

theorem prim_name_mem (p : Prim) : Spec.PRIMS.contains p.name = true := by cases p <;> decide

theorem fullNameOf_canon (name : String) (rest : List (Val × Val)) (ns : String) (h : (name.contains '.' || ns == "") = true)
    (hns : dictGetV rest "namespace" = none) :
    Spec.fullNameOf ((.str "name", .str name) :: rest) ns = some (nsOfFull name, name) := by
  unfold Spec.fullNameOf nsOfFull
  simp only [dictGetV, beq_self_eq_true, if_true]
  by_cases hd : name.contains '.' = true
  · simp [hd]
  · have hd' : name.contains '.' = false := by simpa using hd
    have hns' : ns = "" := by simpa [hd'] using h
    subst hns'
    have : ("name" == "namespace") = false := by decide
    simp [hd', hns, this]

theorem symText_map (syms : List String) : Spec.mapM? Spec.symText (syms.map Val.str) = some (syms.map Canon.q) := by
  induction syms with
  | nil => rfl
  | cons x xs ih => simp [Spec.mapM?, Spec.symText, ih, Spec.q, Canon.q]

/-- the statement for one schema, given fuel -/
def FPat (fuel : Nat) : Prop :=
  ∀ (s : Schema) (ns : String), inScope ns s = true → depth s ≤ fuel → Spec.pcf fuel (toRaw s) ns = some (Canon.canon s)

theorem fp_list (fuel : Nat) (IH : FPat fuel) (ns : String) : ∀ (bs : List Schema), inScopeL ns bs = true → depthL bs ≤ fuel →
    Spec.mapM? (fun b => Spec.pcf fuel b ns) (toRawList bs) = some (bs.map Canon.canon) := by
  intro bs
  induction bs with
  | nil => intro _ _; rfl
  | cons b rest ih =>
    intro hs hd
    simp only [inScopeL, Bool.and_eq_true] at hs
    simp only [depthL] at hd
    simp only [toRawList, Spec.mapM?, Option.bind_eq_bind, IH b ns hs.1 (by omega), ih hs.2 (by omega), Option.bind_some, List.map_cons]

theorem fp_fields (fuel : Nat) (IH : FPat fuel) (ns : String) : ∀ (fs : List Field), inScopeF ns fs = true → depthF fs ≤ fuel →
    Spec.mapM? (Spec.fieldTextWith fun ty => Spec.pcf fuel ty ns) (toRawFields fs) = some (fs.map fieldText) := by
  intro fs
  induction fs with
  | nil => intro _ _; rfl
  | cons f rest ih =>
    obtain ⟨n, t, d, a⟩ := f
    intro hs hd
    simp only [inScopeF, Bool.and_eq_true] at hs
    simp only [depthF] at hd
    have : ("name" == "type") = false := by decide
    simp only [toRawFields, Spec.mapM?, Option.bind_eq_bind, Spec.fieldTextWith, dictGetV, beq_self_eq_true, if_true, this,
      Bool.false_eq_true, if_false, IH t ns hs.1 (by omega), ih hs.2 (by omega), Option.bind_some, List.map_cons, fieldText, Field.name,
      Field.type, Spec.q, Canon.q]

theorem fp_all : ∀ fuel, FPat fuel := by
  intro fuel
  induction fuel with
  | zero =>
    intro s ns _ hd
    cases s <;> simp [depth] at hd
  | succ fuel IH =>
    intro s ns hs hd
    have e1 : ("type" == "items") = false := by decide
    have e2 : ("type" == "values") = false := by decide
    have e3 : ("name" == "type") = false := by decide
    have e4 : ("name" == "symbols") = false := by decide
    have e5 : ("type" == "symbols") = false := by decide
    have e6 : ("name" == "size") = false := by decide
    have e7 : ("type" == "size") = false := by decide
    have e8 : ("name" == "fields") = false := by decide
    have e9 : ("type" == "fields") = false := by decide
    cases s with
    | prim p df lt => simp only [toRaw, Spec.pcf, prim_name_mem p, if_true, canon_prim, Spec.q, Canon.q]
    | ref n =>
      simp only [inScope, Bool.and_eq_true, Bool.not_eq_true'] at hs
      simp only [toRaw, Spec.pcf, hs.2, Bool.false_eq_true, if_false, canon_ref, Spec.refName]
      by_cases hd' : n.contains '.' = true
      · simp [hd', Spec.q, Canon.q]
      · have hd'' : n.contains '.' = false := by simpa using hd'
        have : ns = "" := by simpa [hd''] using hs.1
        subst this
        simp [hd'', Spec.q, Canon.q]
    | union bs =>
      simp only [inScope] at hs
      simp only [depth] at hd
      simp only [toRaw, Spec.pcf, Option.bind_eq_bind, fp_list fuel IH ns bs hs (by omega), Option.bind_some, canon_union, canonList_eq]
    | array items =>
      simp only [inScope] at hs
      simp only [depth] at hd
      simp only [toRaw, Spec.pcf, dictGetV, beq_self_eq_true, if_true, prim_array, Bool.false_eq_true, if_false, e1,
        Option.bind_eq_bind, Option.bind_some, IH items ns hs (by omega), canon_array]
    | map values =>
      simp only [inScope] at hs
      simp only [depth] at hd
      have : ("map" == "array") = false := by decide
      simp only [toRaw, Spec.pcf, dictGetV, beq_self_eq_true, if_true, prim_map, Bool.false_eq_true, if_false, e2, this,
        Option.bind_eq_bind, Option.bind_some, IH values ns hs (by omega), canon_map]
    | enum name syms dflt al =>
      simp only [inScope] at hs
      have h1 : ("enum" == "array") = false := by decide
      have h2 : ("enum" == "map") = false := by decide
      have hfn := fullNameOf_canon name [(.str "type", .str "enum"), (.str "symbols", .list (syms.map .str))] ns hs
        (by simp [dictGetV])
      simp only [toRaw, Spec.pcf, dictGetV, e3, e4, e5, beq_self_eq_true, if_true, prim_enum, Bool.false_eq_true, if_false, h1, h2,
        Option.bind_eq_bind, hfn, Option.bind_some, symText_map, canon_enum, commaSep_eq, Spec.q, Canon.q]
    | fixed name size lt al =>
      simp only [inScope] at hs
      have h1 : ("fixed" == "array") = false := by decide
      have h2 : ("fixed" == "map") = false := by decide
      have h3 : ("fixed" == "enum") = false := by decide
      have hfn := fullNameOf_canon name [(.str "type", .str "fixed"), (.str "size", .int size)] ns hs
        (by simp [dictGetV])
      simp only [toRaw, Spec.pcf, dictGetV, e3, e6, e7, beq_self_eq_true, if_true, prim_fixed, Bool.false_eq_true, if_false, h1, h2, h3,
        Option.bind_eq_bind, hfn, Option.bind_some, canon_fixed, Spec.q, Canon.q]
      rw [intToString (size : Int) (by omega)]
      simp
    | record name fields al =>
      simp only [inScope, Bool.and_eq_true] at hs
      simp only [depth] at hd
      have h1 : ("record" == "array") = false := by decide
      have h2 : ("record" == "map") = false := by decide
      have h3 : ("record" == "enum") = false := by decide
      have h4 : ("record" == "fixed") = false := by decide
      have hfn := fullNameOf_canon name [(.str "type", .str "record"), (.str "fields", .list (toRawFields fields))] ns hs.1
        (by simp [dictGetV])
      simp only [toRaw, Spec.pcf, dictGetV, e3, e8, e9, beq_self_eq_true, if_true, prim_record, Bool.false_eq_true, if_false, h1, h2, h3, h4,
        Bool.true_or, Option.bind_eq_bind, hfn, Option.bind_some, dictListOr, fp_fields fuel IH (nsOfFull name) fields hs.2 (by omega),
        canon_record, canonFields_eq, Spec.q, Canon.q]

end CanonProofs
