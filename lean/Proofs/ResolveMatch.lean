import Model.Resolve
import Spec.Resolve
import Proofs.Resolve


/-!
  Proofs/ResolveMatch.lean — C08, the decision logic: `match_types` is the specification's "schemas match"
  (`mt_spec`), and the branch of a reader union chosen through `_reader_branches` + `match_types` is the one the
  specification's rule picks (`pick_spec`).
-/
namespace ResolveMatch
open Binary Resolve ResolveProofs

/-- what `parse_schema` guarantees about a named-schema table -/
structure EnvWF (env : Env) : Prop where
  noAvro : ∀ n, AVRO_TYPES.contains n = true → env.get? n = none
  named : ∀ n d, env.get? n = some d → d.isNamedDef = true ∧ d.defName? = some n

/-- the positions `match_types` looks at (through arrays and maps): names are defined; `reg` also
    asks that an inline definition is the table's entry of that name (reader side) -/
def MClosed (env : Env) (reg : Bool) : Schema → Prop
  | .ref n => ∃ d, env.get? n = some d
  | .array i => MClosed env reg i
  | .map v => MClosed env reg v
  | .record n f a => reg = true → env.get? n = some (.record n f a)
  | .enum n s d a => reg = true → env.get? n = some (.enum n s d a)
  | .fixed n s l a => reg = true → env.get? n = some (.fixed n s l a)
  | _ => True

/-- the decision of the NAMED_TYPES branch of `match_schemas` on two definitions -/
def namedDecision (w r : Schema) : Bool :=
  w.typeName == r.typeName &&
  (match w, r with | .fixed _ ws _ _, .fixed _ rs _ _ => ws == rs | _, _ => true) &&
  namesMatch (w.defName?.getD "") (r.defName?.getD "") (aliasesOfDef r)

theorem unqual_eq (n : String) : unqual n = Spec.unqualified n := rfl
theorem namesMatch_eq (a b : String) (al : List String) : namesMatch a b al = Spec.sameName a b al := rfl

/-- on two definitions the specification's match is that decision -/
theorem spec_named (ex : Bool) (wenv renv : Env) (w r : Schema) (hw : w.isNamedDef = true) (hr : r.isNamedDef = true) :
    Spec.matchesX ex wenv renv w r = namedDecision w r := by
  cases w <;> simp only [Schema.isNamedDef, Bool.false_eq_true] at hw <;>
  cases r <;> simp only [Schema.isNamedDef, Bool.false_eq_true] at hr <;>
  simp [Spec.matchesX, Spec.matchFlat, Spec.deref, namedDecision, Schema.typeName, Schema.defName?, aliasesOfDef, namesMatch_eq]

/-- `match_schemas` on two definitions -/
theorem ms_named (f : Nat) (wenv renv : Env) (w r : Schema) (hw : w.isNamedDef = true) (hr : r.isNamedDef = true) :
    matchSchemas (f+1) wenv renv w r = if namedDecision w r then .ok r else .error .resolution := by
  cases w <;> simp only [Schema.isNamedDef, Bool.false_eq_true] at hw <;>
  cases r <;> simp only [Schema.isNamedDef, Bool.false_eq_true] at hr <;>
  simp only [matchSchemas, Schema.isNamedDef, Bool.and_self, if_true, namedDecision, Schema.typeName, Schema.defName?,
    aliasesOfDef, Option.getD_some] <;>
  (first
    | (simp only [show ("record" != "record") = false from by decide, show ("enum" != "enum") = false from by decide,
        show ("fixed" != "fixed") = false from by decide, Bool.false_eq_true, if_false, Bool.not_true, BEq.rfl, Bool.true_and]
       split <;> simp_all <;> rfl)
    | (simp [show ("record" != "enum") = true from by decide, show ("record" != "fixed") = true from by decide,
        show ("enum" != "record") = true from by decide, show ("enum" != "fixed") = true from by decide,
        show ("fixed" != "record") = true from by decide, show ("fixed" != "enum") = true from by decide,
        show ("record" == "enum") = false from by decide, show ("record" == "fixed") = false from by decide,
        show ("enum" == "record") = false from by decide, show ("enum" == "fixed") = false from by decide,
        show ("fixed" == "record") = false from by decide, show ("fixed" == "enum") = false from by decide]; rfl))

theorem promotes_avro (a b : String) (h : promotes a b = true) : AVRO_TYPES.contains a = true ∧ AVRO_TYPES.contains b = true := by
  simp only [promotes, PROMOTIONS, List.contains_cons, List.contains_nil, Bool.or_false, Bool.or_eq_true, beq_iff_eq,
    Prod.mk.injEq] at h
  rcases h with ⟨rfl, rfl⟩ | ⟨rfl, rfl⟩ | ⟨rfl, rfl⟩ | ⟨rfl, rfl⟩ | ⟨rfl, rfl⟩ | ⟨rfl, rfl⟩ | ⟨rfl, rfl⟩ | ⟨rfl, rfl⟩ <;>
    exact ⟨by decide, by decide⟩

/-- when one of the two names is not a table entry, `match_types` on names is "equal or promotable" -/
theorem names_nolookup (ms : Schema → Schema → R Schema) (wenv renv : Env) (a b : String)
    (h : wenv.get? a = none ∨ renv.get? b = none) :
    matchNamesWith ms wenv renv a b = .ok (a == b || promotes a b) := by
  unfold matchNamesWith
  by_cases h1 : (a == b && AVRO_TYPES.contains a) = true
  · simp only [h1, if_true]
    simp only [Bool.and_eq_true] at h1
    simp [h1.1]; rfl
  · simp only [h1, Bool.false_eq_true, if_false]
    by_cases h2 : promotes a b = true
    · simp only [h2, if_true, Bool.or_true]; rfl
    · simp only [h2, Bool.false_eq_true, if_false, Bool.or_false]
      rcases h with h | h
      · simp only [h]; rfl
      · cases hw : wenv.get? a <;> simp only [h] <;> rfl

/-- a table entry's name is not the name of a built-in type -/
theorem key_not_avro {env : Env} (hwf : EnvWF env) {n : String} {d : Schema} (h : env.get? n = some d) :
    AVRO_TYPES.contains n = false := by
  cases hc : AVRO_TYPES.contains n with
  | false => rfl
  | true => rw [hwf.noAvro n hc] at h; simp at h

/-- two table entries: `match_types` on their names is `match_schemas` on the definitions -/
theorem names_lookup (ms : Schema → Schema → R Schema) (wenv renv : Env) (hwf : EnvWF wenv) (a b : String) (wd rd : Schema)
    (ha : wenv.get? a = some wd) (hb : renv.get? b = some rd) :
    matchNamesWith ms wenv renv a b =
      (match ms wd rd with | .ok _ => .ok true | .error .resolution => .ok false | .error e => .error e) := by
  unfold matchNamesWith
  have h1 : AVRO_TYPES.contains a = false := key_not_avro hwf ha
  have h2 : promotes a b = false := by
    cases hp : promotes a b with
    | false => rfl
    | true => rw [(promotes_avro a b hp).1] at h1; simp at h1
  simp only [h1, Bool.and_false, Bool.false_eq_true, if_false, h2, ha, hb]
  cases ms wd rd with
  | ok _ => rfl
  | error e => cases e <;> rfl

theorem prim_key_none {env : Env} (hwf : EnvWF env) (p : Prim) : env.get? p.name = none := hwf.noAvro _ (prim_in_avro p)

/-- the status of `match_schemas` as `match_types` reads it -/
def status (x : R Schema) : R Bool :=
  match x with | .ok _ => .ok true | .error .resolution => .ok false | .error e => .error e

theorem matchTypesWith_dict (ms) (wenv renv : Env) (w r : Schema) (hl : (isList w || isList r) = false)
    (hd : (isDict w || isDict r) = true) : matchTypesWith ms wenv renv w r = status (ms w r) := by
  unfold matchTypesWith status
  simp only [hl, Bool.false_eq_true, if_false, hd, if_true]
  cases ms w r with
  | ok _ => rfl
  | error e => cases e <;> rfl

theorem matchTypesWith_str (ms) (wenv renv : Env) (w r : Schema) (hl : (isList w || isList r) = false)
    (hd : (isDict w || isDict r) = false) :
    matchTypesWith ms wenv renv w r = matchNamesWith ms wenv renv w.typeName r.typeName := by
  unfold matchTypesWith
  simp only [hl, Bool.false_eq_true, if_false, hd]

/-- the last alternative of `match_schemas` (neither side a union, not two maps, not two arrays) -/
def msFall (ms : Schema → Schema → R Schema) (wenv renv : Env) (w r : Schema) : R Schema :=
  let wt := w.typeName
  let rt := r.typeName
  if w.isNamedDef && r.isNamedDef then
    if wt != rt then throw .resolution
    else
      let sizeOk := match w, r with
        | .fixed _ ws _ _, .fixed _ rs _ _ => ws == rs
        | _, _ => true
      if !sizeOk then throw .resolution
      else if namesMatch (w.defName?.getD "") (r.defName?.getD "") (aliasesOfDef r) then pure r
      else throw .resolution
  else if !AVRO_TYPES.contains wt && r.isNamedDef then do
    let rn := r.defName?.getD ""
    if ← matchNamesWith ms wenv renv wt rn then pure (.ref rn) else throw .resolution
  else if w.isNamedDef && !AVRO_TYPES.contains rt then
    match renv.get? rt with
    | some rd => ms w rd
    | none => throw .resolution
  else do
    if ← matchNamesWith ms wenv renv wt rt then pure r else throw .resolution

def fallPair : Schema → Schema → Bool
  | .union _, _ => false
  | _, .union _ => false
  | .map _, .map _ => false
  | .array _, .array _ => false
  | _, _ => true

theorem ms_fall (g : Nat) (wenv renv : Env) (w r : Schema) (h : fallPair w r = true) :
    matchSchemas (g+1) wenv renv w r = msFall (matchSchemas g wenv renv) wenv renv w r := by
  cases w <;> cases r <;> simp only [fallPair, Bool.false_eq_true] at h <;> rfl

theorem ok_bind' {α β} (a : α) (f : α → R β) : ((Except.ok a : R α) >>= f) = f a := rfl

theorem msFall_names (ms) (wenv renv : Env) (w r : Schema)
    (h1 : (w.isNamedDef && r.isNamedDef) = false) (h2 : (!AVRO_TYPES.contains w.typeName && r.isNamedDef) = false)
    (h3 : (w.isNamedDef && !AVRO_TYPES.contains r.typeName) = false)
    (hl : wenv.get? w.typeName = none ∨ renv.get? r.typeName = none) :
    msFall ms wenv renv w r =
      if (w.typeName == r.typeName || promotes w.typeName r.typeName) = true then .ok r else .error .resolution := by
  unfold msFall
  simp only [h1, h2, h3, Bool.false_eq_true, if_false, names_nolookup ms wenv renv _ _ hl, ok_bind']
  split <;> rfl

/-- type names of the built-in kinds -/
theorem prim_ne (p : Prim) : (p.name == "array") = false ∧ (p.name == "map") = false ∧ (p.name == "record") = false ∧
    (p.name == "enum") = false ∧ (p.name == "fixed") = false ∧ ("array" == p.name) = false ∧ ("map" == p.name) = false ∧
    ("record" == p.name) = false ∧ ("enum" == p.name) = false ∧ ("fixed" == p.name) = false := by
  cases p <;> decide

theorem promotes_prims (a b : String) (h : promotes a b = true) : ∃ p q : Prim, a = p.name ∧ b = q.name := by
  simp only [promotes, PROMOTIONS, List.contains_cons, List.contains_nil, Bool.or_false, Bool.or_eq_true, beq_iff_eq,
    Prod.mk.injEq] at h
  rcases h with ⟨rfl, rfl⟩ | ⟨rfl, rfl⟩ | ⟨rfl, rfl⟩ | ⟨rfl, rfl⟩ | ⟨rfl, rfl⟩ | ⟨rfl, rfl⟩ | ⟨rfl, rfl⟩ | ⟨rfl, rfl⟩
  · exact ⟨.bytes, .string, rfl, rfl⟩
  · exact ⟨.float, .double, rfl, rfl⟩
  · exact ⟨.int, .double, rfl, rfl⟩
  · exact ⟨.int, .float, rfl, rfl⟩
  · exact ⟨.int, .long, rfl, rfl⟩
  · exact ⟨.long, .double, rfl, rfl⟩
  · exact ⟨.long, .float, rfl, rfl⟩
  · exact ⟨.string, .bytes, rfl, rfl⟩

/-- a name that is not a primitive's is on neither side of a promotion -/
theorem promotes_false_left (a b : String) (h : ∀ p : Prim, a ≠ p.name) : promotes a b = false := by
  cases hp : promotes a b with
  | false => rfl
  | true => obtain ⟨p, q, rfl, _⟩ := promotes_prims a b hp; exact absurd rfl (h p)

theorem promotes_false_right (a b : String) (h : ∀ p : Prim, b ≠ p.name) : promotes a b = false := by
  cases hp : promotes a b with
  | false => rfl
  | true => obtain ⟨p, q, _, rfl⟩ := promotes_prims a b hp; exact absurd rfl (h q)

theorem avro_names : AVRO_TYPES.contains "array" = true ∧ AVRO_TYPES.contains "map" = true ∧ AVRO_TYPES.contains "record" = true ∧
    AVRO_TYPES.contains "enum" = true ∧ AVRO_TYPES.contains "fixed" = true ∧ AVRO_TYPES.contains "union" = true := by decide

theorem not_prim_name (s : String) (h : AVRO_TYPES.contains s = false) : ∀ p : Prim, s ≠ p.name := by
  intro p hp; subst hp; rw [prim_in_avro] at h; simp at h

theorem complex_not_prim : (∀ p : Prim, "array" ≠ p.name) ∧ (∀ p : Prim, "map" ≠ p.name) ∧ (∀ p : Prim, "record" ≠ p.name) ∧
    (∀ p : Prim, "enum" ≠ p.name) ∧ (∀ p : Prim, "fixed" ≠ p.name) := by
  refine ⟨?_, ?_, ?_, ?_, ?_⟩ <;> intro p <;> cases p <;> decide

/-- the value of `status` on an if-then-else of the shape `match_schemas` returns -/
theorem status_ite (c : Bool) (r : Schema) : status (if c = true then .ok r else .error .resolution) = .ok c := by
  cases c <;> rfl

section cases
variable (wenv renv : Env) (hwf : EnvWF wenv) (hrf : EnvWF renv)
include hwf hrf

/-- spec side: a name stands for its definition -/
theorem spec_ref_r (ex : Bool) (w : Schema) (m : String) (rd : Schema) (hm : renv.get? m = some rd) :
    Spec.matchesX ex wenv renv w (.ref m) = Spec.matchesX ex wenv renv w rd := by
  have hn := (hrf.named m rd hm).1
  cases rd <;> simp only [Schema.isNamedDef, Bool.false_eq_true] at hn <;>
    cases w <;> simp only [Spec.matchesX, Spec.deref, hm]

theorem spec_ref_w (ex : Bool) (n : String) (wd r : Schema) (hn : wenv.get? n = some wd) :
    Spec.matchesX ex wenv renv (.ref n) r = Spec.matchesX ex wenv renv wd r := by
  have hd := (hwf.named n wd hn).1
  cases wd <;> simp only [Schema.isNamedDef, Bool.false_eq_true] at hd <;>
    simp only [Spec.matchesX, Spec.deref, hn]

theorem L_prim (g : Nat) (p : Prim) (d : Bool) (lt : Option LogT) (r : Schema) (b : Bool)
    (hr : MClosed renv true r) (hu : isList r = false)
    (h : status (matchSchemas (g+1) wenv renv (.prim p d lt) r) = .ok b) :
    b = Spec.matchesS wenv renv (.prim p d lt) r := by
  have hfall : fallPair (.prim p d lt) r = true := by cases r <;> simp_all [fallPair, isList]
  rw [ms_fall g wenv renv _ r hfall] at h
  have hnone : wenv.get? (Schema.prim p d lt).typeName = none := prim_key_none hwf p
  rw [msFall_names _ wenv renv _ r (by simp [Schema.isNamedDef]) (by simp only [Schema.typeName, prim_in_avro, Bool.not_true, Bool.false_and])
    (by simp [Schema.isNamedDef]) (.inl hnone), status_ite] at h
  simp only [Except.ok.injEq] at h
  subst h
  cases r with
  | prim q d' lt' => simp [Schema.typeName, prim_name_inj, promotes_eq, Spec.matchesS, Spec.matchesX, Spec.matchFlat, Spec.deref]
  | union bs => simp [isList] at hu
  | ref m =>
    obtain ⟨rd, hm⟩ := hr
    have hna := key_not_avro hrf hm
    simp only [Schema.typeName]
    rw [Spec.matchesS, spec_ref_r wenv renv hwf hrf false _ m rd hm]
    have hn := (hrf.named m rd hm).1
    have e1 : (p.name == m) = false := by
      cases hc : (p.name == m) with
      | false => rfl
      | true => simp only [beq_iff_eq] at hc; subst hc; rw [prim_in_avro] at hna; simp at hna
    rw [e1, promotes_false_right _ _ (not_prim_name m hna)]
    cases rd <;> simp only [Schema.isNamedDef, Bool.false_eq_true] at hn <;> simp [Spec.matchesX, Spec.matchFlat, Spec.deref]
  | array i => simp [Schema.typeName, (prim_ne p).1, promotes_false_right _ _ complex_not_prim.1, Spec.matchesS, Spec.matchesX, Spec.matchFlat, Spec.deref]
  | map v => simp [Schema.typeName, (prim_ne p).2.1, promotes_false_right _ _ complex_not_prim.2.1, Spec.matchesS, Spec.matchesX, Spec.matchFlat, Spec.deref]
  | record n fs al => simp [Schema.typeName, (prim_ne p).2.2.1, promotes_false_right _ _ complex_not_prim.2.2.1, Spec.matchesS, Spec.matchesX, Spec.matchFlat, Spec.deref]
  | enum n sy df al => simp [Schema.typeName, (prim_ne p).2.2.2.1, promotes_false_right _ _ complex_not_prim.2.2.2.1, Spec.matchesS, Spec.matchesX, Spec.matchFlat, Spec.deref]
  | fixed n sz l al => simp [Schema.typeName, (prim_ne p).2.2.2.2.1, promotes_false_right _ _ complex_not_prim.2.2.2.2, Spec.matchesS, Spec.matchesX, Spec.matchFlat, Spec.deref]

theorem names_ne_resolution (ms) (a b : String) : matchNamesWith ms wenv renv a b ≠ .error .resolution := by
  unfold matchNamesWith
  split
  · simp [pure, Except.pure]
  · split
    · simp [pure, Except.pure]
    · split
      · rename_i wd rd _ _
        cases ms wd rd with
        | ok _ => simp [pure, Except.pure]
        | error e => cases e <;> simp [pure, Except.pure, throw, throwThe, MonadExceptOf.throw]
      · simp [pure, Except.pure]

theorem mt_ne_resolution (ms) (w r : Schema) : matchTypesWith ms wenv renv w r ≠ .error .resolution := by
  unfold matchTypesWith
  split
  · simp [pure, Except.pure]
  · split
    · cases ms w r with
      | ok _ => simp [pure, Except.pure]
      | error e => cases e <;> simp [pure, Except.pure, throw, throwThe, MonadExceptOf.throw]
    · exact names_ne_resolution wenv renv hwf hrf ms _ _

/-- generic: a writer-side complex kind (`array`, `map`, or a definition) against a reader schema of another kind
    never matches; `tn` is the writer's type name -/
theorem L_mismatch (g : Nat) (w r : Schema) (b : Bool) (hfall : fallPair w r = true)
    (hwn : (w.isNamedDef && r.isNamedDef) = false)
    (hwt : AVRO_TYPES.contains w.typeName = true) (hwp : ∀ p : Prim, w.typeName ≠ p.name)
    (h3 : (w.isNamedDef && !AVRO_TYPES.contains r.typeName) = false)
    (hne : (w.typeName == r.typeName) = false)
    (h : status (matchSchemas (g+1) wenv renv w r) = .ok b) : b = false := by
  rw [ms_fall g wenv renv _ r hfall] at h
  rw [msFall_names _ wenv renv _ r hwn (by simp only [hwt, Bool.not_true, Bool.false_and]) h3
    (.inl (hwf.noAvro _ hwt)), status_ite] at h
  simp only [Except.ok.injEq] at h
  rw [← h, hne, promotes_false_left _ _ hwp]; rfl

theorem L_arr (g : Nat) (wi r : Schema) (b : Bool)
    (ih : ∀ ri b, r = .array ri → matchTypes g wenv renv wi ri = .ok b → b = Spec.matchesS wenv renv wi ri)
    (hr : MClosed renv true r) (hu : isList r = false)
    (h : status (matchSchemas (g+1) wenv renv (.array wi) r) = .ok b) :
    b = Spec.matchesS wenv renv (.array wi) r := by
  cases r with
  | union bs => simp [isList] at hu
  | array ri =>
    simp only [matchSchemas] at h
    change status (do if ← matchTypes g wenv renv wi ri then pure (.array ri) else throw .resolution) = .ok b at h
    cases hm : matchTypes g wenv renv wi ri with
    | error e =>
      have hne := mt_ne_resolution wenv renv hwf hrf (matchSchemas g wenv renv) wi ri
      simp only [hm] at h
      cases e <;> first | (exact absurd hm hne) | (simp [status, bind, Except.bind] at h)
    | ok b' =>
      have := ih ri b' rfl hm
      simp only [hm] at h
      cases b' <;> simp [status, bind, Except.bind, pure, Except.pure, throw, throwThe, MonadExceptOf.throw] at h <;>
        (subst h; simp only [Spec.matchesS, Spec.matchesX, Spec.matchFlat, Spec.deref]; exact this)
  | prim q d' lt' =>
    have := L_mismatch wenv renv hwf hrf g (.array wi) (.prim q d' lt') b rfl rfl avro_names.1 complex_not_prim.1
      (by simp [Schema.isNamedDef]) (by simp [Schema.typeName, (prim_ne q).2.2.2.2.2.1]) h
    subst this; simp [Spec.matchesS, Spec.matchesX, Spec.matchFlat, Spec.deref]
  | map v =>
    have := L_mismatch wenv renv hwf hrf g (.array wi) (.map v) b rfl rfl avro_names.1 complex_not_prim.1
      (by simp [Schema.isNamedDef]) (show ("array" == "map") = false from by decide) h
    subst this; simp [Spec.matchesS, Spec.matchesX, Spec.matchFlat, Spec.deref]
  | record n fs al =>
    have := L_mismatch wenv renv hwf hrf g (.array wi) (.record n fs al) b rfl rfl avro_names.1 complex_not_prim.1
      (by simp [Schema.isNamedDef]) (show ("array" == "record") = false from by decide) h
    subst this; simp [Spec.matchesS, Spec.matchesX, Spec.matchFlat, Spec.deref]
  | enum n sy df al =>
    have := L_mismatch wenv renv hwf hrf g (.array wi) (.enum n sy df al) b rfl rfl avro_names.1 complex_not_prim.1
      (by simp [Schema.isNamedDef]) (show ("array" == "enum") = false from by decide) h
    subst this; simp [Spec.matchesS, Spec.matchesX, Spec.matchFlat, Spec.deref]
  | fixed n sz l al =>
    have := L_mismatch wenv renv hwf hrf g (.array wi) (.fixed n sz l al) b rfl rfl avro_names.1 complex_not_prim.1
      (by simp [Schema.isNamedDef]) (show ("array" == "fixed") = false from by decide) h
    subst this; simp [Spec.matchesS, Spec.matchesX, Spec.matchFlat, Spec.deref]
  | ref m =>
    obtain ⟨rd, hm⟩ := hr
    have hna := key_not_avro hrf hm
    have := L_mismatch wenv renv hwf hrf g (.array wi) (.ref m) b rfl rfl avro_names.1 complex_not_prim.1
      (by simp [Schema.isNamedDef])
      (by cases hc : ("array" == m) with
          | false => simpa [Schema.typeName] using hc
          | true => simp only [beq_iff_eq] at hc; subst hc; rw [avro_names.1] at hna; exact absurd hna (by decide)) h
    subst this
    rw [Spec.matchesS, spec_ref_r wenv renv hwf hrf false _ m rd hm]
    have hn := (hrf.named m rd hm).1
    cases rd <;> simp only [Schema.isNamedDef, Bool.false_eq_true] at hn <;> simp [Spec.matchesX, Spec.matchFlat, Spec.deref]

theorem L_map (g : Nat) (wv r : Schema) (b : Bool)
    (ih : ∀ ri b, r = .map ri → matchTypes g wenv renv wv ri = .ok b → b = Spec.matchesS wenv renv wv ri)
    (hr : MClosed renv true r) (hu : isList r = false)
    (h : status (matchSchemas (g+1) wenv renv (.map wv) r) = .ok b) :
    b = Spec.matchesS wenv renv (.map wv) r := by
  cases r with
  | union bs => simp [isList] at hu
  | map ri =>
    simp only [matchSchemas] at h
    change status (do if ← matchTypes g wenv renv wv ri then pure (.map ri) else throw .resolution) = .ok b at h
    cases hm : matchTypes g wenv renv wv ri with
    | error e =>
      have hne := mt_ne_resolution wenv renv hwf hrf (matchSchemas g wenv renv) wv ri
      simp only [hm] at h
      cases e <;> first | (exact absurd hm hne) | (simp [status, bind, Except.bind] at h)
    | ok b' =>
      have := ih ri b' rfl hm
      simp only [hm] at h
      cases b' <;> simp [status, bind, Except.bind, pure, Except.pure, throw, throwThe, MonadExceptOf.throw] at h <;>
        (subst h; simp only [Spec.matchesS, Spec.matchesX, Spec.matchFlat, Spec.deref]; exact this)
  | prim q d' lt' =>
    have := L_mismatch wenv renv hwf hrf g (.map wv) (.prim q d' lt') b rfl rfl avro_names.2.1 complex_not_prim.2.1
      (by simp [Schema.isNamedDef]) (by simp [Schema.typeName, (prim_ne q).2.2.2.2.2.2.1]) h
    subst this; simp [Spec.matchesS, Spec.matchesX, Spec.matchFlat, Spec.deref]
  | array v =>
    have := L_mismatch wenv renv hwf hrf g (.map wv) (.array v) b rfl rfl avro_names.2.1 complex_not_prim.2.1
      (by simp [Schema.isNamedDef]) (show ("map" == "array") = false from by decide) h
    subst this; simp [Spec.matchesS, Spec.matchesX, Spec.matchFlat, Spec.deref]
  | record n fs al =>
    have := L_mismatch wenv renv hwf hrf g (.map wv) (.record n fs al) b rfl rfl avro_names.2.1 complex_not_prim.2.1
      (by simp [Schema.isNamedDef]) (show ("map" == "record") = false from by decide) h
    subst this; simp [Spec.matchesS, Spec.matchesX, Spec.matchFlat, Spec.deref]
  | enum n sy df al =>
    have := L_mismatch wenv renv hwf hrf g (.map wv) (.enum n sy df al) b rfl rfl avro_names.2.1 complex_not_prim.2.1
      (by simp [Schema.isNamedDef]) (show ("map" == "enum") = false from by decide) h
    subst this; simp [Spec.matchesS, Spec.matchesX, Spec.matchFlat, Spec.deref]
  | fixed n sz l al =>
    have := L_mismatch wenv renv hwf hrf g (.map wv) (.fixed n sz l al) b rfl rfl avro_names.2.1 complex_not_prim.2.1
      (by simp [Schema.isNamedDef]) (show ("map" == "fixed") = false from by decide) h
    subst this; simp [Spec.matchesS, Spec.matchesX, Spec.matchFlat, Spec.deref]
  | ref m =>
    obtain ⟨rd, hm⟩ := hr
    have hna := key_not_avro hrf hm
    have := L_mismatch wenv renv hwf hrf g (.map wv) (.ref m) b rfl rfl avro_names.2.1 complex_not_prim.2.1
      (by simp [Schema.isNamedDef])
      (by cases hc : ("map" == m) with
          | false => simpa [Schema.typeName] using hc
          | true => simp only [beq_iff_eq] at hc; subst hc; rw [avro_names.2.1] at hna; exact absurd hna (by decide)) h
    subst this
    rw [Spec.matchesS, spec_ref_r wenv renv hwf hrf false _ m rd hm]
    have hn := (hrf.named m rd hm).1
    cases rd <;> simp only [Schema.isNamedDef, Bool.false_eq_true] at hn <;> simp [Spec.matchesX, Spec.matchFlat, Spec.deref]

theorem named_typeName (w : Schema) (h : w.isNamedDef = true) :
    w.typeName = "record" ∨ w.typeName = "enum" ∨ w.typeName = "fixed" := by
  cases w <;> simp [Schema.isNamedDef] at h <;> simp [Schema.typeName]

theorem named_facts (w : Schema) (h : w.isNamedDef = true) :
    AVRO_TYPES.contains w.typeName = true ∧ (∀ p : Prim, w.typeName ≠ p.name) ∧
    (w.typeName == "array") = false ∧ (w.typeName == "map") = false ∧ (∀ q : Prim, (w.typeName == q.name) = false) := by
  rcases named_typeName wenv renv hwf hrf w h with e | e | e <;> rw [e]
  · exact ⟨avro_names.2.2.1, complex_not_prim.2.2.1, by decide, by decide, fun q => (prim_ne q).2.2.2.2.2.2.2.1⟩
  · exact ⟨avro_names.2.2.2.1, complex_not_prim.2.2.2.1, by decide, by decide, fun q => (prim_ne q).2.2.2.2.2.2.2.2.1⟩
  · exact ⟨avro_names.2.2.2.2.1, complex_not_prim.2.2.2.2, by decide, by decide, fun q => (prim_ne q).2.2.2.2.2.2.2.2.2⟩

theorem L_named (g : Nat) (w r : Schema) (b : Bool) (hwn : w.isNamedDef = true)
    (hr : MClosed renv true r) (hu : isList r = false)
    (h : status (matchSchemas (g+1) wenv renv w r) = .ok b) :
    b = Spec.matchesS wenv renv w r := by
  obtain ⟨hav, hnp, hna, hnm, hnq⟩ := named_facts wenv renv hwf hrf w hwn
  have hfallw : ∀ r', isList r' = false → fallPair w r' = true := by
    intro r' hr'
    cases w <;> simp [Schema.isNamedDef] at hwn <;> cases r' <;> simp_all [fallPair, isList]
  by_cases hrn : r.isNamedDef = true
  · rw [ms_named g wenv renv w r hwn hrn, status_ite] at h
    simp only [Except.ok.injEq] at h
    rw [← h, Spec.matchesS, spec_named false wenv renv w r hwn hrn]
  · have hrn' : r.isNamedDef = false := by simpa using hrn
    cases r with
    | union bs => simp [isList] at hu
    | record n fs al => simp [Schema.isNamedDef] at hrn'
    | enum n sy df al => simp [Schema.isNamedDef] at hrn'
    | fixed n sz l al => simp [Schema.isNamedDef] at hrn'
    | prim q d' lt' =>
      have := L_mismatch wenv renv hwf hrf g w (.prim q d' lt') b (hfallw _ rfl) (by simp [Schema.isNamedDef]) hav hnp
        (by simp only [Schema.typeName, prim_in_avro, Bool.not_true, Bool.and_false]) (by simpa [Schema.typeName] using hnq q) h
      subst this
      cases w <;> simp [Schema.isNamedDef] at hwn <;> simp [Spec.matchesS, Spec.matchesX, Spec.matchFlat, Spec.deref]
    | array i =>
      have := L_mismatch wenv renv hwf hrf g w (.array i) b (hfallw _ rfl) (by simp [Schema.isNamedDef]) hav hnp
        (by simp only [Schema.typeName, avro_names.1, Bool.not_true, Bool.and_false]) (by simpa [Schema.typeName] using hna) h
      subst this
      cases w <;> simp [Schema.isNamedDef] at hwn <;> simp [Spec.matchesS, Spec.matchesX, Spec.matchFlat, Spec.deref]
    | map v =>
      have := L_mismatch wenv renv hwf hrf g w (.map v) b (hfallw _ rfl) (by simp [Schema.isNamedDef]) hav hnp
        (by simp only [Schema.typeName, avro_names.2.1, Bool.not_true, Bool.and_false]) (by simpa [Schema.typeName] using hnm) h
      subst this
      cases w <;> simp [Schema.isNamedDef] at hwn <;> simp [Spec.matchesS, Spec.matchesX, Spec.matchFlat, Spec.deref]
    | ref m =>
      obtain ⟨rd, hm⟩ := hr
      have hma := key_not_avro hrf hm
      have hrdn := (hrf.named m rd hm).1
      rw [ms_fall g wenv renv w (.ref m) (hfallw _ rfl)] at h
      have hbody : msFall (matchSchemas g wenv renv) wenv renv w (.ref m) = matchSchemas g wenv renv w rd := by
        have e1 : (Schema.ref m).isNamedDef = false := rfl
        have e2 : (Schema.ref m).typeName = m := rfl
        unfold msFall
        simp only [e1, e2, Bool.and_false, Bool.false_eq_true, if_false, hav, Bool.not_true, Bool.false_and,
          hwn, hma, Bool.not_false, Bool.and_self, if_true, hm]
      rw [hbody] at h
      cases g with
      | zero => simp [matchSchemas, status] at h
      | succ g' =>
        rw [ms_named g' wenv renv w rd hwn hrdn, status_ite] at h
        simp only [Except.ok.injEq] at h
        rw [← h, Spec.matchesS, spec_ref_r wenv renv hwf hrf false w m rd hm, spec_named false wenv renv w rd hwn hrdn]

theorem named_registered (r : Schema) (hrn : r.isNamedDef = true) (hr : MClosed renv true r) :
    renv.get? (r.defName?.getD "") = some r := by
  cases r <;> simp [Schema.isNamedDef] at hrn <;> exact hr rfl

theorem L_ref (g : Nat) (n : String) (wd r : Schema) (b : Bool) (hn : wenv.get? n = some wd)
    (hr : MClosed renv true r) (hu : isList r = false) (hdict : isDict r = true)
    (h : status (matchSchemas (g+1) wenv renv (.ref n) r) = .ok b) :
    b = Spec.matchesS wenv renv (.ref n) r := by
  have hna := key_not_avro hwf hn
  have hwdn := (hwf.named n wd hn).1
  have hfall : fallPair (.ref n) r = true := by cases r <;> simp_all [fallPair, isList]
  have e1 : (Schema.ref n).isNamedDef = false := rfl
  have e2 : (Schema.ref n).typeName = n := rfl
  rw [ms_fall g wenv renv _ r hfall] at h
  rw [Spec.matchesS, spec_ref_w wenv renv hwf hrf false n wd r hn]
  by_cases hrn : r.isNamedDef = true
  · have hreg := named_registered wenv renv hwf hrf r hrn hr
    have hbody : msFall (matchSchemas g wenv renv) wenv renv (.ref n) r =
        (do if ← (match matchSchemas g wenv renv wd r with
                   | .ok _ => (.ok true : R Bool) | .error .resolution => .ok false | .error e => .error e)
            then pure (.ref (r.defName?.getD "")) else throw .resolution) := by
      unfold msFall
      simp only [e1, e2, Bool.false_and, Bool.false_eq_true, if_false, hna, Bool.not_false, hrn, Bool.and_self, if_true,
        names_lookup _ wenv renv hwf n _ wd r hn hreg]
    rw [hbody] at h
    cases g with
    | zero => simp [matchSchemas, status, bind, Except.bind] at h
    | succ g' =>
      rw [ms_named g' wenv renv wd r hwdn hrn] at h
      rw [spec_named false wenv renv wd r hwdn hrn]
      cases hd : namedDecision wd r <;>
        simp [hd, status, bind, Except.bind, pure, Except.pure, throw, throwThe, MonadExceptOf.throw] at h <;> exact h
  · have hrn' : r.isNamedDef = false := by simpa using hrn
    have hrt : AVRO_TYPES.contains r.typeName = true := by
      cases r with
      | prim q d' lt' => exact prim_in_avro q
      | array i => exact avro_names.1
      | map v => exact avro_names.2.1
      | union bs => simp [isList] at hu
      | ref m => simp [isDict] at hdict
      | record _ _ _ => simp [Schema.isNamedDef] at hrn'
      | enum _ _ _ _ => simp [Schema.isNamedDef] at hrn'
      | fixed _ _ _ _ => simp [Schema.isNamedDef] at hrn'
    rw [msFall_names _ wenv renv _ r (by simp [e1]) (by simp [hrn']) (by simp [e1]) (.inr (hrf.noAvro _ hrt)), status_ite] at h
    simp only [Except.ok.injEq, e2] at h
    have hne : (n == r.typeName) = false := by
      cases hc : (n == r.typeName) with
      | false => rfl
      | true => simp only [beq_iff_eq] at hc; rw [hc, hrt] at hna; exact absurd hna (by decide)
    rw [hne, promotes_false_left _ _ (not_prim_name n hna)] at h
    subst h
    cases wd <;> simp [Schema.isNamedDef] at hwdn <;>
      cases r <;>
        first
          | (simp [isDict] at hdict; done)
          | (simp [isList] at hu; done)
          | (simp [Schema.isNamedDef] at hrn'; done)
          | simp [Spec.matchesX, Spec.matchFlat, Spec.deref]

theorem L_str (f : Nat) (w r : Schema) (b : Bool) (hw : MClosed wenv false w) (hr : MClosed renv true r)
    (hl : (isList w || isList r) = false) (hd : (isDict w || isDict r) = false)
    (h : matchNamesWith (matchSchemas f wenv renv) wenv renv w.typeName r.typeName = .ok b) :
    b = Spec.matchesS wenv renv w r := by
  simp only [Bool.or_eq_false_iff] at hl hd
  cases w with
  | union _ => simp [isList] at hl
  | record _ _ _ => simp [isDict] at hd
  | enum _ _ _ _ => simp [isDict] at hd
  | fixed _ _ _ _ => simp [isDict] at hd
  | array _ => simp [isDict] at hd
  | map _ => simp [isDict] at hd
  | prim p d lt =>
    simp only [Schema.typeName] at h
    rw [names_nolookup _ wenv renv _ _ (.inl (prim_key_none hwf p))] at h
    simp only [Except.ok.injEq] at h
    subst h
    cases r with
    | union _ => simp [isList] at hl
    | record _ _ _ => simp [isDict] at hd
    | enum _ _ _ _ => simp [isDict] at hd
    | fixed _ _ _ _ => simp [isDict] at hd
    | array _ => simp [isDict] at hd
    | map _ => simp [isDict] at hd
    | prim q d' lt' => simp [Schema.typeName, prim_name_inj, promotes_eq, Spec.matchesS, Spec.matchesX, Spec.matchFlat, Spec.deref]
    | ref m =>
      obtain ⟨rd, hm⟩ := hr
      have hna := key_not_avro hrf hm
      have hn := (hrf.named m rd hm).1
      have e1 : (p.name == m) = false := by
        cases hc : (p.name == m) with
        | false => rfl
        | true => simp only [beq_iff_eq] at hc; subst hc; rw [prim_in_avro] at hna; simp at hna
      simp only [Schema.typeName, e1, promotes_false_right _ _ (not_prim_name m hna), Bool.or_false]
      rw [Spec.matchesS, spec_ref_r wenv renv hwf hrf false _ m rd hm]
      cases rd <;> simp only [Schema.isNamedDef, Bool.false_eq_true] at hn <;> simp [Spec.matchesX, Spec.matchFlat, Spec.deref]
  | ref n =>
    obtain ⟨wd, hn⟩ := hw
    have hna := key_not_avro hwf hn
    have hwdn := (hwf.named n wd hn).1
    rw [Spec.matchesS, spec_ref_w wenv renv hwf hrf false n wd r hn]
    cases r with
    | union _ => simp [isList] at hl
    | record _ _ _ => simp [isDict] at hd
    | enum _ _ _ _ => simp [isDict] at hd
    | fixed _ _ _ _ => simp [isDict] at hd
    | array _ => simp [isDict] at hd
    | map _ => simp [isDict] at hd
    | prim q d' lt' =>
      simp only [Schema.typeName] at h
      rw [names_nolookup _ wenv renv _ _ (.inr (prim_key_none hrf q))] at h
      simp only [Except.ok.injEq] at h
      subst h
      have e1 : (n == q.name) = false := by
        cases hc : (n == q.name) with
        | false => rfl
        | true => simp only [beq_iff_eq] at hc; subst hc; rw [prim_in_avro] at hna; simp at hna
      simp only [Schema.typeName, e1, promotes_false_left _ _ (not_prim_name n hna), Bool.or_false]
      cases wd <;> simp only [Schema.isNamedDef, Bool.false_eq_true] at hwdn <;> simp [Spec.matchesX, Spec.matchFlat, Spec.deref]
    | ref m =>
      obtain ⟨rd, hm⟩ := hr
      have hrdn := (hrf.named m rd hm).1
      rw [spec_ref_r wenv renv hwf hrf false _ m rd hm]
      simp only [Schema.typeName] at h
      rw [names_lookup _ wenv renv hwf n m wd rd hn hm] at h
      cases f with
      | zero => simp [matchSchemas] at h
      | succ g =>
        rw [ms_named g wenv renv wd rd hwdn hrdn] at h
        rw [spec_named false wenv renv wd rd hwdn hrdn]
        cases hdd : namedDecision wd rd <;> simp [hdd] at h <;> exact h

theorem deref_some_w (w : Schema) (hw : MClosed wenv false w) : ∃ wd, Spec.deref wenv w = some wd := by
  cases w <;> first | exact ⟨_, rfl⟩ | (obtain ⟨d, hd⟩ := hw; exact ⟨d, by simp [Spec.deref, hd]⟩)

theorem deref_some_r (r : Schema) (hr : MClosed renv true r) : ∃ rd, Spec.deref renv r = some rd := by
  cases r <;> first | exact ⟨_, rfl⟩ | (obtain ⟨d, hd⟩ := hr; exact ⟨d, by simp [Spec.deref, hd]⟩)

theorem spec_union_w (ex : Bool) (bs : List Schema) (r : Schema) (hr : MClosed renv true r) :
    Spec.matchesX ex wenv renv (.union bs) r = true := by
  obtain ⟨rd, hrd⟩ := deref_some_r wenv renv hwf hrf r hr
  unfold Spec.matchesX
  rw [hrd]
  rfl

theorem spec_union_r (ex : Bool) (bs : List Schema) (w : Schema) (hw : MClosed wenv false w) :
    Spec.matchesX ex wenv renv w (.union bs) = true := by
  obtain ⟨wd, hwd⟩ := deref_some_w wenv renv hwf hrf w hw
  cases w <;> simp only [Spec.matchesX, Spec.deref] <;>
    (first | rfl | (simp only [Spec.deref] at hwd; simp only [hwd]; cases wd <;> rfl))

theorem mt_list (f : Nat) (w r : Schema) (b : Bool) (hw : MClosed wenv false w) (hr : MClosed renv true r)
    (hl : (isList w || isList r) = true) (h : matchTypes f wenv renv w r = .ok b) :
    b = Spec.matchesS wenv renv w r := by
  unfold matchTypes matchTypesWith at h
  simp only [hl, if_true, pure, Except.pure, Except.ok.injEq] at h
  subst h
  simp only [Bool.or_eq_true] at hl
  rcases hl with hl | hl
  · cases w <;> simp [isList] at hl
    exact (spec_union_w wenv renv hwf hrf false _ r hr).symm
  · cases r <;> simp [isList] at hl
    exact (spec_union_r wenv renv hwf hrf false _ w hw).symm

/-- the dict group, given the induction hypothesis for the items / values of arrays / maps -/
theorem mt_dict (g : Nat) (ih : ∀ w r b, MClosed wenv false w → MClosed renv true r →
      matchTypes g wenv renv w r = .ok b → b = Spec.matchesS wenv renv w r)
    (w r : Schema) (b : Bool) (hw : MClosed wenv false w) (hr : MClosed renv true r)
    (hl : (isList w || isList r) = false) (hd : (isDict w || isDict r) = true)
    (h : matchTypes (g+1) wenv renv w r = .ok b) : b = Spec.matchesS wenv renv w r := by
  unfold matchTypes at h
  rw [matchTypesWith_dict _ wenv renv w r hl hd] at h
  simp only [Bool.or_eq_false_iff] at hl
  cases w with
  | union _ => simp [isList] at hl
  | prim p d lt => exact L_prim wenv renv hwf hrf g p d lt r b hr hl.2 h
  | array wi =>
    refine L_arr wenv renv hwf hrf g wi r b ?_ hr hl.2 h
    intro ri b' hri hm
    subst hri
    exact ih wi ri b' hw hr hm
  | map wv =>
    refine L_map wenv renv hwf hrf g wv r b ?_ hr hl.2 h
    intro ri b' hri hm
    subst hri
    exact ih wv ri b' hw hr hm
  | record n fs al => exact L_named wenv renv hwf hrf g _ r b rfl hr hl.2 h
  | enum n sy df al => exact L_named wenv renv hwf hrf g _ r b rfl hr hl.2 h
  | fixed n sz l al => exact L_named wenv renv hwf hrf g _ r b rfl hr hl.2 h
  | ref n =>
    obtain ⟨wd, hn⟩ := hw
    have hdr : isDict r = true := by simpa [isDict] using hd
    exact L_ref wenv renv hwf hrf g n wd r b hn hr hl.2 hdr h

/-- **`match_types` is the specification's "schemas match"** (whenever it returns) -/
theorem mt_spec (f : Nat) : ∀ w r b, MClosed wenv false w → MClosed renv true r →
    matchTypes f wenv renv w r = .ok b → b = Spec.matchesS wenv renv w r := by
  induction f with
  | zero =>
    intro w r b hw hr h
    by_cases hl : (isList w || isList r) = true
    · exact mt_list wenv renv hwf hrf 0 w r b hw hr hl h
    · have hl' : (isList w || isList r) = false := by simpa using hl
      by_cases hd : (isDict w || isDict r) = true
      · unfold matchTypes at h
        rw [matchTypesWith_dict _ wenv renv w r hl' hd] at h
        simp [matchSchemas, status] at h
      · have hd' : (isDict w || isDict r) = false := by simpa using hd
        unfold matchTypes at h
        rw [matchTypesWith_str _ wenv renv w r hl' hd'] at h
        exact L_str wenv renv hwf hrf 0 w r b hw hr hl' hd' h
  | succ g ih =>
    intro w r b hw hr h
    by_cases hl : (isList w || isList r) = true
    · exact mt_list wenv renv hwf hrf (g+1) w r b hw hr hl h
    · have hl' : (isList w || isList r) = false := by simpa using hl
      by_cases hd : (isDict w || isDict r) = true
      · exact mt_dict wenv renv hwf hrf g ih w r b hw hr hl' hd h
      · have hd' : (isDict w || isDict r) = false := by simpa using hd
        unfold matchTypes at h
        rw [matchTypesWith_str _ wenv renv w r hl' hd'] at h
        exact L_str wenv renv hwf hrf (g+1) w r b hw hr hl' hd' h

/-! ### the branch of a reader union -/

theorem fm_find (mt : Schema → Schema → R Bool) (P : Schema → Bool) (w : Schema) (l : List Schema) :
    ∀ o, (∀ b ∈ l, ∀ bb, mt w b = .ok bb → bb = P b) → firstMatchWith mt w l = .ok o → o = l.find? P := by
  induction l with
  | nil => intro o _ h; simp [firstMatchWith, pure, Except.pure] at h; simp [h]
  | cons b rest ih =>
    intro o hP h
    simp only [firstMatchWith] at h
    cases hm : mt w b with
    | error e => simp [hm, bind, Except.bind] at h
    | ok bb =>
      have hb := hP b (by simp) bb hm
      simp only [hm, bind, Except.bind] at h
      cases bb with
      | true =>
        simp only [if_true, pure, Except.pure, Except.ok.injEq] at h
        simp [List.find?, ← hb, h]
      | false =>
        simp only [Bool.false_eq_true, if_false] at h
        simp only [List.find?, ← hb]
        exact ih o (fun c hc => hP c (by simp [hc])) h

/-- the definitions compared by `_reader_branches` -/
theorem definitionOf_deref_w (w : Schema) (hw : MClosed wenv false w) : Spec.deref wenv w = some (definitionOf wenv w) := by
  cases w <;> first | rfl | (obtain ⟨d, hd⟩ := hw; simp [Spec.deref, definitionOf, hd])

theorem definitionOf_deref_r (r : Schema) (hr : MClosed renv true r) : Spec.deref renv r = some (definitionOf renv r) := by
  cases r <;> first | rfl | (obtain ⟨d, hd⟩ := hr; simp [Spec.deref, definitionOf, hd])

def kindEq (w b : Schema) : Bool := (definitionOf renv b).typeName == (definitionOf wenv w).typeName
def nameEq (w b : Schema) : Bool :=
  (definitionOf wenv w).defName?.isSome && (definitionOf renv b).defName? == (definitionOf wenv w).defName?

theorem rank_cases (w b : Schema) :
    (branchRank wenv renv w b == 0) = (kindEq wenv renv w b && nameEq wenv renv w b) ∧
    (branchRank wenv renv w b == 1) = (kindEq wenv renv w b && !nameEq wenv renv w b) ∧
    (branchRank wenv renv w b == 2) = !kindEq wenv renv w b := by
  unfold branchRank kindEq nameEq
  cases h1 : ((definitionOf renv b).typeName == (definitionOf wenv w).typeName) <;>
    cases h2 : ((definitionOf wenv w).defName?.isSome && (definitionOf renv b).defName? == (definitionOf wenv w).defName?) <;>
    simp [bne, h1, h2]

theorem fullNameEq_eq (w b : Schema) (hw : MClosed wenv false w) (hb : MClosed renv true b) :
    Spec.fullNameEq wenv renv w b = nameEq wenv renv w b := by
  simp only [Spec.fullNameEq, definitionOf_deref_w wenv renv hwf hrf w hw, definitionOf_deref_r wenv renv hwf hrf b hb, nameEq]

/-- `definition(...)` of a closed, non-union schema is a primitive, an array, a map or a named definition -/
theorem def_shape_w (w : Schema) (hw : MClosed wenv false w) (hu : isList w = false) :
    isList (definitionOf wenv w) = false ∧ (∀ n, definitionOf wenv w ≠ .ref n) ∧
    ∀ ex r, Spec.matchesX ex wenv renv w r = Spec.matchesX ex wenv renv (definitionOf wenv w) r := by
  cases w with
  | ref n =>
    obtain ⟨d, hd⟩ := hw
    have hn := (hwf.named n d hd).1
    simp only [definitionOf, hd, Option.getD_some]
    refine ⟨?_, ?_, fun ex r => spec_ref_w wenv renv hwf hrf ex n d r hd⟩
    · cases d <;> simp [Schema.isNamedDef] at hn <;> rfl
    · intro m; cases d <;> simp [Schema.isNamedDef] at hn <;> simp
  | union _ => simp [isList] at hu
  | _ => exact ⟨hu, by intro n; simp [definitionOf], fun _ _ => rfl⟩

theorem def_shape_r (r : Schema) (hr : MClosed renv true r) (hu : isList r = false) :
    isList (definitionOf renv r) = false ∧ (∀ n, definitionOf renv r ≠ .ref n) ∧
    ∀ ex w, Spec.matchesX ex wenv renv w r = Spec.matchesX ex wenv renv w (definitionOf renv r) := by
  cases r with
  | ref n =>
    obtain ⟨d, hd⟩ := hr
    have hn := (hrf.named n d hd).1
    simp only [definitionOf, hd, Option.getD_some]
    refine ⟨?_, ?_, fun ex w => spec_ref_r wenv renv hwf hrf ex w n d hd⟩
    · cases d <;> simp [Schema.isNamedDef] at hn <;> rfl
    · intro m; cases d <;> simp [Schema.isNamedDef] at hn <;> simp
  | union _ => simp [isList] at hu
  | _ => exact ⟨hu, by intro n; simp [definitionOf], fun _ _ => rfl⟩

/-- on two dereferenced, non-union schemas: "same type" = same kind and matching -/
theorem same_eq_core (wd bd : Schema) (hw1 : isList wd = false) (hw2 : ∀ n, wd ≠ .ref n)
    (hb1 : isList bd = false) (hb2 : ∀ n, bd ≠ .ref n) :
    Spec.matchesX true wenv renv wd bd = ((bd.typeName == wd.typeName) && Spec.matchesX false wenv renv wd bd) := by
  cases wd with
  | union _ => simp [isList] at hw1
  | ref n => exact absurd rfl (hw2 n)
  | prim p d lt =>
    cases bd with
    | union _ => simp [isList] at hb1
    | ref n => exact absurd rfl (hb2 n)
    | prim q d' lt' =>
      simp only [Spec.matchesX, Spec.matchFlat, Spec.deref, Schema.typeName, prim_name_inj, Bool.not_true, Bool.false_and, Bool.or_false,
        Bool.not_false, Bool.true_and]
      cases p <;> cases q <;> decide
    | array _ => simp [Spec.matchesX, Spec.matchFlat, Spec.deref, Schema.typeName, (prim_ne p).2.2.2.2.2.1]
    | map _ => simp [Spec.matchesX, Spec.matchFlat, Spec.deref, Schema.typeName, (prim_ne p).2.2.2.2.2.2.1]
    | record _ _ _ => simp [Spec.matchesX, Spec.matchFlat, Spec.deref]
    | enum _ _ _ _ => simp [Spec.matchesX, Spec.matchFlat, Spec.deref]
    | fixed _ _ _ _ => simp [Spec.matchesX, Spec.matchFlat, Spec.deref]
  | array wi =>
    cases bd with
    | union _ => simp [isList] at hb1
    | ref n => exact absurd rfl (hb2 n)
    | array _ => simp [Spec.matchesX, Spec.matchFlat, Spec.deref, Schema.typeName]
    | prim q _ _ => simp [Spec.matchesX, Spec.matchFlat, Spec.deref]
    | map _ => simp [Spec.matchesX, Spec.matchFlat, Spec.deref]
    | record _ _ _ => simp [Spec.matchesX, Spec.matchFlat, Spec.deref]
    | enum _ _ _ _ => simp [Spec.matchesX, Spec.matchFlat, Spec.deref]
    | fixed _ _ _ _ => simp [Spec.matchesX, Spec.matchFlat, Spec.deref]
  | map wv =>
    cases bd with
    | union _ => simp [isList] at hb1
    | ref n => exact absurd rfl (hb2 n)
    | map _ => simp [Spec.matchesX, Spec.matchFlat, Spec.deref, Schema.typeName]
    | prim q _ _ => simp [Spec.matchesX, Spec.matchFlat, Spec.deref]
    | array _ => simp [Spec.matchesX, Spec.matchFlat, Spec.deref]
    | record _ _ _ => simp [Spec.matchesX, Spec.matchFlat, Spec.deref]
    | enum _ _ _ _ => simp [Spec.matchesX, Spec.matchFlat, Spec.deref]
    | fixed _ _ _ _ => simp [Spec.matchesX, Spec.matchFlat, Spec.deref]
  | record _ _ _ =>
    cases bd with
    | union _ => simp [isList] at hb1
    | ref n => exact absurd rfl (hb2 n)
    | record _ _ _ => simp [Spec.matchesX, Spec.matchFlat, Spec.deref, Schema.typeName]
    | prim q _ _ => simp [Spec.matchesX, Spec.matchFlat, Spec.deref]
    | array _ => simp [Spec.matchesX, Spec.matchFlat, Spec.deref]
    | map _ => simp [Spec.matchesX, Spec.matchFlat, Spec.deref]
    | enum _ _ _ _ => simp [Spec.matchesX, Spec.matchFlat, Spec.deref]
    | fixed _ _ _ _ => simp [Spec.matchesX, Spec.matchFlat, Spec.deref]
  | enum _ _ _ _ =>
    cases bd with
    | union _ => simp [isList] at hb1
    | ref n => exact absurd rfl (hb2 n)
    | enum _ _ _ _ => simp [Spec.matchesX, Spec.matchFlat, Spec.deref, Schema.typeName]
    | prim q _ _ => simp [Spec.matchesX, Spec.matchFlat, Spec.deref]
    | array _ => simp [Spec.matchesX, Spec.matchFlat, Spec.deref]
    | map _ => simp [Spec.matchesX, Spec.matchFlat, Spec.deref]
    | record _ _ _ => simp [Spec.matchesX, Spec.matchFlat, Spec.deref]
    | fixed _ _ _ _ => simp [Spec.matchesX, Spec.matchFlat, Spec.deref]
  | fixed _ _ _ _ =>
    cases bd with
    | union _ => simp [isList] at hb1
    | ref n => exact absurd rfl (hb2 n)
    | fixed _ _ _ _ => simp [Spec.matchesX, Spec.matchFlat, Spec.deref, Schema.typeName]
    | prim q _ _ => simp [Spec.matchesX, Spec.matchFlat, Spec.deref]
    | array _ => simp [Spec.matchesX, Spec.matchFlat, Spec.deref]
    | map _ => simp [Spec.matchesX, Spec.matchFlat, Spec.deref]
    | record _ _ _ => simp [Spec.matchesX, Spec.matchFlat, Spec.deref]
    | enum _ _ _ _ => simp [Spec.matchesX, Spec.matchFlat, Spec.deref]

theorem same_eq (w b : Schema) (hw : MClosed wenv false w) (hb : MClosed renv true b)
    (huw : isList w = false) (hub : isList b = false) :
    Spec.sameType wenv renv w b = (kindEq wenv renv w b && Spec.matchesS wenv renv w b) := by
  obtain ⟨w1, w2, w3⟩ := def_shape_w wenv renv hwf hrf w hw huw
  obtain ⟨b1, b2, b3⟩ := def_shape_r wenv renv hwf hrf b hb hub
  unfold Spec.sameType Spec.matchesS kindEq
  rw [w3 true b, b3 true _, w3 false b, b3 false _]
  exact same_eq_core wenv renv hwf hrf _ _ w1 w2 b1 b2

theorem find_congr' {α} (p q : α → Bool) (l : List α) (h : ∀ a ∈ l, p a = q a) : l.find? p = l.find? q := by
  induction l with
  | nil => rfl
  | cons x xs ih =>
    simp only [List.find?, h x (by simp)]
    cases q x
    · exact ih (fun a ha => h a (by simp [ha]))
    · rfl

theorem find_filter' {α} (p q : α → Bool) (l : List α) : (l.filter q).find? p = l.find? (fun a => q a && p a) := by
  induction l with
  | nil => rfl
  | cons x xs ih =>
    simp only [List.filter]
    cases hq : q x
    · simp only [List.find?, hq, Bool.false_and]; exact ih
    · simp only [List.find?, hq, Bool.true_and]
      cases p x
      · exact ih
      · rfl

theorem find_append3 {α} (p : α → Bool) (a b c : List α) :
    (a ++ b ++ c).find? p = (match a.find? p with | some x => some x | none => match b.find? p with | some x => some x | none => c.find? p) := by
  rw [List.find?_append, List.find?_append]
  cases a.find? p <;> cases b.find? p <;> simp

/-- **branch selection**: the first branch `match_types` accepts among the branches ordered by
    `_reader_branches` is the branch the specification's rule picks -/
theorem pick_spec (f : Nat) (w : Schema) (rs : List Schema) (o : Option Schema)
    (hw : MClosed wenv false w) (huw : isList w = false)
    (hrs : ∀ b ∈ rs, MClosed renv true b ∧ isList b = false)
    (h : firstMatchWith (matchTypes f wenv renv) w (readerBranches wenv renv w rs) = .ok o) :
    o = Spec.pickBranch wenv renv w rs := by
  let P := fun b => Spec.matchesS wenv renv w b
  have hmem : ∀ b ∈ readerBranches wenv renv w rs, b ∈ rs := by
    intro b hb
    simp only [readerBranches, List.mem_append, List.mem_filter] at hb
    rcases hb with (hb | hb) | hb <;> exact hb.1
  have ho := fm_find wenv renv hwf hrf (matchTypes f wenv renv) P w _ o
    (fun b hb bb hbb => mt_spec wenv renv hwf hrf f w b bb hw (hrs b (hmem b hb)).1 hbb) h
  rw [ho]
  unfold readerBranches Spec.pickBranch
  rw [find_append3 wenv renv hwf hrf, find_filter' wenv renv hwf hrf, find_filter' wenv renv hwf hrf, find_filter' wenv renv hwf hrf]
  -- rewrite the three predicates on the elements of rs
  have e0 : rs.find? (fun b => (branchRank wenv renv w b == 0) && P b) =
      rs.find? (fun b => Spec.fullNameEq wenv renv w b && Spec.sameType wenv renv w b) := by
    apply find_congr' wenv renv hwf hrf
    intro b hb
    obtain ⟨hcb, hub⟩ := hrs b hb
    rw [(rank_cases wenv renv hwf hrf w b).1, fullNameEq_eq wenv renv hwf hrf w b hw hcb,
      same_eq wenv renv hwf hrf w b hw hcb huw hub]
    cases kindEq wenv renv w b <;> cases nameEq wenv renv w b <;> simp [P]
  rw [e0]
  cases h0 : rs.find? (fun b => Spec.fullNameEq wenv renv w b && Spec.sameType wenv renv w b) with
  | some x => rfl
  | none =>
    simp only
    have hno0 : ∀ b ∈ rs, (kindEq wenv renv w b && nameEq wenv renv w b && P b) = false := by
      intro b hb
      obtain ⟨hcb, hub⟩ := hrs b hb
      have := List.find?_eq_none.mp h0 b hb
      rw [fullNameEq_eq wenv renv hwf hrf w b hw hcb, same_eq wenv renv hwf hrf w b hw hcb huw hub] at this
      cases hk : kindEq wenv renv w b <;> cases hn : nameEq wenv renv w b <;> cases hp : P b <;> simp_all [P]
    have e1 : rs.find? (fun b => (branchRank wenv renv w b == 1) && P b) = rs.find? (Spec.sameType wenv renv w) := by
      apply find_congr' wenv renv hwf hrf
      intro b hb
      obtain ⟨hcb, hub⟩ := hrs b hb
      have h00 := hno0 b hb
      rw [(rank_cases wenv renv hwf hrf w b).2.1, same_eq wenv renv hwf hrf w b hw hcb huw hub]
      cases hk : kindEq wenv renv w b <;> cases hn : nameEq wenv renv w b <;> cases hp : P b <;> simp_all [P]
    rw [e1]
    cases h1 : rs.find? (Spec.sameType wenv renv w) with
    | some x => rfl
    | none =>
      simp only
      apply find_congr' wenv renv hwf hrf
      intro b hb
      obtain ⟨hcb, hub⟩ := hrs b hb
      have := List.find?_eq_none.mp h1 b hb
      rw [same_eq wenv renv hwf hrf w b hw hcb huw hub] at this
      rw [(rank_cases wenv renv hwf hrf w b).2.2]
      cases hk : kindEq wenv renv w b <;> cases hp : P b <;> simp_all [P]

end cases

end ResolveMatch
