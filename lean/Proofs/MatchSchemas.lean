/-
  Proofs/MatchSchemas.lean — C08: what `match_schemas` returns: its errors, its status against the
  specification's 'schemas match', and the reader schema it continues with.
-/
import Proofs.ResolveMatch
import Proofs.SpecMono

namespace ResolveFull
open Binary Resolve ResolveProofs ResolveMatch NonFuel

/-! ### what `match_schemas` returns -/

def ErrOK (ms : Schema → Schema → R Schema) : Prop := ∀ a b e, ms a b = .error e → e = .fuel ∨ e = .resolution

theorem names_err (ms) (hms : ErrOK ms) (wenv renv : Env) (a b : String) (e : Err)
    (h : matchNamesWith ms wenv renv a b = .error e) : e = .fuel := by
  unfold matchNamesWith at h
  split at h
  · simp [pure, Except.pure] at h
  · split at h
    · simp [pure, Except.pure] at h
    · split at h
      · rename_i wd rd _ _
        cases hx : ms wd rd with
        | ok _ => simp [hx, pure, Except.pure] at h
        | error e' =>
          rcases hms wd rd e' hx with rfl | rfl
          · simp [hx, throw, throwThe, MonadExceptOf.throw] at h; exact h.symm
          · simp [hx, pure, Except.pure] at h
      · simp [pure, Except.pure] at h

theorem mt_err (ms) (hms : ErrOK ms) (wenv renv : Env) (w r : Schema) (e : Err)
    (h : matchTypesWith ms wenv renv w r = .error e) : e = .fuel := by
  unfold matchTypesWith at h
  split at h
  · simp [pure, Except.pure] at h
  · split at h
    · cases hx : ms w r with
      | ok _ => simp [hx, pure, Except.pure] at h
      | error e' =>
        rcases hms w r e' hx with rfl | rfl
        · simp [hx, throw, throwThe, MonadExceptOf.throw] at h; exact h.symm
        · simp [hx, pure, Except.pure] at h
    · exact names_err ms hms wenv renv _ _ e h

theorem fm_err (mt : Schema → Schema → R Bool) (hmt : ∀ a b e, mt a b = .error e → e = .fuel) (w : Schema) (l : List Schema) (e : Err)
    (h : firstMatchWith mt w l = .error e) : e = .fuel := by
  induction l with
  | nil => simp [firstMatchWith, pure, Except.pure] at h
  | cons b rest ih =>
    simp only [firstMatchWith] at h
    cases hm : mt w b with
    | error e' => simp only [hm, bind, Except.bind, Except.error.injEq] at h; subst h; exact hmt w b e' hm
    | ok bb =>
      simp only [hm, bind, Except.bind] at h
      cases bb
      · simp only [Bool.false_eq_true, if_false] at h; exact ih h
      · simp [pure, Except.pure] at h

theorem ms_union_r (wenv renv : Env) (f : Nat) (w : Schema) (rs : List Schema) (hw : isList w = false) :
    matchSchemas (f+1) wenv renv w (.union rs) =
      (firstMatchWith (matchTypes f wenv renv) w (readerBranches wenv renv w rs) >>= fun o =>
        match o with
        | some b => matchSchemas f wenv renv w b
        | none => throw .resolution) := by
  cases w <;> first | (simp [isList] at hw; done) | rfl

theorem ms_errOK (wenv renv : Env) (f : Nat) : ErrOK (matchSchemas f wenv renv) := by
  induction f with
  | zero => intro a b e h; simp only [matchSchemas, Except.error.injEq] at h; exact .inl h.symm
  | succ f ih =>
    intro w r e h
    have hmt := fun a b e => mt_err (matchSchemas f wenv renv) ih wenv renv a b e
    have hnm := fun a b e => names_err (matchSchemas f wenv renv) ih wenv renv a b e
    by_cases hfall : fallPair w r = true
    · by_cases hnn : (w.isNamedDef && r.isNamedDef) = true
      · simp only [Bool.and_eq_true] at hnn
        rw [ms_named f wenv renv w r hnn.1 hnn.2] at h
        split at h
        · simp at h
        · simp only [Except.error.injEq] at h; exact .inr h.symm
      rw [ms_fall f wenv renv w r hfall] at h
      unfold msFall at h
      simp only [hnn, Bool.false_eq_true, if_false] at h
      have hnames : ∀ (a b : String) (X : Schema) (e : Err),
          (do if ← matchNamesWith (matchSchemas f wenv renv) wenv renv a b then pure X else throw Err.resolution : R Schema) = .error e →
          e = .fuel ∨ e = .resolution := by
        intro a b X e hh
        cases hx : matchNamesWith (matchSchemas f wenv renv) wenv renv a b with
        | error e' => simp only [hx, bind, Except.bind, Except.error.injEq] at hh; subst hh; exact .inl (hnm _ _ _ hx)
        | ok bb =>
          simp only [hx, bind, Except.bind] at hh
          cases bb
          · simp only [Bool.false_eq_true, if_false, throw, throwThe, MonadExceptOf.throw, Except.error.injEq] at hh; exact .inr hh.symm
          · simp [pure, Except.pure] at hh
      split at h
      · exact hnames _ _ _ e h
      · split at h
        · split at h
          · exact ih _ _ e h
          · simp only [throw, throwThe, MonadExceptOf.throw, Except.error.injEq] at h; exact .inr h.symm
        · exact hnames _ _ _ e h
    · have hmtif : ∀ (a b X : Schema) (e : Err),
          (do if ← matchTypesWith (matchSchemas f wenv renv) wenv renv a b then pure X else throw Err.resolution : R Schema) = .error e →
          e = .fuel ∨ e = .resolution := by
        intro a b X e hh
        cases hx : matchTypesWith (matchSchemas f wenv renv) wenv renv a b with
        | error e' => simp only [hx, bind, Except.bind, Except.error.injEq] at hh; subst hh; exact .inl (hmt _ _ _ hx)
        | ok bb =>
          simp only [hx, bind, Except.bind] at hh
          cases bb
          · simp only [Bool.false_eq_true, if_false, throw, throwThe, MonadExceptOf.throw, Except.error.injEq] at hh; exact .inr hh.symm
          · simp [pure, Except.pure] at hh
      cases w <;> cases r <;> simp only [fallPair, not_true_eq_false, Bool.false_eq_true, not_false_eq_true] at hfall <;>
        first
          | (simp [matchSchemas, pure, Except.pure] at h; done)
          | (simp only [matchSchemas] at h; exact hmtif _ _ _ e h)
          | (rename_i rs
             rw [ms_union_r wenv renv f _ rs rfl] at h
             cases hfm : firstMatchWith (matchTypes f wenv renv) _ (readerBranches wenv renv _ rs) with
             | error e' =>
               rw [hfm] at h
               simp only [bind, Except.bind, Except.error.injEq] at h; subst h
               exact .inl (fm_err _ hmt _ _ _ hfm)
             | ok o =>
               rw [hfm] at h
               simp only [bind, Except.bind] at h
               cases o with
               | none => simp only [throw, throwThe, MonadExceptOf.throw, Except.error.injEq] at h; exact .inr h.symm
               | some b => exact ih _ _ e h)

theorem nonavro_is_ref (r : Schema) (h : AVRO_TYPES.contains r.typeName = false) : r = .ref r.typeName := by
  cases r with
  | ref m => rfl
  | prim p _ _ => rw [Schema.typeName, prim_in_avro] at h; exact absurd h (by decide)
  | array _ => rw [Schema.typeName, avro_names.1] at h; exact absurd h (by decide)
  | map _ => rw [Schema.typeName, avro_names.2.1] at h; exact absurd h (by decide)
  | record _ _ _ => rw [Schema.typeName, avro_names.2.2.1] at h; exact absurd h (by decide)
  | enum _ _ _ _ => rw [Schema.typeName, avro_names.2.2.2.1] at h; exact absurd h (by decide)
  | fixed _ _ _ _ => rw [Schema.typeName, avro_names.2.2.2.2.1] at h; exact absurd h (by decide)
  | union _ => rw [Schema.typeName, avro_names.2.2.2.2.2] at h; exact absurd h (by decide)

theorem ite_ok {c : R Bool} {X r' : Schema} (h : (do if ← c then pure X else throw Err.resolution : R Schema) = .ok r') : r' = X := by
  cases hc : c with
  | error e => simp [hc, bind, Except.bind] at h
  | ok b =>
    cases b <;> simp [hc, bind, Except.bind, pure, Except.pure, throw, throwThe, MonadExceptOf.throw] at h
    exact h.symm

section
variable (wenv renv : Env) (hwf : EnvWF wenv) (hrf : EnvWF renv)
include hwf hrf

/-- `match_schemas` on a by-name writer type and a reader type given by a string -/
theorem L_ref_str (g : Nat) (n : String) (wd r : Schema) (b : Bool) (hn : wenv.get? n = some wd)
    (hr : MClosed renv true r) (hu : isList r = false) (hdict : isDict r = false)
    (h : status (matchSchemas (g+1) wenv renv (.ref n) r) = .ok b) :
    b = Spec.matchesS wenv renv (.ref n) r := by
  have hfall : fallPair (.ref n) r = true := by cases r <;> simp_all [fallPair, isList]
  have e1 : (Schema.ref n).isNamedDef = false := rfl
  have hrn : r.isNamedDef = false := by cases r <;> simp_all [isDict, Schema.isNamedDef]
  rw [ms_fall g wenv renv _ r hfall] at h
  have hbody : msFall (matchSchemas g wenv renv) wenv renv (.ref n) r =
      (do if ← matchNamesWith (matchSchemas g wenv renv) wenv renv (Schema.ref n).typeName r.typeName then pure r else throw .resolution) := by
    unfold msFall
    simp only [e1, hrn, Bool.false_and, Bool.and_false, Bool.false_eq_true, if_false]
  rw [hbody] at h
  cases hx : matchNamesWith (matchSchemas g wenv renv) wenv renv (Schema.ref n).typeName r.typeName with
  | error e =>
    cases e <;> first
      | (exact absurd hx (names_ne_resolution wenv renv hwf hrf _ _ _))
      | (simp [hx, status, bind, Except.bind] at h)
  | ok bb =>
    have := L_str wenv renv hwf hrf g (.ref n) r bb ⟨wd, hn⟩ hr (by rw [hu]; rfl) (by rw [hdict]; rfl) hx
    rw [← this]
    rw [hx] at h
    cases bb <;> simp [status, bind, Except.bind, pure, Except.pure, throw, throwThe, MonadExceptOf.throw] at h <;> exact h

/-- **`match_schemas` succeeds exactly when the schemas match** (neither side a union) -/
theorem ms_status (g : Nat) (w r : Schema) (b : Bool) (hw : MClosed wenv false w) (hr : MClosed renv true r)
    (huw : isList w = false) (hur : isList r = false)
    (h : status (matchSchemas (g+1) wenv renv w r) = .ok b) : b = Spec.matchesS wenv renv w r := by
  cases w with
  | union _ => simp [isList] at huw
  | prim p d lt => exact L_prim wenv renv hwf hrf g p d lt r b hr hur h
  | array wi =>
    refine L_arr wenv renv hwf hrf g wi r b ?_ hr hur h
    intro ri b' hri hm; subst hri
    exact mt_spec wenv renv hwf hrf g wi ri b' hw hr hm
  | map wv =>
    refine L_map wenv renv hwf hrf g wv r b ?_ hr hur h
    intro ri b' hri hm; subst hri
    exact mt_spec wenv renv hwf hrf g wv ri b' hw hr hm
  | record n fs al => exact L_named wenv renv hwf hrf g _ r b rfl hr hur h
  | enum n sy df al => exact L_named wenv renv hwf hrf g _ r b rfl hr hur h
  | fixed n sz l al => exact L_named wenv renv hwf hrf g _ r b rfl hr hur h
  | ref n =>
    obtain ⟨wd, hn⟩ := hw
    by_cases hd : isDict r = true
    · exact L_ref wenv renv hwf hrf g n wd r b hn hr hur hd h
    · exact L_ref_str wenv renv hwf hrf g n wd r b hn hr hur (by simpa using hd) h

/-- the reader schema `match_schemas` continues with denotes the same definition as the one given -/
theorem ms_ok_deref (f : Nat) (w r r' : Schema) (hr : MClosed renv true r) (huw : isList w = false) (hur : isList r = false)
    (h : matchSchemas f wenv renv w r = .ok r') : Spec.deref renv r' = Spec.deref renv r ∧ isList r' = false := by
  cases f with
  | zero => simp [matchSchemas] at h
  | succ g =>
    by_cases hfall : fallPair w r = true
    · by_cases hnn : (w.isNamedDef && r.isNamedDef) = true
      · simp only [Bool.and_eq_true] at hnn
        rw [ms_named g wenv renv w r hnn.1 hnn.2] at h
        split at h
        · simp only [Except.ok.injEq] at h; subst h; exact ⟨rfl, hur⟩
        · simp at h
      · rw [ms_fall g wenv renv w r hfall] at h
        unfold msFall at h
        simp only [hnn, Bool.false_eq_true, if_false] at h
        split at h
        · rename_i hc2
          simp only [Bool.and_eq_true, Bool.not_eq_true'] at hc2
          have := ite_ok h
          subst this
          have hreg := named_registered wenv renv hwf hrf r hc2.2 hr
          refine ⟨?_, rfl⟩
          simp only [Spec.deref, hreg]
          cases r <;> simp [Schema.isNamedDef] at hc2 <;> rfl
        · split at h
          · rename_i hc3
            simp only [Bool.and_eq_true, Bool.not_eq_true'] at hc3
            have hrr := nonavro_is_ref r hc3.2
            generalize hn : r.typeName = n at hrr h
            subst hrr
            cases hg : renv.get? n with
            | none => simp [hg, throw, throwThe, MonadExceptOf.throw] at h
            | some rd =>
              simp only [hg] at h
              have hrdn := (hrf.named _ rd hg).1
              cases g with
              | zero => simp [matchSchemas] at h
              | succ g' =>
                rw [ms_named g' wenv renv w rd hc3.1 hrdn] at h
                split at h
                · simp only [Except.ok.injEq] at h; subst h
                  simp only [Spec.deref, hg]
                  refine ⟨?_, ?_⟩ <;> cases rd <;> simp [Schema.isNamedDef] at hrdn <;> first | rfl | simp [Spec.deref, hg, isList]
                · simp at h
          · have := ite_ok h
            subst this
            exact ⟨rfl, hur⟩
    · cases w <;> cases r <;> simp only [fallPair, not_true_eq_false, Bool.false_eq_true, not_false_eq_true] at hfall <;>
        first
          | (simp [isList] at huw; done)
          | (simp [isList] at hur; done)
          | (simp only [matchSchemas] at h; have := ite_ok h; subst this; exact ⟨rfl, rfl⟩)

end

end ResolveFull
