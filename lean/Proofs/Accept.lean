/-
  Proofs/Accept.lean — the reader decodes every specification-valid encoding (`Spec.Enc`: any block
  partition, both count forms, any nesting) to the encoded value and stops exactly at its end (C03).
-/
import Model.Binary
import Spec.Enc
import Proofs.Basic
import Proofs.Encode
import Proofs.Mono

namespace AcceptProofs
open Binary BasicProofs MonoProofs Spec

theorem decode_spec (n : Int) (h : I64 n) (rest : Bytes) :
    decodeLong (Spec.encodeLong n ++ rest) = .ok (n, rest) := by
  obtain ⟨bs, h1, h2⟩ := VarintProofs.decodeLong_encodeLong n h.1 h.2 rest
  rw [VarintProofs.encodeLong_eq_spec n h.1 h.2, ok_eq, ok_eq] at h1
  injection h1 with h1 _; subst h1; exact h2

theorem i64_of_nat (n : Nat) (h : n < Spec.LIM) : I64 (n : Int) := by
  unfold I64; rw [EncodeProofs.limit2] at h
  have e2 : (2:Int)^63 = 9223372036854775808 := by decide
  have e3 : (2:Nat)^63 = 9223372036854775808 := by decide
  omega

theorem i64_of_neg_nat (n : Nat) (h : n < Spec.LIM) : I64 (-(n : Int)) := by
  unfold I64; rw [EncodeProofs.limit2] at h
  have e2 : (2:Int)^63 = 9223372036854775808 := by decide
  have e3 : (2:Nat)^63 = 9223372036854775808 := by decide
  omega

theorem lenPrefixed_decode (b rest : Bytes) (h : b.length < Spec.LIM) :
    decBytesRaw (Spec.encodeLong b.length ++ (b ++ rest)) = .ok (b, rest) := by
  unfold decBytesRaw
  rw [decode_spec _ (i64_of_nat _ h)]
  simp only [bind, Except.bind]
  have : ¬ ((b.length : Int) < 0) := by omega
  simp only [this, ↓reduceIte, Int.toNat_natCast, takeN_append, pure, Except.pure]

theorem prim_accept {p : Prim} {v : Val} {bs : Bytes} (h : EncPrim p v bs) (rest : Bytes) :
    readPrim p (bs ++ rest) = .ok (v, rest) := by
  cases h with
  | null => simp [readPrim, pure, Except.pure]
  | boolean b => cases b <;> simp [readPrim, decBool]
  | int n h =>
    have e31 : (2:Int)^31 = 2147483648 := by decide
    have e63 : (2:Int)^63 = 9223372036854775808 := by decide
    have : I64 n := by unfold I64; omega
    simp [readPrim, decode_spec n this, bind, Except.bind, pure, Except.pure]
  | long n h => simp [readPrim, decode_spec n h, bind, Except.bind, pure, Except.pure]
  | float f =>
    have := decFloat_u32LE f rest
    simp only [u32LE, ← EncodeProofs.leBytes_eq] at this
    simp [readPrim, this]
  | double d =>
    have := decDouble_u64LE d rest
    simp only [u64LE, ← EncodeProofs.leBytes_eq] at this
    simp [readPrim, this]
  | bytes b h => simp [readPrim, decBytes, lenPrefixed_decode b rest h, bind, Except.bind, pure, Except.pure]
  | string s h =>
    simp [readPrim, decUtf8, decUtf8Raw, lenPrefixed_decode (utf8Enc s) rest h, bind, Except.bind, pure, Except.pure,
      utf8Dec_utf8Enc]

/-! lifting a result obtained with fuel `g` to any larger fuel -/

theorem lift_items (env : Env) {g g' : Nat} (hg : g ≤ g') (s : Schema) (n : Nat) (bs : Bytes) (r) :
    readItemsWith (readData g env {} s) n bs = .ok r → readItemsWith (readData g' env {} s) n bs = .ok r :=
  readItemsWith_mono _ _ (fun b r h => readData_mono_le env {} hg s b r h) n bs r

theorem lift_blocks (env : Env) {g g' : Nat} (hg : g ≤ g') (s : Schema) (k c) (bs : Bytes) (r) :
    readBlocksWith (readData g env {} s) k c bs = .ok r → readBlocksWith (readData g' env {} s) k c bs = .ok r :=
  fun h => readBlocksWith_mono _ _ (fun b r h => readData_mono_le env {} hg s b r h) k c bs r h k (Nat.le_refl _)

theorem lift_entries (env : Env) {g g' : Nat} (hg : g ≤ g') (s : Schema) (n : Nat) (bs : Bytes) (acc r) :
    readEntriesWith (readData g env {} s) n bs acc = .ok r → readEntriesWith (readData g' env {} s) n bs acc = .ok r :=
  readEntriesWith_mono _ _ (fun b r h => readData_mono_le env {} hg s b r h) n bs acc r

theorem lift_mapblocks (env : Env) {g g' : Nat} (hg : g ≤ g') (s : Schema) (k c) (bs : Bytes) (acc r) :
    readMapBlocksWith (readData g env {} s) k c bs acc = .ok r →
    readMapBlocksWith (readData g' env {} s) k c bs acc = .ok r :=
  fun h => readMapBlocksWith_mono _ _ (fun b r h => readData_mono_le env {} hg s b r h) k c bs acc r h k (Nat.le_refl _)

theorem lift_fields (env : Env) {g g' : Nat} (hg : g ≤ g') (fs : List Field) (bs : Bytes) (acc r) :
    readFieldsWith (readData g env {}) fs bs acc = .ok r → readFieldsWith (readData g' env {}) fs bs acc = .ok r :=
  readFieldsWith_mono _ _ (fun s b r h => readData_mono_le env {} hg s b r h) fs bs acc r

theorem assignAll_cons (acc : List (Val × Val)) (k : String) (v : Val) (es : List (String × Val)) :
    assignAll acc ((k, v) :: es) = assignAll (valDictSet acc k v) es := rfl

theorem assignAll_append (acc : List (Val × Val)) (es fs : List (String × Val)) :
    assignAll acc (es ++ fs) = assignAll (assignAll acc es) fs := by
  simp [assignAll, List.foldl_append]

theorem nat_count_pos {α} (xs : List α) (h : xs ≠ []) : ((xs.length : Int) == 0) = false ∧ ¬ ((xs.length : Int) < 0) := by
  cases xs with
  | nil => exact absurd rfl h
  | cons _ _ => simp only [List.length_cons, beq_eq_false_iff_ne, ne_eq]; omega

theorem neg_count {α} (xs : List α) (h : xs ≠ []) :
    ((-(xs.length : Int)) == 0) = false ∧ (-(xs.length : Int)) < 0 ∧ (- -(xs.length : Int)).toNat = xs.length := by
  cases xs with
  | nil => exact absurd rfl h
  | cons _ _ => simp only [List.length_cons, beq_eq_false_iff_ne, ne_eq]; omega

mutual
theorem accept {env : Env} : ∀ {s v bs}, Enc env s v bs → ∀ rest,
    ∃ g, readData g env {} s (bs ++ rest) = .ok (v, rest)
  | _, _, _, .prim (df := df) hp, rest => by
      refine ⟨1, ?_⟩
      simp only [readData, prim_accept hp rest, bind, Except.bind, Logical.readLogical, pure, Except.pure]
      cases df <;> rfl
  | _, _, _, .fixed b hb, rest => by
      refine ⟨1, ?_⟩
      simp [readData, decFixed, takeN_append' _ b rest hb, bind, Except.bind, Logical.readLogical, pure, Except.pure]
  | _, _, _, .enum (syms := syms) i h hl, rest => by
      refine ⟨1, ?_⟩
      simp only [readData, decode_spec _ (i64_of_nat i hl), bind, Except.bind, RoundtripProofs.listIndex_nat]
      simp [List.getElem?_eq_getElem h, pure, Except.pure]
  | _, _, _, .array (items := items) (c := c) (xs := xs) (bs := bs) hc hb, rest => by
      obtain ⟨g, hg⟩ := acceptBlocks hb rest
      refine ⟨g + 1, ?_⟩
      simp only [readData, List.append_assoc, decode_spec c hc, bind, Except.bind]
      rw [hg ((bs ++ rest).length + 1) (by simp)]
      simp [pure, Except.pure]
  | _, _, _, .map (values := values) (c := c) (es := es) (bs := bs) hc hb, rest => by
      obtain ⟨g, hg⟩ := acceptMapBlocks hb rest []
      refine ⟨g + 1, ?_⟩
      simp only [readData, List.append_assoc, decode_spec c hc, bind, Except.bind]
      rw [hg ((bs ++ rest).length + 1) (by simp)]
      simp [pure, Except.pure]
  | _, _, _, .union (branches := branches) (b := b) i hb hl he, rest => by
      obtain ⟨g, hg⟩ := accept he rest
      refine ⟨g + 1, ?_⟩
      simp only [readData, List.append_assoc, decode_spec _ (i64_of_nat i hl), bind, Except.bind,
        RoundtripProofs.listIndex_nat, hb, hg]
      simp [wrapUnionResult, pure, Except.pure]
  | _, _, _, .record (fields := fields) hf, rest => by
      obtain ⟨g, hg⟩ := acceptFields hf rest []
      refine ⟨g + 1, ?_⟩
      simp only [readData, hg, bind, Except.bind, pure, Except.pure]
  | _, _, _, .ref (n := n) (s := s) hn he, rest => by
      obtain ⟨g, hg⟩ := accept he rest
      refine ⟨g + 1, ?_⟩
      simp only [readData, hn, hg]
theorem acceptBlocks {env : Env} : ∀ {s c xs bs}, Blocks env s c xs bs → ∀ rest,
    ∃ g, ∀ k, bs.length + 1 ≤ k → readBlocksWith (readData g env {} s) k c (bs ++ rest) = .ok (xs, rest)
  | _, _, _, _, .done, rest => by
      refine ⟨0, ?_⟩
      intro k hk
      cases k with
      | zero => omega
      | succ k => simp [readBlocksWith, pure, Except.pure]
  | s, _, _, _, .pos (xs := xs) (ys := ys) (b1 := b1) (c' := c') (b2 := b2) hne hlen hi hc' hb, rest => by
      obtain ⟨g1, h1⟩ := acceptItems hi (Spec.encodeLong c' ++ (b2 ++ rest))
      obtain ⟨g2, h2⟩ := acceptBlocks hb rest
      refine ⟨max g1 g2, ?_⟩
      intro k hk
      cases k with
      | zero => omega
      | succ k =>
        obtain ⟨e1, e2⟩ := nat_count_pos xs hne
        simp only [readBlocksWith, e1, Bool.false_eq_true, ↓reduceIte, blockCount, e2, bind, Except.bind, pure,
          Except.pure, Int.toNat_natCast, List.append_assoc]
        rw [lift_items env (Nat.le_max_left g1 g2) s _ _ _ h1]
        simp only [decode_spec c' hc']
        have hk' : b2.length + 1 ≤ k := by
          simp only [List.length_append] at hk
          have : 1 ≤ (Spec.encodeLong c').length := by
            unfold Spec.encodeLong Spec.varint; rw [Spec.groups]; split <;>
              (try simp [Spec.withContinuation]) <;>
              (cases hgr : Spec.groups (Spec.zigzag c' / 128) <;> simp [Spec.withContinuation])
          omega
        rw [lift_blocks env (Nat.le_max_right g1 g2) s _ _ _ _ (h2 k hk')]
  | s, _, _, _, .neg (xs := xs) (ys := ys) (b1 := b1) (c' := c') (b2 := b2) sz hsz hne hlen hi hc' hb, rest => by
      obtain ⟨g1, h1⟩ := acceptItems hi (Spec.encodeLong c' ++ (b2 ++ rest))
      obtain ⟨g2, h2⟩ := acceptBlocks hb rest
      refine ⟨max g1 g2, ?_⟩
      intro k hk
      cases k with
      | zero => omega
      | succ k =>
        obtain ⟨e1, e2, e3⟩ := neg_count xs hne
        simp only [readBlocksWith, e1, Bool.false_eq_true, ↓reduceIte, blockCount, e2, bind, Except.bind, pure,
          Except.pure, List.append_assoc, decode_spec sz hsz, e3]
        rw [lift_items env (Nat.le_max_left g1 g2) s _ _ _ h1]
        simp only [decode_spec c' hc']
        have hk' : b2.length + 1 ≤ k := by
          simp only [List.length_append] at hk
          have : 1 ≤ (Spec.encodeLong c').length := by
            unfold Spec.encodeLong Spec.varint; rw [Spec.groups]; split <;>
              (try simp [Spec.withContinuation]) <;>
              (cases hgr : Spec.groups (Spec.zigzag c' / 128) <;> simp [Spec.withContinuation])
          omega
        rw [lift_blocks env (Nat.le_max_right g1 g2) s _ _ _ _ (h2 k hk')]
theorem acceptItems {env : Env} : ∀ {s xs bs}, Items env s xs bs → ∀ rest,
    ∃ g, readItemsWith (readData g env {} s) xs.length (bs ++ rest) = .ok (xs, rest)
  | _, _, _, .nil, rest => ⟨0, by simp [readItemsWith, pure, Except.pure]⟩
  | s, _, _, .cons (x := x) (xs := xs) (b1 := b1) (b2 := b2) he hi, rest => by
      obtain ⟨g1, h1⟩ := accept he (b2 ++ rest)
      obtain ⟨g2, h2⟩ := acceptItems hi rest
      refine ⟨max g1 g2, ?_⟩
      simp only [List.length_cons, readItemsWith, List.append_assoc,
        readData_mono_le env {} (Nat.le_max_left g1 g2) s _ _ h1, bind, Except.bind,
        lift_items env (Nat.le_max_right g1 g2) s _ _ _ h2, pure, Except.pure]
theorem acceptMapBlocks {env : Env} : ∀ {s c es bs}, MapBlocks env s c es bs → ∀ rest acc,
    ∃ g, ∀ k, bs.length + 1 ≤ k →
      readMapBlocksWith (readData g env {} s) k c (bs ++ rest) acc = .ok (assignAll acc es, rest)
  | _, _, _, _, .done, rest, acc => by
      refine ⟨0, ?_⟩
      intro k hk
      cases k with
      | zero => omega
      | succ k => simp [readMapBlocksWith, assignAll, pure, Except.pure]
  | s, _, _, _, .pos (es := es) (fs := fs) (b1 := b1) (c' := c') (b2 := b2) hne hlen hi hc' hb, rest, acc => by
      obtain ⟨g1, h1⟩ := acceptEntries hi (Spec.encodeLong c' ++ (b2 ++ rest)) acc
      obtain ⟨g2, h2⟩ := acceptMapBlocks hb rest (assignAll acc es)
      refine ⟨max g1 g2, ?_⟩
      intro k hk
      cases k with
      | zero => omega
      | succ k =>
        obtain ⟨e1, e2⟩ := nat_count_pos es hne
        simp only [readMapBlocksWith, e1, Bool.false_eq_true, ↓reduceIte, blockCount, e2, bind, Except.bind, pure,
          Except.pure, Int.toNat_natCast, List.append_assoc]
        rw [lift_entries env (Nat.le_max_left g1 g2) s _ _ _ _ h1]
        simp only [decode_spec c' hc']
        have hk' : b2.length + 1 ≤ k := by
          simp only [List.length_append] at hk
          have : 1 ≤ (Spec.encodeLong c').length := by
            unfold Spec.encodeLong Spec.varint; rw [Spec.groups]; split <;>
              (try simp [Spec.withContinuation]) <;>
              (cases hgr : Spec.groups (Spec.zigzag c' / 128) <;> simp [Spec.withContinuation])
          omega
        rw [lift_mapblocks env (Nat.le_max_right g1 g2) s _ _ _ _ _ (h2 k hk'), assignAll_append]
  | s, _, _, _, .neg (es := es) (fs := fs) (b1 := b1) (c' := c') (b2 := b2) sz hsz hne hlen hi hc' hb, rest, acc => by
      obtain ⟨g1, h1⟩ := acceptEntries hi (Spec.encodeLong c' ++ (b2 ++ rest)) acc
      obtain ⟨g2, h2⟩ := acceptMapBlocks hb rest (assignAll acc es)
      refine ⟨max g1 g2, ?_⟩
      intro k hk
      cases k with
      | zero => omega
      | succ k =>
        obtain ⟨e1, e2, e3⟩ := neg_count es hne
        simp only [readMapBlocksWith, e1, Bool.false_eq_true, ↓reduceIte, blockCount, e2, bind, Except.bind, pure,
          Except.pure, List.append_assoc, decode_spec sz hsz, e3]
        rw [lift_entries env (Nat.le_max_left g1 g2) s _ _ _ _ h1]
        simp only [decode_spec c' hc']
        have hk' : b2.length + 1 ≤ k := by
          simp only [List.length_append] at hk
          have : 1 ≤ (Spec.encodeLong c').length := by
            unfold Spec.encodeLong Spec.varint; rw [Spec.groups]; split <;>
              (try simp [Spec.withContinuation]) <;>
              (cases hgr : Spec.groups (Spec.zigzag c' / 128) <;> simp [Spec.withContinuation])
          omega
        rw [lift_mapblocks env (Nat.le_max_right g1 g2) s _ _ _ _ _ (h2 k hk'), assignAll_append]
theorem acceptEntries {env : Env} : ∀ {s es bs}, Entries env s es bs → ∀ rest acc,
    ∃ g, readEntriesWith (readData g env {} s) es.length (bs ++ rest) acc = .ok (assignAll acc es, rest)
  | _, _, _, .nil, rest, acc => ⟨0, by simp [readEntriesWith, assignAll, pure, Except.pure]⟩
  | s, _, _, .cons (k := k) (v := v) (es := es) (b1 := b1) (b2 := b2) hk he hi, rest, acc => by
      obtain ⟨g1, h1⟩ := accept he (b2 ++ rest)
      obtain ⟨g2, h2⟩ := acceptEntries hi rest (valDictSet acc k v)
      refine ⟨max g1 g2, ?_⟩
      have hkey : decUtf8Raw (Spec.encodeLong (utf8Enc k).length ++ (utf8Enc k ++ (b1 ++ (b2 ++ rest)))) =
          .ok (k, b1 ++ (b2 ++ rest)) := by
        simp [decUtf8Raw, lenPrefixed_decode (utf8Enc k) _ hk, bind, Except.bind, pure, Except.pure, utf8Dec_utf8Enc]
      simp only [List.length_cons, readEntriesWith, List.append_assoc, hkey, bind, Except.bind,
        readData_mono_le env {} (Nat.le_max_left g1 g2) s _ _ h1,
        lift_entries env (Nat.le_max_right g1 g2) s _ _ _ _ h2, assignAll_cons]
theorem acceptFields {env : Env} : ∀ {fs es bs}, Fields env fs es bs → ∀ rest acc,
    ∃ g, readFieldsWith (readData g env {}) fs (bs ++ rest) acc = .ok (assignAll acc es, rest)
  | _, _, _, .nil, rest, acc => ⟨0, by simp [readFieldsWith, assignAll, pure, Except.pure]⟩
  | _, _, _, .cons (f := f) (fs := fs) (v := v) (es := es) (b1 := b1) (b2 := b2) he hf, rest, acc => by
      obtain ⟨g1, h1⟩ := accept he (b2 ++ rest)
      obtain ⟨g2, h2⟩ := acceptFields hf rest (valDictSet acc f.name v)
      refine ⟨max g1 g2, ?_⟩
      simp only [readFieldsWith, List.append_assoc, bind, Except.bind,
        readData_mono_le env {} (Nat.le_max_left g1 g2) f.type _ _ h1,
        lift_fields env (Nat.le_max_right g1 g2) fs _ _ _ h2, assignAll_cons]
end

/-! ### skipping the same encodings (`skip_data`, used for writer-only fields) -/

theorem enc_len_pos (c : Int) : 1 ≤ (Spec.encodeLong c).length := by
  unfold Spec.encodeLong Spec.varint; rw [Spec.groups]; split <;>
    (try simp [Spec.withContinuation]) <;>
    (cases hgr : Spec.groups (Spec.zigzag c / 128) <;> simp [Spec.withContinuation])

theorem prim_skip {p : Prim} {v : Val} {bs : Bytes} (h : EncPrim p v bs) (rest : Bytes) :
    skipPrim p (bs ++ rest) = .ok rest := by
  cases h with
  | null => simp [skipPrim, pure, Except.pure]
  | boolean b => cases b <;> simp [skipPrim, decBool, bind, Except.bind, pure, Except.pure]
  | int n h =>
    have e31 : (2:Int)^31 = 2147483648 := by decide
    have e63 : (2:Int)^63 = 9223372036854775808 := by decide
    have : I64 n := by unfold I64; omega
    simp [skipPrim, decode_spec n this, bind, Except.bind, pure, Except.pure]
  | long n h => simp [skipPrim, decode_spec n h, bind, Except.bind, pure, Except.pure]
  | float f =>
    have := decFloat_u32LE f rest
    simp only [u32LE, ← EncodeProofs.leBytes_eq] at this
    simp [skipPrim, this, bind, Except.bind, pure, Except.pure]
  | double d =>
    have := decDouble_u64LE d rest
    simp only [u64LE, ← EncodeProofs.leBytes_eq] at this
    simp [skipPrim, this, bind, Except.bind, pure, Except.pure]
  | bytes b h => simp [skipPrim, lenPrefixed_decode b rest h, bind, Except.bind, pure, Except.pure]
  | string s h =>
    simp [skipPrim, decUtf8Raw, lenPrefixed_decode (utf8Enc s) rest h, bind, Except.bind, pure, Except.pure,
      utf8Dec_utf8Enc]

theorem lift_skipitems (env : Env) {g g' : Nat} (hg : g ≤ g') (s : Schema) (m : Bool) (n : Nat) (bs : Bytes) (r) :
    skipItemsWith (skipData g env s) m n bs = .ok r → skipItemsWith (skipData g' env s) m n bs = .ok r :=
  skipItemsWith_mono _ _ (fun b r h => skipData_mono_le env hg s b r h) m n bs r

theorem lift_skipblocks (env : Env) {g g' : Nat} (hg : g ≤ g') (s : Schema) (m : Bool) (k c) (bs : Bytes) (r) :
    skipBlocksWith (skipData g env s) m k c bs = .ok r → skipBlocksWith (skipData g' env s) m k c bs = .ok r :=
  fun h => skipBlocksWith_mono _ _ (fun b r h => skipData_mono_le env hg s b r h) m k c bs r h k (Nat.le_refl _)

theorem lift_skipfields (env : Env) {g g' : Nat} (hg : g ≤ g') (fs : List Field) (bs : Bytes) (r) :
    skipFieldsWith (skipData g env) fs bs = .ok r → skipFieldsWith (skipData g' env) fs bs = .ok r :=
  skipFieldsWith_mono _ _ (fun s b r h => skipData_mono_le env hg s b r h) fs bs r

mutual
theorem skipAccept {env : Env} : ∀ {s v bs}, Enc env s v bs → ∀ rest,
    ∃ g, skipData g env s (bs ++ rest) = .ok rest
  | _, _, _, .prim hp, rest => ⟨1, by simp only [skipData, prim_skip hp rest]⟩
  | _, _, _, .fixed b hb, rest => by
      refine ⟨1, ?_⟩
      simp [skipData, decFixed, takeN_append' _ b rest hb, bind, Except.bind, pure, Except.pure]
  | _, _, _, .enum i h hl, rest => by
      refine ⟨1, ?_⟩
      simp [skipData, decode_spec _ (i64_of_nat i hl), bind, Except.bind, pure, Except.pure]
  | _, _, _, .array (bs := bs) hc hb, rest => by
      obtain ⟨g, hg⟩ := skipBlocksAcc hb rest
      refine ⟨g + 1, ?_⟩
      simp only [skipData, List.append_assoc, decode_spec _ hc, bind, Except.bind]
      exact hg ((bs ++ rest).length + 1) (by simp)
  | _, _, _, .map (bs := bs) hc hb, rest => by
      obtain ⟨g, hg⟩ := skipMapBlocksAcc hb rest
      refine ⟨g + 1, ?_⟩
      simp only [skipData, List.append_assoc, decode_spec _ hc, bind, Except.bind]
      exact hg ((bs ++ rest).length + 1) (by simp)
  | _, _, _, .union i hb hl he, rest => by
      obtain ⟨g, hg⟩ := skipAccept he rest
      refine ⟨g + 1, ?_⟩
      simp only [skipData, List.append_assoc, decode_spec _ (i64_of_nat i hl), bind, Except.bind,
        RoundtripProofs.listIndex_nat, hb, hg]
  | _, _, _, .record hf, rest => by
      obtain ⟨g, hg⟩ := skipFieldsAcc hf rest
      exact ⟨g + 1, by simp only [skipData, hg]⟩
  | _, _, _, .ref hn he, rest => by
      obtain ⟨g, hg⟩ := skipAccept he rest
      exact ⟨g + 1, by simp only [skipData, hn, hg]⟩
theorem skipBlocksAcc {env : Env} : ∀ {s c xs bs}, Blocks env s c xs bs → ∀ rest,
    ∃ g, ∀ k, bs.length + 1 ≤ k → skipBlocksWith (skipData g env s) false k c (bs ++ rest) = .ok rest
  | _, _, _, _, .done, rest => by
      refine ⟨0, ?_⟩
      intro k hk
      cases k with
      | zero => omega
      | succ k => simp [skipBlocksWith, pure, Except.pure]
  | s, _, _, _, .pos (xs := xs) (b1 := b1) (c' := c') (b2 := b2) hne hlen hi hc' hb, rest => by
      obtain ⟨g1, h1⟩ := skipItemsAcc hi (Spec.encodeLong c' ++ (b2 ++ rest))
      obtain ⟨g2, h2⟩ := skipBlocksAcc hb rest
      refine ⟨max g1 g2, ?_⟩
      intro k hk
      cases k with
      | zero => omega
      | succ k =>
        obtain ⟨e1, e2⟩ := nat_count_pos xs hne
        simp only [skipBlocksWith, e1, Bool.false_eq_true, ↓reduceIte, blockCount, e2, bind, Except.bind, pure,
          Except.pure, Int.toNat_natCast, List.append_assoc]
        rw [lift_skipitems env (Nat.le_max_left g1 g2) s _ _ _ _ h1]
        simp only [decode_spec c' hc']
        have hk' : b2.length + 1 ≤ k := by
          simp only [List.length_append] at hk; have := enc_len_pos c'; omega
        exact lift_skipblocks env (Nat.le_max_right g1 g2) s _ _ _ _ _ (h2 k hk')
  | s, _, _, _, .neg (xs := xs) (b1 := b1) (c' := c') (b2 := b2) sz hsz hne hlen hi hc' hb, rest => by
      obtain ⟨g1, h1⟩ := skipItemsAcc hi (Spec.encodeLong c' ++ (b2 ++ rest))
      obtain ⟨g2, h2⟩ := skipBlocksAcc hb rest
      refine ⟨max g1 g2, ?_⟩
      intro k hk
      cases k with
      | zero => omega
      | succ k =>
        obtain ⟨e1, e2, e3⟩ := neg_count xs hne
        simp only [skipBlocksWith, e1, Bool.false_eq_true, ↓reduceIte, blockCount, e2, bind, Except.bind, pure,
          Except.pure, List.append_assoc, decode_spec sz hsz, e3]
        rw [lift_skipitems env (Nat.le_max_left g1 g2) s _ _ _ _ h1]
        simp only [decode_spec c' hc']
        have hk' : b2.length + 1 ≤ k := by
          simp only [List.length_append] at hk; have := enc_len_pos c'; omega
        exact lift_skipblocks env (Nat.le_max_right g1 g2) s _ _ _ _ _ (h2 k hk')
theorem skipItemsAcc {env : Env} : ∀ {s xs bs}, Items env s xs bs → ∀ rest,
    ∃ g, skipItemsWith (skipData g env s) false xs.length (bs ++ rest) = .ok rest
  | _, _, _, .nil, rest => ⟨0, by simp [skipItemsWith, pure, Except.pure]⟩
  | s, _, _, .cons (b1 := b1) (b2 := b2) he hi, rest => by
      obtain ⟨g1, h1⟩ := skipAccept he (b2 ++ rest)
      obtain ⟨g2, h2⟩ := skipItemsAcc hi rest
      refine ⟨max g1 g2, ?_⟩
      simp only [List.length_cons, skipItemsWith, List.append_assoc, Bool.false_eq_true, ↓reduceIte,
        bind, Except.bind, pure, Except.pure,
        skipData_mono_le env (Nat.le_max_left g1 g2) s _ _ h1,
        lift_skipitems env (Nat.le_max_right g1 g2) s _ _ _ _ h2]
theorem skipMapBlocksAcc {env : Env} : ∀ {s c es bs}, MapBlocks env s c es bs → ∀ rest,
    ∃ g, ∀ k, bs.length + 1 ≤ k → skipBlocksWith (skipData g env s) true k c (bs ++ rest) = .ok rest
  | _, _, _, _, .done, rest => by
      refine ⟨0, ?_⟩
      intro k hk
      cases k with
      | zero => omega
      | succ k => simp [skipBlocksWith, pure, Except.pure]
  | s, _, _, _, .pos (es := es) (b1 := b1) (c' := c') (b2 := b2) hne hlen hi hc' hb, rest => by
      obtain ⟨g1, h1⟩ := skipEntriesAcc hi (Spec.encodeLong c' ++ (b2 ++ rest))
      obtain ⟨g2, h2⟩ := skipMapBlocksAcc hb rest
      refine ⟨max g1 g2, ?_⟩
      intro k hk
      cases k with
      | zero => omega
      | succ k =>
        obtain ⟨e1, e2⟩ := nat_count_pos es hne
        simp only [skipBlocksWith, e1, Bool.false_eq_true, ↓reduceIte, blockCount, e2, bind, Except.bind, pure,
          Except.pure, Int.toNat_natCast, List.append_assoc]
        rw [lift_skipitems env (Nat.le_max_left g1 g2) s _ _ _ _ h1]
        simp only [decode_spec c' hc']
        have hk' : b2.length + 1 ≤ k := by
          simp only [List.length_append] at hk; have := enc_len_pos c'; omega
        exact lift_skipblocks env (Nat.le_max_right g1 g2) s _ _ _ _ _ (h2 k hk')
  | s, _, _, _, .neg (es := es) (b1 := b1) (c' := c') (b2 := b2) sz hsz hne hlen hi hc' hb, rest => by
      obtain ⟨g1, h1⟩ := skipEntriesAcc hi (Spec.encodeLong c' ++ (b2 ++ rest))
      obtain ⟨g2, h2⟩ := skipMapBlocksAcc hb rest
      refine ⟨max g1 g2, ?_⟩
      intro k hk
      cases k with
      | zero => omega
      | succ k =>
        obtain ⟨e1, e2, e3⟩ := neg_count es hne
        simp only [skipBlocksWith, e1, Bool.false_eq_true, ↓reduceIte, blockCount, e2, bind, Except.bind, pure,
          Except.pure, List.append_assoc, decode_spec sz hsz, e3]
        rw [lift_skipitems env (Nat.le_max_left g1 g2) s _ _ _ _ h1]
        simp only [decode_spec c' hc']
        have hk' : b2.length + 1 ≤ k := by
          simp only [List.length_append] at hk; have := enc_len_pos c'; omega
        exact lift_skipblocks env (Nat.le_max_right g1 g2) s _ _ _ _ _ (h2 k hk')
theorem skipEntriesAcc {env : Env} : ∀ {s es bs}, Entries env s es bs → ∀ rest,
    ∃ g, skipItemsWith (skipData g env s) true es.length (bs ++ rest) = .ok rest
  | _, _, _, .nil, rest => ⟨0, by simp [skipItemsWith, pure, Except.pure]⟩
  | s, _, _, .cons (k := k) (b1 := b1) (b2 := b2) hk he hi, rest => by
      obtain ⟨g1, h1⟩ := skipAccept he (b2 ++ rest)
      obtain ⟨g2, h2⟩ := skipEntriesAcc hi rest
      refine ⟨max g1 g2, ?_⟩
      have hkey : decUtf8Raw (Spec.encodeLong (utf8Enc k).length ++ (utf8Enc k ++ (b1 ++ (b2 ++ rest)))) =
          .ok (k, b1 ++ (b2 ++ rest)) := by
        simp [decUtf8Raw, lenPrefixed_decode (utf8Enc k) _ hk, bind, Except.bind, pure, Except.pure, utf8Dec_utf8Enc]
      simp only [List.length_cons, skipItemsWith, List.append_assoc, ↓reduceIte, hkey,
        bind, Except.bind, pure, Except.pure,
        skipData_mono_le env (Nat.le_max_left g1 g2) s _ _ h1,
        lift_skipitems env (Nat.le_max_right g1 g2) s _ _ _ _ h2]
theorem skipFieldsAcc {env : Env} : ∀ {fs es bs}, Fields env fs es bs → ∀ rest,
    ∃ g, skipFieldsWith (skipData g env) fs (bs ++ rest) = .ok rest
  | _, _, _, .nil, rest => ⟨0, by simp [skipFieldsWith, pure, Except.pure]⟩
  | _, _, _, .cons (f := f) (fs := fs) (b1 := b1) (b2 := b2) he hf, rest => by
      obtain ⟨g1, h1⟩ := skipAccept he (b2 ++ rest)
      obtain ⟨g2, h2⟩ := skipFieldsAcc hf rest
      refine ⟨max g1 g2, ?_⟩
      simp only [skipFieldsWith, List.append_assoc, bind, Except.bind,
        skipData_mono_le env (Nat.le_max_left g1 g2) f.type _ _ h1,
        lift_skipfields env (Nat.le_max_right g1 g2) fs _ _ h2]
end

end AcceptProofs
