/-
  Proofs/Rabin.lean — C14: the Python table-driven loop on unbounded ints equals the specification's
  64-bit fingerprint, which equals the bit-serial CRC (GF(2)-linearity of the step); hex output.
-/
import Model.Rabin
import Spec.Rabin

namespace RabinProofs
open Spec

theorem step_xor (a b : BitVec 64) : bitStep (a ^^^ b) = bitStep a ^^^ bitStep b := by
  unfold bitStep
  simp only [BitVec.ushiftRight_xor_distrib, BitVec.getLsbD_xor]
  cases a.getLsbD 0 <;> cases b.getLsbD 0 <;> simp
  · ac_rfl
  · ac_rfl
  · rw [show a >>> 1 ^^^ P64 ^^^ (b >>> 1 ^^^ P64) = (a >>> 1 ^^^ b >>> 1) ^^^ (P64 ^^^ P64) by ac_rfl]
    simp

theorem stepN_xor (n : Nat) (a b : BitVec 64) : bitStepN n (a ^^^ b) = bitStepN n a ^^^ bitStepN n b := by
  induction n generalizing a b with
  | zero => rfl
  | succ n ih => simp [bitStepN, step_xor, ih]

theorem stepN_shift (k : Nat) (x : BitVec 64) (h : ∀ i, i < k → x.getLsbD i = false) :
    bitStepN k x = x >>> k := by
  induction k generalizing x with
  | zero => simp [bitStepN]
  | succ k ih =>
    have h0 : x.getLsbD 0 = false := h 0 (by omega)
    have : bitStep x = x >>> 1 := by unfold bitStep; rw [h0]; simp
    rw [bitStepN, this, ih]
    · rw [← BitVec.shiftRight_add, Nat.add_comm]
    · intro i hi; rw [BitVec.getLsbD_ushiftRight]; exact h (1+i) (by omega)

theorem table_step (r b : BitVec 64) (hb : ∀ i, 8 ≤ i → b.getLsbD i = false) :
    bitStepN 8 (r ^^^ b) = (r >>> 8) ^^^ bitStepN 8 ((r ^^^ b) &&& 0xFF#64) := by
  have split : r ^^^ b = ((r ^^^ b) &&& ~~~0xFF#64) ^^^ ((r ^^^ b) &&& 0xFF#64) := by
    ext i hi
    simp only [BitVec.getElem_xor, BitVec.getElem_and, BitVec.getElem_not]
    cases (r[i] ^^ b[i]) <;> simp
  conv => lhs; rw [split, stepN_xor]
  congr 1
  rw [stepN_shift]
  · ext i hi
    simp only [BitVec.getElem_ushiftRight, BitVec.getLsbD_and, BitVec.getLsbD_xor, BitVec.getLsbD_not]
    have : b.getLsbD (8 + i) = false := hb _ (by omega)
    have h2 : (0xFF#64).getLsbD (8 + i) = false := by
      have : (0xFF#64) = BitVec.ofNat 64 (2^8 - 1) := rfl
      rw [this, BitVec.getLsbD_ofNat, Nat.testBit_two_pow_sub_one]; simp
    simp [this, h2]
    intro hr
    exact Nat.lt_of_not_le (fun hge => by
      have := BitVec.getLsbD_of_ge r (8 + i) hge
      simp [this] at hr)
  · intro i hi
    simp only [BitVec.getLsbD_and, BitVec.getLsbD_not]
    have : (0xFF#64).getLsbD i = true := by
      have : i = 0 ∨ i = 1 ∨ i = 2 ∨ i = 3 ∨ i = 4 ∨ i = 5 ∨ i = 6 ∨ i = 7 := by omega
      rcases this with h|h|h|h|h|h|h|h <;> subst h <;> decide
    simp [this]

theorem byteBV_high (b : UInt8) : ∀ i, 8 ≤ i → (byteBV b).getLsbD i = false := by
  intro i hi
  unfold byteBV
  rw [BitVec.getLsbD_ofNat]
  have : b.toNat < 2 ^ 8 := by have := b.toNat_lt; omega
  have : b.toNat.testBit i = false := Nat.testBit_lt_two_pow (Nat.lt_of_lt_of_le this (Nat.pow_le_pow_right (by omega) hi))
  simp [this]

/-- the table-driven fingerprint is the bit-serial CRC: no table entry and no shift amount can be
    wrong without breaking this identity -/
theorem fingerprint64_eq_bitSerial (bs : Bytes) : fingerprint64 bs = bitSerial bs := by
  unfold fingerprint64 bitSerial
  generalize P64 = init
  induction bs generalizing init with
  | nil => rfl
  | cons b bs ih =>
    simp only [List.foldl_cons]
    rw [ih]
    congr 1
    rw [table_step init (byteBV b) (byteBV_high b)]
    congr 1
    unfold tableEntry
    simp

/-! ### the Python loop on unbounded ints is the 64-bit computation -/

theorem table_agrees : ∀ i, i < 256 → Rabin.fpTable.getD i 0 = (tableEntry i).toNat := by
  have h : ((List.range 256).all fun i => Rabin.fpTable.getD i 0 == (tableEntry i).toNat) = true := by
    decide +kernel
  intro i hi
  have := List.all_eq_true.mp h i (List.mem_range.mpr hi)
  simpa using this

theorem step_agrees (r : BitVec 64) (b : UInt8) :
    Rabin.step r.toNat b = ((r >>> 8) ^^^ tableEntry (((r ^^^ byteBV b) &&& 0xFF#64).toNat)).toNat := by
  unfold Rabin.step
  have hidx : ((r ^^^ byteBV b) &&& 0xFF#64).toNat = (r.toNat ^^^ b.toNat) &&& 0xFF := by
    simp only [BitVec.toNat_and, BitVec.toNat_xor, byteBV, BitVec.toNat_ofNat]
    have : b.toNat % 2 ^ 64 = b.toNat := Nat.mod_eq_of_lt (by have := b.toNat_lt; omega)
    rw [this]
  have hlt : (r.toNat ^^^ b.toNat) &&& 0xFF < 256 := by
    have : (r.toNat ^^^ b.toNat) &&& 0xFF ≤ 0xFF := Nat.and_le_right
    omega
  rw [hidx, table_agrees _ hlt]
  simp [BitVec.toNat_xor, BitVec.toNat_ushiftRight]

/-- **C14 (core).** `rabin_fingerprint`'s loop on Python ints computes the specification's
    `fingerprint64` (in particular it never leaves the 64-bit range) -/
theorem rabin_eq_spec (bs : Bytes) : Rabin.rabin bs = (fingerprint64 bs).toNat := by
  unfold Rabin.rabin fingerprint64
  have h0 : Rabin.EMPTY64 = P64.toNat := by decide
  rw [h0]
  generalize P64 = init
  induction bs generalizing init with
  | nil => rfl
  | cons b bs ih =>
    simp only [List.foldl_cons]
    rw [step_agrees init b, ih]

theorem rabin_lt (bs : Bytes) : Rabin.rabin bs < 2 ^ 64 := by
  rw [rabin_eq_spec]; exact (fingerprint64 bs).isLt

/-! ### hex output -/

def unhexChar (c : Char) : Option Nat :=
  if '0' ≤ c ∧ c ≤ '9' then some (c.toNat - 48) else if 'a' ≤ c ∧ c ≤ 'f' then some (c.toNat - 87) else none

/-- reads lower-case hex, two digits per byte -/
def parseHex : List Char → Option Bytes
  | [] => some []
  | [_] => none
  | a :: b :: rest => do
    let x ← unhexChar a; let y ← unhexChar b; let r ← parseHex rest
    some (UInt8.ofNat (x * 16 + y) :: r)

theorem byte_hex_roundtrip : ∀ n, n < 256 →
    (match Rabin.hexByte (UInt8.ofNat n) with
     | [a, b] => (unhexChar a).bind fun x => (unhexChar b).map fun y => x * 16 + y
     | _ => none) = some n := by
  have h : ((List.range 256).all fun n =>
      (match Rabin.hexByte (UInt8.ofNat n) with
       | [a, b] => (unhexChar a).bind fun x => (unhexChar b).map fun y => x * 16 + y
       | _ => none) == some n) = true := by decide +kernel
  intro n hn
  have := List.all_eq_true.mp h n (List.mem_range.mpr hn)
  simpa using this

theorem parse_hexOfBytes (bs : Bytes) : parseHex (bs.flatMap Rabin.hexByte) = some bs := by
  induction bs with
  | nil => rfl
  | cons b bs ih =>
    have hb := byte_hex_roundtrip b.toNat (by have := b.toNat_lt; omega)
    have e : UInt8.ofNat b.toNat = b := by simp
    rw [e] at hb
    simp only [List.flatMap_cons]
    unfold Rabin.hexByte at hb ⊢
    simp only [List.cons_append, List.nil_append, parseHex]
    simp only at hb
    cases hx : unhexChar (Rabin.hexDigit (b.toNat / 16)) with
    | none => simp [hx] at hb
    | some x =>
      cases hy : unhexChar (Rabin.hexDigit (b.toNat % 16)) with
      | none => simp [hx, hy] at hb
      | some y =>
        simp only [hx, hy, Option.bind_some, Option.map_some, Option.some.injEq] at hb
        have ih' : parseHex (List.flatMap (fun b => [Rabin.hexDigit (b.toNat / 16), Rabin.hexDigit (b.toNat % 16)]) bs) = some bs := ih
        simp only [Option.bind_eq_bind, Option.bind_some, ih', hb, e]

/-- **C14 (hex).** the text is sixteen hex digits: the eight bytes of the fingerprint, least
    significant first, and it decodes back to the fingerprint -/
theorem hexLE8_spec (n : Nat) (h : n < 2 ^ 64) :
    (Rabin.hexLE8 n).toList.length = 16 ∧
    parseHex (Rabin.hexLE8 n).toList = some (Py.toBytesLE 8 n) ∧
    Py.fromBytesLE (Py.toBytesLE 8 n) = n := by
  unfold Rabin.hexLE8 Rabin.hexOfBytes
  refine ⟨?_, ?_, ?_⟩
  · simp [Py.toBytesLE, Rabin.hexByte]
  · simp only [String.toList_ofList]; exact parse_hexOfBytes _
  · have : ∀ k x, Py.fromBytesLE (Py.toBytesLE k x) = x % 256 ^ k := by
      intro k
      induction k with
      | zero => intro x; simp [Py.toBytesLE, Py.fromBytesLE, Nat.mod_one]
      | succ k ih =>
        intro x
        simp only [Py.toBytesLE, Py.fromBytesLE, ih]
        have h1 : (UInt8.ofNat (x % 256)).toNat = x % 256 := by simp
        rw [h1, Nat.pow_succ]
        have h2 : x % (256 ^ k * 256) = x % 256 + 256 * (x / 256 % 256 ^ k) := by
          rw [Nat.mul_comm (256 ^ k) 256, Nat.mod_mul]
        omega
    rw [this]; exact Nat.mod_eq_of_lt (by omega)

end RabinProofs
