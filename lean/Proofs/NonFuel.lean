import Model.Binary
import Proofs.Mono

/-!
  "non-fuel results are preserved": if `rd'` returns whatever non-fuel result `rd` returns, the block
  and entry loops built on `rd'` return whatever non-fuel result the loops built on `rd` return.
-/
namespace NonFuel
open Binary MonoProofs

/-- `x` is a definite result: not an out-of-fuel error -/
def Def {α} (x : R α) : Prop := x ≠ .error .fuel

/-- `g` refines `f`: every definite result of `f` is the result of `g` -/
def Refines {α β} (f g : α → R β) : Prop := ∀ a, Def (f a) → g a = f a

theorem bind_def {α β} (x : R α) (k : α → R β) (h : Def (x >>= k)) : Def x := by
  intro hx; apply h; rw [hx]; rfl

theorem bind_def_k {α β} (a : α) (x : R α) (k : α → R β) (hx : x = .ok a) (h : Def (x >>= k)) : Def (k a) := by
  rw [hx] at h; exact h

section
variable (rd rd' : Bytes → R (Val × Bytes)) (h : Refines rd rd')
include h

theorem items (n : Nat) : ∀ bs, Def (readItemsWith rd n bs) → readItemsWith rd' n bs = readItemsWith rd n bs := by
  induction n with
  | zero => intro bs _; rfl
  | succ n ih =>
    intro bs hd
    simp only [readItemsWith] at hd ⊢
    have h1 : Def (rd bs) := bind_def _ _ hd
    rw [h bs h1]
    cases hx : rd bs with
    | error e => rfl
    | ok r =>
      obtain ⟨x, b1⟩ := r
      have h2 : Def (readItemsWith rd n b1) := by
        have := bind_def_k (x, b1) (rd bs) _ hx hd
        exact bind_def _ _ this
      show (readItemsWith rd' n b1 >>= _) = (readItemsWith rd n b1 >>= _)
      rw [ih b1 h2]

theorem blocks (k : Nat) : ∀ c bs, Def (readBlocksWith rd k c bs) → readBlocksWith rd' k c bs = readBlocksWith rd k c bs := by
  induction k with
  | zero => intro c bs _; rfl
  | succ k ih =>
    intro c bs hd
    simp only [readBlocksWith] at hd ⊢
    split
    · rfl
    · rename_i hc
      simp only [hc, Bool.false_eq_true, if_false] at hd
      cases hbc : blockCount c bs with
      | error e => rfl
      | ok r1 =>
        obtain ⟨n, b1⟩ := r1
        simp only [hbc] at hd
        have hd1 : Def (readItemsWith rd n b1 >>= _) := hd
        have hi : Def (readItemsWith rd n b1) := bind_def _ _ hd1
        show (readItemsWith rd' n b1 >>= _) = (readItemsWith rd n b1 >>= _)
        rw [items rd rd' h n b1 hi]
        cases hx : readItemsWith rd n b1 with
        | error e => rfl
        | ok r2 =>
          obtain ⟨xs, b2⟩ := r2
          have hd2 := bind_def_k (xs, b2) _ _ hx hd1
          show (decodeLong b2 >>= _) = (decodeLong b2 >>= _)
          cases hl : decodeLong b2 with
          | error e => rfl
          | ok r3 =>
            obtain ⟨c', b3⟩ := r3
            have hd3 := bind_def_k (c', b3) _ _ hl hd2
            have hb : Def (readBlocksWith rd k c' b3) := bind_def _ _ hd3
            show (readBlocksWith rd' k c' b3 >>= _) = (readBlocksWith rd k c' b3 >>= _)
            rw [ih c' b3 hb]

theorem entries (n : Nat) : ∀ bs acc, Def (readEntriesWith rd n bs acc) →
    readEntriesWith rd' n bs acc = readEntriesWith rd n bs acc := by
  induction n with
  | zero => intro bs acc _; rfl
  | succ n ih =>
    intro bs acc hd
    simp only [readEntriesWith] at hd ⊢
    cases hk : decUtf8Raw bs with
    | error e => rfl
    | ok r1 =>
      obtain ⟨k, b1⟩ := r1
      have hd1 := bind_def_k (k, b1) _ _ hk hd
      have h1 : Def (rd b1) := bind_def _ _ hd1
      show (rd' b1 >>= _) = (rd b1 >>= _)
      rw [h b1 h1]
      cases hx : rd b1 with
      | error e => rfl
      | ok r2 =>
        obtain ⟨x, b2⟩ := r2
        have hd2 := bind_def_k (x, b2) _ _ hx hd1
        exact ih b2 _ hd2

theorem mapBlocks (k : Nat) : ∀ c bs acc, Def (readMapBlocksWith rd k c bs acc) →
    readMapBlocksWith rd' k c bs acc = readMapBlocksWith rd k c bs acc := by
  induction k with
  | zero => intro c bs acc _; rfl
  | succ k ih =>
    intro c bs acc hd
    simp only [readMapBlocksWith] at hd ⊢
    split
    · rfl
    · rename_i hc
      simp only [hc, Bool.false_eq_true, if_false] at hd
      cases hbc : blockCount c bs with
      | error e => rfl
      | ok r1 =>
        obtain ⟨n, b1⟩ := r1
        simp only [hbc] at hd
        have hd1 : Def (readEntriesWith rd n b1 acc >>= _) := hd
        have hi : Def (readEntriesWith rd n b1 acc) := bind_def _ _ hd1
        show (readEntriesWith rd' n b1 acc >>= _) = (readEntriesWith rd n b1 acc >>= _)
        rw [entries rd rd' h n b1 acc hi]
        cases hx : readEntriesWith rd n b1 acc with
        | error e => rfl
        | ok r2 =>
          obtain ⟨acc2, b2⟩ := r2
          have hd2 := bind_def_k (acc2, b2) _ _ hx hd1
          show (decodeLong b2 >>= _) = (decodeLong b2 >>= _)
          cases hl : decodeLong b2 with
          | error e => rfl
          | ok r3 =>
            obtain ⟨c', b3⟩ := r3
            have hd3 := bind_def_k (c', b3) _ _ hl hd2
            exact ih c' b3 acc2 hd3

end

section skip
variable (sk sk' : Bytes → R Bytes) (h : Refines sk sk')
include h

theorem skipItems (isMap : Bool) (n : Nat) : ∀ bs, Def (skipItemsWith sk isMap n bs) →
    skipItemsWith sk' isMap n bs = skipItemsWith sk isMap n bs := by
  induction n with
  | zero => intro bs _; rfl
  | succ n ih =>
    intro bs hd
    simp only [skipItemsWith] at hd ⊢
    cases hk : (if isMap = true then do let (_, r) ← decUtf8Raw bs; pure r else pure bs : R Bytes) with
    | error e => rfl
    | ok b1 =>
      have hd1 := bind_def_k b1 _ _ hk hd
      have h1 : Def (sk b1) := bind_def _ _ hd1
      show (sk' b1 >>= _) = (sk b1 >>= _)
      rw [h b1 h1]
      cases hx : sk b1 with
      | error e => rfl
      | ok b2 => exact ih b2 (bind_def_k b2 _ _ hx hd1)

theorem skipBlocks (isMap : Bool) (k : Nat) : ∀ c bs, Def (skipBlocksWith sk isMap k c bs) →
    skipBlocksWith sk' isMap k c bs = skipBlocksWith sk isMap k c bs := by
  induction k with
  | zero => intro c bs _; rfl
  | succ k ih =>
    intro c bs hd
    simp only [skipBlocksWith] at hd ⊢
    split
    · rfl
    · rename_i hc
      simp only [hc, Bool.false_eq_true, if_false] at hd
      cases hbc : blockCount c bs with
      | error e => rfl
      | ok r1 =>
        obtain ⟨n, b1⟩ := r1
        simp only [hbc] at hd
        have hd1 : Def (skipItemsWith sk isMap n b1 >>= _) := hd
        have hi : Def (skipItemsWith sk isMap n b1) := bind_def _ _ hd1
        show (skipItemsWith sk' isMap n b1 >>= _) = (skipItemsWith sk isMap n b1 >>= _)
        rw [skipItems sk sk' h isMap n b1 hi]
        cases hx : skipItemsWith sk isMap n b1 with
        | error e => rfl
        | ok b2 =>
          have hd2 := bind_def_k b2 _ _ hx hd1
          show (decodeLong b2 >>= _) = (decodeLong b2 >>= _)
          cases hl : decodeLong b2 with
          | error e => rfl
          | ok r3 =>
            obtain ⟨c', b3⟩ := r3
            exact ih c' b3 (bind_def_k (c', b3) _ _ hl hd2)

end skip

theorem skipFields (sk sk' : Schema → Bytes → R Bytes) (h : ∀ s, Refines (sk s) (sk' s)) (fs : List Field) :
    ∀ bs, Def (skipFieldsWith sk fs bs) → skipFieldsWith sk' fs bs = skipFieldsWith sk fs bs := by
  induction fs with
  | nil => intro bs _; rfl
  | cons f rest ih =>
    intro bs hd
    simp only [skipFieldsWith] at hd ⊢
    have h1 : Def (sk f.type bs) := bind_def _ _ hd
    rw [h f.type bs h1]
    cases hx : sk f.type bs with
    | error e => rfl
    | ok b1 => exact ih b1 (bind_def_k b1 _ _ hx hd)

/-- **more fuel never changes a definite result of `skip_data`** -/
theorem skipData_def (env : Env) (f : Nat) : ∀ s, Refines (skipData f env s) (skipData (f+1) env s) := by
  induction f with
  | zero => intro s bs hd; exact absurd rfl hd
  | succ f ih =>
    intro s bs hd
    cases s with
    | prim p d lt => rfl
    | fixed n sz lt al => rfl
    | enum n sy df al => rfl
    | array items =>
      simp only [skipData] at hd ⊢
      cases hl : decodeLong bs with
      | error e => rfl
      | ok r =>
        obtain ⟨c, rest⟩ := r
        simp only [hl] at hd
        exact skipBlocks _ _ (ih items) false _ c rest hd
    | map values =>
      simp only [skipData] at hd ⊢
      cases hl : decodeLong bs with
      | error e => rfl
      | ok r =>
        obtain ⟨c, rest⟩ := r
        simp only [hl] at hd
        exact skipBlocks _ _ (ih values) true _ c rest hd
    | union branches =>
      simp only [skipData] at hd ⊢
      cases hl : decodeLong bs with
      | error e => rfl
      | ok r =>
        obtain ⟨i, rest⟩ := r
        simp only [hl] at hd
        have hd' : Def (match indexChecked branches i with | none => (throw Err.index : R Bytes) | some b => skipData f env b rest) := hd
        show (match indexChecked branches i with | none => (throw Err.index : R Bytes) | some b => skipData (f+1) env b rest) =
             (match indexChecked branches i with | none => (throw Err.index : R Bytes) | some b => skipData f env b rest)
        cases hb : indexChecked branches i with
        | none => rfl
        | some b =>
          simp only [hb] at hd' ⊢
          exact ih b rest hd'
    | record n fields al =>
      simp only [skipData] at hd ⊢
      exact skipFields _ _ ih fields bs hd
    | ref n =>
      simp only [skipData] at hd ⊢
      cases hg : env.get? n with
      | none => rfl
      | some s' => simp only [hg] at hd ⊢; exact ih s' bs hd

end NonFuel
