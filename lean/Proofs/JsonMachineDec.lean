/-
  Proofs/JsonMachineDec.lean — the READ side of the push-down machine (fastavro/io/parser.py driven by `read_data`
  with AvroJSONDecoder: Model/JsonMachine.lean, `JM.mDecode` / `JM.decodeAll`) returns what the function-level
  reader (Model/Json.lean: `Json.decode`) returns.

  Plan of the proof
    * `runD`: the decoder's pending actions; `RecordEnd` pops a frame, `FieldEnd` / `UnionEnd` do nothing
      (`runD_noPop`); the iterators pop their own frame while closing actions are still pending, and the order of the
      pops does not matter (`runD_pop_comm`);
    * `At d j`: where the decoder finds the JSON value it is about to read — under the current key of the current
      object, or as the current value itself; `DEntry` / `DExit` / `After`: the situation before and after one value
      (stack, key, document queue as before; the other keys of the current object as before: `SameElse`);
    * one lemma per schema kind (`dleaf`, `dutf8`, `denum`, `darray` with the item loop `ditems`, `dmap` with
      `dentries`, `dunion` with the two `read_index` lemmas, `drecord` with `dfields`), assembled by induction on
      the nesting depth in `dsound_all`;
    * `decodeAll_sound`: a whole text — `drain_actions` between documents, the root symbol restarting the grammar;
    * `spec_fits`: the specification's JSON encodings have the shape (`Fits`) the lemmas ask of a document.

  Hypotheses, and why:  `Fits` — leaves are not objects, null is null, every field is present or — absent — has a default
  of the writer's shape for its type (`FieldVal`: the decoder then reads the default exactly as the function-level reader's
  `absentField` does, wrapped under the first branch's label when the field is a union; C15's absent-field clause against
  the SPECIFICATION's reading of a default is checked by the harness: findings F27, F31, F32), the null branch of a union
  is the one labelled "null";  `DOk` — field names distinct and the values of every map are `Flat` (no `RecordEnd`
  pending after them: primitives, enums, fixed, arrays, maps, unions of those) or `Rec1` (a record whose last field
  is flat: exactly its own `RecordEnd` is pending — `iter_map` then pops the frame `RecordStart` pushed, which holds
  the map object and the entry's key, and the pending `RecordEnd` later pops `iter_map`'s next frame: part D7b).
  A record value that ends in a record (two pops pending) makes `iter_map` delete from the wrong object: finding F28,
  `c15_machine_counterexample_map_of_nested_records`.  A union with a record branch as map value is excluded too: the
  functional model follows Python there only up to aliasing of the map object (it re-reads entries Python has
  already deleted, with the same result).
  `Small` — the model's loops carry an iteration bound of 1,000,000;  `nonEmptyRec`, `noSelf` as on the write side.
-/
import Proofs.JsonMachine
import Proofs.JsonBack

namespace JMDec
open JM Binary Json JMProofs JsonBack JsonProofs

/-! #### part D1: pending actions of the decoder -/

/-- executing a run of pending actions of the decoder, top first -/
def runD : List Sym → Dec → R Dec
  | [], d => .ok d
  | a :: as, d => match decAct a d with
    | .ok d' => runD as d'
    | .error x => .error x

theorem runD_append (xs ys : List Sym) (d : Dec) :
    runD (xs ++ ys) d = match runD xs d with | .ok d' => runD ys d' | .error x => .error x := by
  induction xs generalizing d with
  | nil => rfl
  | cons a as ih =>
    simp only [List.cons_append, runD]
    cases decAct a d with
    | error x => rfl
    | ok d' => exact ih d'

theorem advS_simpleD {a : Sym} (ha : simple a = true) (k : TK) (d : Dec) :
    advS decAct k a d = match decAct a d with | .ok d' => .ok (none, d') | .error x => .error x := by
  cases a <;> simp [simple] at ha <;> simp only [advS] <;> cases decAct _ d <;> rfl

theorem advL_actsD (k : TK) (acts ps : List Sym) (d d1 : Dec) (hs : ∀ a ∈ acts, simple a = true)
    (hr : runD acts d = .ok d1) : advL decAct k (acts ++ ps) d = advL decAct k ps d1 := by
  induction acts generalizing d with
  | nil => simp [runD] at hr; subst hr; rfl
  | cons a as ih =>
    simp only [List.cons_append, advL]
    rw [advS_simpleD (hs a (by simp))]
    simp only [runD] at hr
    cases h : decAct a d with
    | error x => rw [h] at hr; cases hr
    | ok d' =>
      rw [h] at hr
      simp only
      exact ih d' (fun b hb => hs b (by simp [hb])) hr

theorem advL_actsD' (k : TK) (acts ps : List Sym) (d : Dec) (hs : ∀ a ∈ acts, simple a = true) :
    advL decAct k (acts ++ ps) d = match runD acts d with
      | .ok d1 => advL decAct k ps d1
      | .error x => .error x := by
  induction acts generalizing d with
  | nil => rfl
  | cons a as ih =>
    simp only [List.cons_append, advL, runD]
    rw [advS_simpleD (hs a (by simp))]
    cases h : decAct a d with
    | error x => rfl
    | ok d' => simp only; exact ih d' (fun b hb => hs b (by simp [hb]))

/-- actions that can be pending after a value -/
def endAct : Sym → Bool
  | .fieldEnd | .unionEnd | .recordEnd => true
  | _ => false

/-- … of which these do nothing in the decoder -/
def noPop : Sym → Bool
  | .fieldEnd | .unionEnd => true
  | _ => false

theorem endAct_simple {a : Sym} (h : endAct a = true) : simple a = true := by
  cases a <;> simp [endAct] at h <;> rfl

theorem noPop_endAct {a : Sym} (h : noPop a = true) : endAct a = true := by
  cases a <;> simp [noPop] at h <;> rfl

theorem runD_noPop (acts : List Sym) (d : Dec) (h : ∀ a ∈ acts, noPop a = true) : runD acts d = .ok d := by
  induction acts with
  | nil => rfl
  | cons a as ih =>
    have ha := h a (by simp)
    have : decAct a d = .ok d := by cases a <;> simp [noPop] at ha <;> rfl
    simp only [runD, this]
    exact ih (fun b hb => h b (by simp [hb]))

/-- the iterators pop their frame while `RecordEnd` actions are still pending: the order does not matter -/
theorem runD_pop_comm (acts : List Sym) (h : ∀ a ∈ acts, endAct a = true) :
    ∀ (d d3 d4 : Dec), runD acts d = .ok d3 → d3.pop = .ok d4 → ∃ d', d.pop = .ok d' ∧ runD acts d' = .ok d4 := by
  induction acts with
  | nil =>
    intro d d3 d4 hr hp
    simp only [runD] at hr
    cases hr
    exact ⟨d4, hp, rfl⟩
  | cons a as ih =>
    intro d d3 d4 hr hp
    have ha := h a (by simp)
    have has : ∀ b ∈ as, endAct b = true := fun b hb => h b (by simp [hb])
    simp only [runD] at hr
    cases hda : decAct a d with
    | error x => rw [hda] at hr; cases hr
    | ok d1 =>
      rw [hda] at hr
      simp only at hr
      obtain ⟨d1', hp1, hr1⟩ := ih has d1 d3 d4 hr hp
      -- a is fieldEnd / unionEnd (identity) or recordEnd (pop)
      cases a <;> simp [endAct] at ha
      · -- unionEnd
        simp only [decAct] at hda; cases hda
        exact ⟨d1', hp1, by simp only [runD, decAct]; exact hr1⟩
      · -- recordEnd : d1 = pop d ; d1' = pop d1
        simp only [decAct] at hda
        -- d.pop = ok d1, d1.pop = ok d1'
        unfold Dec.pop at hda
        cases hst : d.stack with
        | nil => rw [hst] at hda; cases hda
        | cons f rest =>
          obtain ⟨c, k⟩ := f
          rw [hst] at hda
          cases hda
          unfold Dec.pop at hp1
          simp only at hp1
          cases hst2 : rest with
          | nil => rw [hst2] at hp1; cases hp1
          | cons f2 rest2 =>
            obtain ⟨c2, k2⟩ := f2
            rw [hst2] at hp1
            cases hp1
            refine ⟨{ d with stack := rest, current := c, key := k }, ?_, ?_⟩
            · unfold Dec.pop; rw [hst]
            · simp only [runD, decAct]
              unfold Dec.pop
              simp only [hst2]
              exact hr1
      · -- fieldEnd
        simp only [decAct] at hda; cases hda
        exact ⟨d1', hp1, by simp only [runD, decAct]; exact hr1⟩

/-! #### part D2: positions, entry and exit of the decoder -/

/-- the object is as it was, except possibly for the value under key `s` (`read_index` overwrites the union member
    it unwraps) -/
def SameElse (s : String) (kv kv' : List (Val × Val)) : Prop := kv' = kv ∨ ∃ x, kv' = valDictSet kv s x

theorem sameElse_refl (s : String) (kv : List (Val × Val)) : SameElse s kv kv := .inl rfl

theorem valDictSet_idem (kv : List (Val × Val)) (s : String) (a b : Val) :
    valDictSet (valDictSet kv s a) s b = valDictSet kv s b := by
  induction kv with
  | nil => simp [valDictSet]
  | cons e rest ih =>
    obtain ⟨k, x⟩ := e
    cases k with
    | str k' =>
      simp only [valDictSet]
      split
      · rename_i h; simp [valDictSet, h]
      · rename_i h; simp [valDictSet, h, ih]
    | _ => simp only [valDictSet]; rw [ih]

theorem sameElse_trans {s : String} {a b c : List (Val × Val)} (h1 : SameElse s a b) (h2 : SameElse s b c) : SameElse s a c := by
  rcases h1 with rfl | ⟨x, rfl⟩
  · exact h2
  · rcases h2 with rfl | ⟨y, rfl⟩
    · exact .inr ⟨x, rfl⟩
    · exact .inr ⟨y, valDictSet_idem a s x y⟩

theorem get_set_same (kv : List (Val × Val)) (s : String) (v : Val) : dictGetV (valDictSet kv s v) s = some v := by
  induction kv with
  | nil => simp [valDictSet, dictGetV]
  | cons e rest ih =>
    obtain ⟨k, x⟩ := e
    cases k with
    | str k' =>
      simp only [valDictSet]
      split
      · rename_i h; simp [dictGetV, h]
      · rename_i h; simp [dictGetV, h, ih]
    | _ => simp only [valDictSet, dictGetV]; exact ih

theorem get_set_other (kv : List (Val × Val)) (s t : String) (v : Val) (h : t ≠ s) :
    dictGetV (valDictSet kv s v) t = dictGetV kv t := by
  have hst : (s == t) = false := by simpa [beq_eq_false_iff_ne] using h.symm
  induction kv with
  | nil => simp [valDictSet, dictGetV, hst]
  | cons e rest ih =>
    obtain ⟨k, x⟩ := e
    cases k with
    | str k' =>
      simp only [valDictSet]
      split
      · rename_i hk
        have hks : k' = s := by simpa using hk
        subst hks
        simp [dictGetV, hst]
      · rename_i hk
        simp only [dictGetV]
        split
        · rfl
        · exact ih
    | _ => simp only [valDictSet, dictGetV]; exact ih

theorem sameElse_set (kv : List (Val × Val)) (s : String) (v : Val) : SameElse s kv (valDictSet kv s v) :=
  .inr ⟨v, rfl⟩

theorem sameElse_get {s : String} {kv kv' : List (Val × Val)} (h : SameElse s kv kv') (t : String) (ht : t ≠ s) :
    dictGetV kv' t = dictGetV kv t := by
  rcases h with rfl | ⟨x, rfl⟩
  · rfl
  · exact get_set_other kv s t x ht

/-- where the decoder finds the JSON value `j` it is about to read: under the current key of the current object,
    or as the current value itself (top of a document, item of an array, value of a union outside an object) -/
inductive AtV (d : Dec) (dflt : Option Val) (j : Val) : Prop
  | keyed (kv : List (Val × Val)) (s : String) : d.current = .dict kv → d.key = .str s → dictGetV kv s = some j → AtV d dflt j
  | direct : d.current = j → d.key = .none → AtV d dflt j
  /-- the key is absent from the current object and the symbol carries a default: the decoder reads the default -/
  | absent (kv : List (Val × Val)) (s : String) : d.current = .dict kv → d.key = .str s → dictGetV kv s = none → dflt = some j → AtV d dflt j

/-- the JSON value the function-level reader decodes for an absent field of type `t` with default `dv`
    (`Json.absentField`): the default, wrapped as a value of the first branch when `t` is a union -/
def absentWrap (env : Env) (t : Schema) (dv : Val) : Val :=
  match unwrapRef env t with
  | .union (b :: _) => if isNullBranch env b then dv else .dict [(.str (label b), dv)]
  | _ => dv

theorem absentField_eq (env : Env) (t : Schema) (dv : Val) : absentField env t (some dv) = .ok (absentWrap env t dv) := by
  unfold absentField absentWrap
  cases h : unwrapRef env t with
  | union bs => cases bs with
    | nil => rfl
    | cons b rest => simp only [pure, Except.pure]; split <;> rfl
  | _ => rfl

/-- the same, knowing the schema `s` of the value: in the absent case `j` is what the function-level reader makes of
    the default -/
inductive At (env : Env) (s : Schema) (d : Dec) (dflt : Option Val) (j : Val) : Prop
  | keyed (kv : List (Val × Val)) (k : String) : d.current = .dict kv → d.key = .str k → dictGetV kv k = some j → At env s d dflt j
  | direct : d.current = j → d.key = .none → At env s d dflt j
  | absent (kv : List (Val × Val)) (k : String) (dv : Val) : d.current = .dict kv → d.key = .str k → dictGetV kv k = none →
      dflt = some dv → j = absentWrap env s dv →
      (∀ b rest, unwrapRef env s = .union (b :: rest) → isNullBranch env b = true → dv = .none) → At env s d dflt j

/-- a value that is present (the two ordinary cases) -/
inductive AtP (d : Dec) (j : Val) : Prop
  | keyed (kv : List (Val × Val)) (s : String) : d.current = .dict kv → d.key = .str s → dictGetV kv s = some j → AtP d j
  | direct : d.current = j → d.key = .none → AtP d j

theorem AtP.toAt {d : Dec} {j : Val} (h : AtP d j) (env : Env) (s : Schema) (dflt : Option Val) : At env s d dflt j := by
  cases h with
  | keyed kv k hc hk hg => exact .keyed kv k hc hk hg
  | direct hc hk => exact .direct hc hk

theorem At.toV {env : Env} {s : Schema} {d : Dec} {dflt : Option Val} {j : Val} (h : At env s d dflt j)
    (hw : ∀ dv, absentWrap env s dv = dv) : AtV d dflt j := by
  cases h with
  | keyed kv k hc hk hg => exact .keyed kv k hc hk hg
  | direct hc hk => exact .direct hc hk
  | absent kv k dv hc hk hg hd hj _ => rw [hw dv] at hj; subst hj; exact .absent kv k hc hk hg hd

theorem At.retype {env : Env} {s s' : Schema} {d : Dec} {dflt : Option Val} {j : Val} (h : At env s d dflt j)
    (hu : unwrapRef env s = unwrapRef env s') : At env s' d dflt j := by
  cases h with
  | keyed kv k hc hk hg => exact .keyed kv k hc hk hg
  | direct hc hk => exact .direct hc hk
  | absent kv k dv hc hk hg hd hj hn =>
    exact .absent kv k dv hc hk hg hd (by rw [hj]; unfold absentWrap; rw [hu]) (by intro b rest h1 h2; exact hn b rest (hu ▸ h1) h2)

/-- the JSON value the function-level reader decodes for field `f` of an object `kv`: the value under the field's name, or —
    the key being absent — what `absentField` makes of the field's default (for a union whose first branch is null the
    default has to be null, as the specification requires of a default) -/
def FieldVal (env : Env) (kv : List (Val × Val)) (f : Field) (x : Val) : Prop :=
  dictGetV kv f.name = some x ∨
  (dictGetV kv f.name = none ∧ ∃ dv, f.default = some dv ∧ x = absentWrap env f.type dv ∧
    (∀ b rest, unwrapRef env f.type = .union (b :: rest) → isNullBranch env b = true → dv = .none))

theorem fieldVal_dec {env : Env} {kv : List (Val × Val)} {f : Field} {x : Val} (h : FieldVal env kv f x) :
    (match dictGetV kv f.name with
      | some x => (pure x : R Val)
      | none => absentField env f.type f.default) = .ok x := by
  rcases h with h | ⟨h, dv, hd, rfl, _⟩
  · rw [h]; rfl
  · rw [h, hd]; exact absentField_eq env f.type dv

theorem decFields_step {env : Env} {kv : List (Val × Val)} {fld : Field} {x : Val} (h : FieldVal env kv fld x)
    (g : Schema → Val → R Val) (rest : List Field) (acc : List (Val × Val)) :
    decFieldsWith env g (fld :: rest) kv acc =
      (match g fld.type x with
       | .ok a => decFieldsWith env g rest kv (valDictSet acc fld.name a)
       | .error e => .error e) := by
  rcases h with h | ⟨h, dv, hd, rfl, _⟩
  · simp only [decFieldsWith, h, bind, Except.bind, pure, Except.pure]
    cases g fld.type x <;> rfl
  · simp only [decFieldsWith, h, hd, absentField_eq, bind, Except.bind]
    cases g fld.type (absentWrap env fld.type dv) <;> rfl

theorem fieldVal_at {env : Env} {kvj kvR : List (Val × Val)} {f : Field} {x : Val} {dR : Dec} (h : FieldVal env kvj f x)
    (hcur : dR.current = .dict kvR) (hag : dictGetV kvR f.name = dictGetV kvj f.name) :
    At env f.type { dR with key := .str f.name } f.default x := by
  rcases h with h | ⟨h, dv, hd, hx, hn⟩
  · exact .keyed kvR f.name hcur rfl (by rw [hag]; exact h)
  · exact .absent kvR f.name dv hcur rfl (by rw [hag]; exact h) hd hx hn

/-- the decoder state after a value, compared with the state `d1` before it -/
structure After (d1 d3 : Dec) : Prop where
  stack : d3.stack = d1.stack
  key : d3.key = d1.key
  data : d3.data = d1.data
  done : d3.done = d1.done
  cur : ∀ kv s, d1.current = .dict kv → d1.key = .str s → ∃ kv', d3.current = .dict kv' ∧ SameElse s kv kv'

theorem after_refl (d : Dec) : After d d :=
  ⟨rfl, rfl, rfl, rfl, fun kv s h _ => ⟨kv, h, sameElse_refl s kv⟩⟩

structure DEntry (st : DS) (acts : List Sym) (G : Sym) (rest : List Sym) (d1 : Dec) : Prop where
  eqv : ∀ k, (k == TK.arrayEnd) = false → (k == TK.mapEnd) = false → ∀ d,
    advL decAct k st.ps d = advL decAct k (acts ++ G :: rest) d
  simp : ∀ a ∈ acts, simple a = true
  run : runD acts st.d = .ok d1

/-- after a value: pending actions `acts'` (closing actions only; none that pops when the value is `flat`) on top of
    `rest`; once executed the state is related to the state before the value by `After` -/
def DExit (st' : DS) (rest : List Sym) (d1 : Dec) (flat rec1 : Prop) : Prop :=
  ∃ acts', st'.ps = acts' ++ rest ∧ (∀ a ∈ acts', endAct a = true) ∧ (flat → ∀ a ∈ acts', noPop a = true) ∧
    (rec1 → ∃ np, acts' = np ++ [.recordEnd] ∧ ∀ a ∈ np, noPop a = true) ∧
    ∃ d3, runD acts' st'.d = .ok d3 ∧ After d1 d3

theorem dentry_actual (ps : List Sym) (d d1 : Dec) (acts : List Sym) (G : Sym) (rest : List Sym)
    (hps : ps = acts ++ G :: rest) (hs : ∀ a ∈ acts, simple a = true) (hr : runD acts d = .ok d1) :
    DEntry ⟨ps, d⟩ acts G rest d1 :=
  ⟨fun _ _ _ _ => by rw [hps], hs, hr⟩

theorem dentry_seq {st : DS} {acts : List Sym} {x : Sym} {prod rest : List Sym} {d1 : Dec}
    (h : DEntry st acts (.seq (x :: prod)) rest d1) : DEntry st acts x (prod ++ rest) d1 := by
  refine ⟨fun k h1 h2 e => ?_, h.simp, h.run⟩
  rw [h.eqv k h1 h2 e, advL_actsD' k acts _ e h.simp, advL_actsD' k acts _ e h.simp]
  cases runD acts e with
  | error x => rfl
  | ok e' => simp only; rw [advL_seq]; rfl

theorem dadv_term {st : DS} {acts : List Sym} {k : TK} {d : Option Val} {rest : List Sym} {d1 : Dec}
    (h : DEntry st acts (.term k d) rest d1) (h1 : (k == TK.arrayEnd) = false) (h2 : (k == TK.mapEnd) = false) :
    st.advance k = .ok (.term k d, ⟨rest, d1⟩) := by
  unfold DS.advance JM.advance
  rw [h.eqv k h1 h2, advL_actsD k acts _ st.d d1 h.simp h.run]
  simp [advL, advS]
  rfl

theorem dexit_now (rest : List Sym) (d1 : Dec) (flat rec1 : Prop) (hrec : rec1 → False) : DExit ⟨rest, d1⟩ rest d1 flat rec1 :=
  by
  refine ⟨[], rfl, ?_, ?_, fun h => (hrec h).elim, d1, rfl, after_refl d1⟩
  · intro a h; cases h
  · intro _ a h; cases h

/-- every list and object of the JSON value is shorter than the iteration bound of the model's loops -/
inductive Small : Val → Prop
  | dict (kv : List (Val × Val)) : kv.length < DFUEL → (∀ p ∈ kv, Small p.2) → Small (.dict kv)
  | list (xs : List Val) : xs.length < DFUEL → (∀ x ∈ xs, Small x) → Small (.list xs)
  | leaf (v : Val) : (∀ kv, v ≠ .dict kv) → (∀ xs, v ≠ .list xs) → Small v

/-- the JSON value has the shape the writer produces for the schema: leaves are not objects, null is null, every
    field of a record is present, the null branch of a union is the one labelled "null" -/
def Fits (env : Env) : Nat → Schema → Val → Prop
  | 0, _, _ => False
  | fuel+1, s, j =>
    match s with
    | .prim .null _ _ => j = .none
    | .prim _ _ _ => ∀ kv, j ≠ .dict kv
    | .fixed _ _ _ _ => True
    | .enum _ _ _ _ => True
    | .array items => ∀ xs, j = .list xs → ∀ x ∈ xs, Fits env fuel items x
    | .map values => ∀ kv, j = .dict kv → ∀ p ∈ kv, Fits env fuel values p.2
    | .union bs =>
      (j = .none → ∀ i, indexOf? (bs.map label) "null" = some i → bs[i]? = bs.find? (isNullBranch env)) ∧
      (∀ b, j = .none → bs.find? (isNullBranch env) = some b → Fits env fuel b .none) ∧
      (∀ l x b, j = .dict [(.str l, x)] → findLabel env bs l = some b → Fits env fuel b x)
    | .record _ fields _ =>
      ∀ kv, j = .dict kv → ∀ f ∈ fields, ∃ x, FieldVal env kv f x ∧ Fits env fuel f.type x ∧
        (dictGetV kv f.name = none → KeysOk x ∧ Small x)
    | .ref n => ∀ s', env.get? n = some s' → Fits env fuel s' j

mutual
/-- no pop is pending after a value of this type -/
inductive Flat (env : Env) : Schema → Prop
  | prim (p df lt) : Flat env (.prim p df lt)
  | fixed (n sz lt al) : Flat env (.fixed n sz lt al)
  | enum (n syms d al) : Flat env (.enum n syms d al)
  | array (items) : Flat env (.array items)
  | map (values) : Flat env (.map values)
  | union (bs) : (∀ b ∈ bs, Flat env b) → Flat env (.union bs)
  | ref (n s') : env.get? n = some s' → Flat env s' → Flat env (.ref n)
end

/-- a record (possibly by name) whose last field is flat: exactly one pop — its own `RecordEnd` — is pending after it -/
inductive Rec1 (env : Env) : Schema → Prop
  | record (n fields al) : (∀ f, fields.getLast? = some f → Flat env f.type) → Rec1 env (.record n fields al)
  | ref (n s') : env.get? n = some s' → Rec1 env s' → Rec1 env (.ref n)

/-- the map values of the schema are flat, or records whose last field is flat (finding F28 is about the others),
    field names are distinct -/
inductive DOk (env : Env) : Schema → Prop
  | prim (p df lt) : DOk env (.prim p df lt)
  | fixed (n sz lt al) : DOk env (.fixed n sz lt al)
  | enum (n syms d al) : DOk env (.enum n syms d al)
  | array (items) : DOk env items → DOk env (.array items)
  | map (values) : DOk env values → (Flat env values ∨ Rec1 env values) → DOk env (.map values)
  | union (bs) : (∀ b ∈ bs, DOk env b) → DOk env (.union bs)
  | record (n fields al) : (fields.map Field.name).Nodup → (∀ f ∈ fields, DOk env f.type) → DOk env (.record n fields al)
  | ref (n s') : env.get? n = some s' → DOk env s' → DOk env (.ref n)

/-! #### part D3: leaves -/

/-- the machine's traversal of one value returns what the function-level reader returns, for fuel `fuel` -/
def DSound (env : Env) (fuel : Nat) : Prop :=
  ∀ (s : Schema) (j w : Val), Json.decode fuel env s j = .ok w → Fits env fuel s j → KeysOk j → Small j →
  ∀ (d : Option Val) (G : Sym), Gram env s d G → nonEmptyRec s = true → DOk env s →
  ∀ (st : DS) (acts rest : List Sym) (d1 : Dec), DEntry st acts G rest d1 → restOk rest → At env s d1 d j →
    ∃ st', mDecode fuel env s st = .ok (w, st') ∧ DExit st' rest d1 (Flat env s) (Rec1 env s)

theorem readValue_at {d1 : Dec} {j : Val} {dflt : Option Val} (hat : AtV d1 dflt j) (hnd : ∀ kv, j ≠ .dict kv) :
    d1.readValue dflt = .ok j := by
  unfold Dec.readValue
  cases hat with
  | keyed kv s hc hk hg => rw [hc]; simp only [hk, dictGetKey, hg]
  | direct hc hk =>
    rw [hc]
    cases j <;> first | rfl | (exact absurd rfl (hnd _))
  | absent kv s hc hk hg hd => rw [hc]; simp only [hk, dictGetKey, hg, hd, getDefault]

theorem dleaf {st : DS} {acts rest : List Sym} {d1 : Dec} {k : TK} {dflt : Option Val} {j : Val}
    (hE : DEntry st acts (.term k dflt) rest d1) (h1 : (k == TK.arrayEnd) = false) (h2 : (k == TK.mapEnd) = false)
    (hat : AtV d1 dflt j) (hnd : ∀ kv, j ≠ .dict kv) :
    st.readLeaf k = .ok (j, ⟨rest, d1⟩) := by
  unfold DS.readLeaf
  rw [dadv_term hE h1 h2]
  simp only [bind, Except.bind, symDefault, readValue_at hat hnd]
  rfl

theorem dutf8 {st : DS} {acts rest : List Sym} {d1 : Dec} {dflt : Option Val} {j : Val}
    (hE : DEntry st acts (.term .string dflt) rest d1) (hr : restOk rest)
    (hat : AtV d1 dflt j) (hnd : ∀ kv, j ≠ .dict kv) :
    st.readUtf8 = .ok (j, ⟨rest, d1⟩) := by
  obtain ⟨top, tl, rfl, htop⟩ := hr
  unfold DS.readUtf8
  rw [dadv_term hE rfl rfl]
  simp only [bind, Except.bind, htop, symDefault, readValue_at hat hnd]
  rfl

theorem contains_indexOf (xs : List String) (x : String) (h : xs.contains x = true) : ∃ i, indexOf? xs x = some i ∧ xs[i]? = some x := by
  have hmem : x ∈ xs := by simpa using h
  have hlt : xs.findIdx (· == x) < xs.length := List.findIdx_lt_length_of_exists ⟨x, hmem, by simp⟩
  refine ⟨xs.findIdx (· == x), ?_, ?_⟩
  · unfold indexOf?; simp [hlt]
  · exact indexOf_get xs x _ (by unfold indexOf?; simp [hlt])

theorem denum {st : DS} {acts rest : List Sym} {d1 : Dec} {dflt : Option Val} {syms : List String} {x : String} {i : Nat}
    (hE : DEntry st acts (.seq [.term .enum dflt, .enumLabels syms]) rest d1) (hi : indexOf? syms x = some i)
    (hat : AtV d1 dflt (.str x)) :
    st.readEnum = .ok (i, ⟨rest, d1⟩) := by
  unfold DS.readEnum
  rw [dadv_term (dentry_seq hE) rfl rfl]
  simp only [bind, Except.bind, List.cons_append, List.nil_append, symDefault,
    readValue_at hat (by intro kv h; cases h), pure, Except.pure, hi]

/-! #### part D4: arrays -/

theorem pushAdjust_at {d1 : Dec} {j : Val} {dflt : Option Val} (hat : AtV d1 dflt j) :
    d1.pushAdjust dflt = .ok { d1 with stack := (d1.current, d1.key) :: d1.stack, current := j } := by
  unfold Dec.pushAdjust Dec.push
  cases hat with
  | keyed kv s hc hk hg => simp only [hc, hk, hg]
  | direct hc hk =>
    subst hc
    rw [hk]
    split
    · rename_i h1 h2; cases h2
    · rfl
  | absent kv s hc hk hg hd => simp only [hc, hk, hg, hd, getDefault, bind, Except.bind, pure, Except.pure]

structure ArrSt (st : DS) (rest : List Sym) (I : Sym) (fr : List (Val × Val)) (xs : List Val)
    (data : List Val) (done : Bool) : Prop where
  ps : st.ps = .rep .arrayEnd [I, .term .itemEnd none] :: rest
  stack : st.d.stack = fr
  cur : st.d.current = .list xs
  key : st.d.key = .none
  data : st.d.data = data
  done : st.d.done = done

theorem ditems (env : Env) (fuel : Nat) (IH : DSound env fuel)
    (items : Schema) (I : Sym) (hG : Gram env items none I) (hne : nonEmptyRec items = true) (hok : DOk env items)
    (rest : List Sym) (fr : List (Val × Val)) (data : List Val) (done : Bool) :
    ∀ (xs ws : List Val), decItemsWith (Json.decode fuel env items) xs = .ok ws →
    (∀ x ∈ xs, Fits env fuel items x ∧ KeysOk x ∧ Small x) →
    ∀ (n : Nat), xs.length < n → ∀ (st : DS) (acc : List Val), ArrSt st rest I fr xs data done →
    ∃ st', mArrayLoop (mDecode fuel env items) n st acc = .ok (acc ++ ws, st') ∧ ArrSt st' rest I fr [] data done := by
  intro xs
  induction xs with
  | nil =>
    intro ws h _ n hn st acc hst
    simp [decItemsWith, pure, Except.pure] at h
    subst h
    cases n with
    | zero => cases hn
    | succ n =>
      refine ⟨st, ?_, hst⟩
      simp only [mArrayLoop, hst.cur, pure, Except.pure, List.append_nil]
  | cons x xs ih =>
    intro ws h hall n hn st acc hst
    cases n with
    | zero => cases hn
    | succ n =>
    simp only [decItemsWith, bind, Except.bind] at h
    cases hx : Json.decode fuel env items x with
    | error err => rw [hx] at h; cases h
    | ok a =>
      rw [hx] at h
      simp only at h
      cases hxs : decItemsWith (Json.decode fuel env items) xs with
      | error err => rw [hxs] at h; cases h
      | ok b =>
        rw [hxs] at h
        simp only [pure, Except.pure] at h
        cases h
        obtain ⟨hfx, hkx, hsx⟩ := hall x (by simp)
        -- the item
        let d : Dec := { st.d with stack := (.list xs, st.d.key) :: st.d.stack, current := x }
        have hE : DEntry ⟨st.ps, d⟩ [] I (.term .itemEnd none :: .rep .arrayEnd [I, .term .itemEnd none] :: rest) d := by
          refine ⟨fun k h1 _ e => ?_, ?_, rfl⟩
          · show advL decAct k st.ps e = _
            rw [hst.ps]
            exact advL_rep decAct k .arrayEnd _ rest e (by simpa [BEq.comm] using h1)
              (advL_body_not_none decAct k [I] .itemEnd none [] e)
          · intro a h; cases h
        have hat : At env items d none x := .direct rfl hst.key
        obtain ⟨st1, hm, acts', hps1, hend1, _, _, d3, hr1, haf⟩ :=
          IH items x a hx hfx hkx hsx none I hG hne hok ⟨st.ps, d⟩ [] _ d hE ⟨_, _, rfl, rfl⟩ hat
        -- the iterator's pop, then ItemEnd
        have hpop3 : d3.pop = .ok { d3 with stack := fr, current := .list xs, key := .none } := by
          have hd3 : d3.stack = (.list xs, .none) :: fr := by
            rw [haf.stack]
            show (Val.list xs, st.d.key) :: st.d.stack = _
            rw [hst.key, hst.stack]
          unfold Dec.pop
          rw [hd3]
        obtain ⟨dp, hpop, hrp⟩ := runD_pop_comm acts' hend1 st1.d d3 _ hr1 hpop3
        have hE2 : DEntry ⟨st1.ps, dp⟩ acts' (.term .itemEnd none) (.rep .arrayEnd [I, .term .itemEnd none] :: rest)
            { d3 with stack := fr, current := .list xs, key := .none } :=
          dentry_actual st1.ps dp _ acts' _ _ hps1 (fun a ha => endAct_simple (hend1 a ha)) hrp
        have hadv := dadv_term hE2 rfl rfl
        have hst2 : ArrSt ⟨.rep .arrayEnd [I, .term .itemEnd none] :: rest, { d3 with stack := fr, current := .list xs, key := .none }⟩
            rest I fr xs data done :=
          ⟨rfl, rfl, rfl, rfl, by show d3.data = data; rw [haf.data]; exact hst.data,
            by show d3.done = done; rw [haf.done]; exact hst.done⟩
        obtain ⟨st3, hm3, hst3⟩ := ih b hxs (fun y hy => hall y (by simp [hy])) n (by simpa using hn) _ (acc ++ [a]) hst2
        refine ⟨st3, ?_, hst3⟩
        simp only [mArrayLoop, hst.cur, bind, Except.bind]
        rw [show mDecode fuel env items ⟨st.ps, ⟨(Val.list xs, st.d.key) :: st.d.stack, x, st.d.key, st.d.data, st.d.done⟩⟩ = .ok (a, st1) from hm]
        simp only [hpop, hadv]
        rw [hm3]
        simp [List.append_assoc]

/-! #### part D5: arrays (assembly) -/

theorem dexit_of (rest : List Sym) (d1 d3 : Dec) (flat rec1 : Prop) (hrec : rec1 → False) (h : After d1 d3) :
    DExit ⟨rest, d3⟩ rest d1 flat rec1 := by
  refine ⟨[], rfl, ?_, ?_, fun h => (hrec h).elim, d3, rfl, h⟩
  · intro a h; cases h
  · intro _ a h; cases h

theorem dadv_rep_end (e : TK) (body rest : List Sym) (d : Dec) :
    DS.advance ⟨.rep e body :: rest, d⟩ e = .ok (.term e none, ⟨rest, d⟩) := by
  unfold DS.advance JM.advance
  simp [advL, advS, bind, Except.bind, pure, Except.pure]

theorem darray (env : Env) (fuel : Nat) (IH : DSound env fuel)
    (items : Schema) (dflt : Option Val) (I : Sym) (hG : Gram env items none I) (hne : nonEmptyRec items = true)
    (hok : DOk env items) (xs ws : List Val) (hdec : decItemsWith (Json.decode fuel env items) xs = .ok ws)
    (hall : ∀ x ∈ xs, Fits env fuel items x ∧ KeysOk x ∧ Small x) (hlen : xs.length < DFUEL)
    (st : DS) (acts rest : List Sym) (d1 : Dec)
    (hE : DEntry st acts (.seq [.term .arrayStart dflt, .rep .arrayEnd [I, .term .itemEnd none]]) rest d1)
    (hat : AtV d1 dflt (.list xs)) (flat rec1 : Prop) (hrec : rec1 → False) :
    ∃ st', mDecode (fuel+1) env (.array items) st = .ok (.list ws, st') ∧ DExit st' rest d1 flat rec1 := by
  have hstart : st.arrayStart = .ok ⟨.rep .arrayEnd [I, .term .itemEnd none] :: rest,
      { d1 with stack := (d1.current, d1.key) :: d1.stack, current := .list xs, key := .none }⟩ := by
    unfold DS.arrayStart
    rw [dadv_term (dentry_seq hE) rfl rfl]
    simp only [bind, Except.bind, symDefault, pushAdjust_at hat, pure, Except.pure]
    rfl
  have hst2 : ArrSt ⟨.rep .arrayEnd [I, .term .itemEnd none] :: rest,
      { d1 with stack := (d1.current, d1.key) :: d1.stack, current := .list xs, key := .none }⟩ rest I
      ((d1.current, d1.key) :: d1.stack) xs d1.data d1.done := ⟨rfl, rfl, rfl, rfl, rfl, rfl⟩
  obtain ⟨st3, hloop, hst3⟩ := ditems env fuel IH items I hG hne hok rest ((d1.current, d1.key) :: d1.stack) d1.data d1.done
    xs ws hdec hall DFUEL hlen _ [] hst2
  have hend : st3.arrayEnd = .ok ⟨rest, { st3.d with stack := d1.stack, current := d1.current, key := d1.key }⟩ := by
    unfold DS.arrayEnd
    have : st3 = ⟨.rep .arrayEnd [I, .term .itemEnd none] :: rest, st3.d⟩ := by
      cases st3 with
      | mk ps d => have hps : ps = _ := hst3.ps; subst hps; rfl
    rw [this, dadv_rep_end]
    simp only [bind, Except.bind, Dec.pop, hst3.stack, pure, Except.pure]
  refine ⟨⟨rest, { st3.d with stack := d1.stack, current := d1.current, key := d1.key }⟩, ?_,
    dexit_of rest d1 { st3.d with stack := d1.stack, current := d1.current, key := d1.key } flat rec1 hrec
      ⟨rfl, rfl, hst3.data, hst3.done, fun kv s h _ => ⟨kv, h, sameElse_refl s kv⟩⟩⟩
  simp only [mDecode, bind, Except.bind, hstart, hloop, hend, pure, Except.pure, List.nil_append]

/-! #### part D6: maps with flat values -/

theorem dadv_head_term (k : TK) (dflt : Option Val) (tl : List Sym) (d : Dec) :
    DS.advance ⟨.term k dflt :: tl, d⟩ k = .ok (.term k dflt, ⟨tl, d⟩) := by
  unfold DS.advance JM.advance
  simp [advL, advS, bind, Except.bind, pure, Except.pure]

theorem dadv_rep_end_acts (e : TK) (pa body rest : List Sym) (d : Dec) (hpa : ∀ a ∈ pa, noPop a = true) :
    DS.advance ⟨pa ++ .rep e body :: rest, d⟩ e = .ok (.term e none, ⟨rest, d⟩) := by
  unfold DS.advance JM.advance
  simp only
  rw [advL_actsD e pa _ d d (fun a ha => endAct_simple (noPop_endAct (hpa a ha))) (runD_noPop pa d hpa)]
  simp [advL, advS, bind, Except.bind, pure, Except.pure]

theorem filter_first (k : String) (x : Val) (M : List (Val × Val)) (hstr : ∀ p ∈ M, ∃ s, p.1 = Val.str s)
    (hnd : (dictKeys ((.str k, x) :: M)).Nodup) :
    ((Val.str k, x) :: M).filter (fun e => !(e.1.strEq k)) = M := by
  have hnd' : (k :: dictKeys M).Nodup := hnd
  have hk : k ∉ dictKeys M := (List.nodup_cons.mp hnd').1
  simp only [List.filter, Val.strEq, beq_self_eq_true, Bool.not_true]
  rw [List.filter_eq_self]
  intro p hp
  obtain ⟨s, hs⟩ := hstr p hp
  obtain ⟨pk, pv⟩ := p
  simp only at hs
  subst hs
  simp only [Val.strEq, Bool.not_eq_true', beq_eq_false_iff_ne, ne_eq]
  intro h
  subst h
  apply hk
  unfold dictKeys
  simp only [List.mem_filterMap]
  exact ⟨(.str s, pv), hp, rfl⟩

structure MapSt (st : DS) (rest : List Sym) (V : Sym) (fr : List (Val × Val)) (M : List (Val × Val))
    (data : List Val) (done : Bool) : Prop where
  ps : ∃ pa, st.ps = pa ++ .rep .mapEnd [.term .string none, .term .mapKeyMarker none, V] :: rest ∧ ∀ a ∈ pa, noPop a = true
  stack : st.d.stack = fr
  cur : st.d.current = .dict M
  data : st.d.data = data
  done : st.d.done = done

theorem dentries (env : Env) (fuel : Nat) (IH : DSound env fuel)
    (values : Schema) (V : Sym) (hG : Gram env values none V) (hne : nonEmptyRec values = true) (hok : DOk env values)
    (hflat : Flat env values) (rest : List Sym) (fr : List (Val × Val)) (data : List Val) (done : Bool) :
    ∀ (M acc ws : List (Val × Val)), decEntriesWith (Json.decode fuel env values) M acc = .ok ws →
    (∀ p ∈ M, ∃ s, p.1 = Val.str s) → (dictKeys M).Nodup →
    (∀ p ∈ M, Fits env fuel values p.2 ∧ KeysOk p.2 ∧ Small p.2) →
    ∀ (n : Nat), M.length < n → ∀ (st : DS), MapSt st rest V fr M data done →
    ∃ st', mMapLoop (mDecode fuel env values) n st acc = .ok (ws, st') ∧ MapSt st' rest V fr [] data done := by
  intro M
  induction M with
  | nil =>
    intro acc ws h _ _ _ n hn st hst
    simp [decEntriesWith, pure, Except.pure] at h
    subst h
    cases n with
    | zero => cases hn
    | succ n =>
      refine ⟨st, ?_, hst⟩
      simp only [mMapLoop, hst.cur, pure, Except.pure]
  | cons e M ih =>
    intro acc ws h hstr hnd hall n hn st hst
    cases n with
    | zero => cases hn
    | succ n =>
    obtain ⟨k0, x0⟩ := e
    obtain ⟨k, hk0⟩ := hstr (k0, x0) (by simp)
    simp only at hk0
    subst hk0
    simp only [decEntriesWith, bind, Except.bind] at h
    cases hx : Json.decode fuel env values x0 with
    | error err => rw [hx] at h; cases h
    | ok a =>
      rw [hx] at h
      simp only at h
      obtain ⟨hfx, hkx, hsx⟩ := hall (.str k, x0) (by simp)
      simp only at hfx hkx hsx
      obtain ⟨pa, hps, hpa⟩ := hst.ps
      -- iter_map pushes a frame; read_utf8 advances to the key
      let body : List Sym := [.term .string none, .term .mapKeyMarker none, V]
      have hE1 : DEntry ⟨st.ps, st.d.push⟩ pa (.term .string none) (.term .mapKeyMarker none :: V :: .rep .mapEnd body :: rest) st.d.push := by
        refine ⟨fun kk h1 h2 e => ?_, fun a ha => endAct_simple (noPop_endAct (hpa a ha)), runD_noPop pa _ hpa⟩
        show advL decAct kk st.ps e = _
        rw [hps, advL_actsD' kk pa _ e (fun a ha => endAct_simple (noPop_endAct (hpa a ha))),
          advL_actsD' kk pa _ e (fun a ha => endAct_simple (noPop_endAct (hpa a ha)))]
        cases runD pa e with
        | error x => rfl
        | ok e' =>
          simp only
          exact advL_rep decAct kk .mapEnd body rest e' (by simpa [BEq.comm] using h2)
            (advL_body_not_none decAct kk [] .string none _ e')
      have hadv1 := dadv_term hE1 rfl rfl
      have hutf : DS.readUtf8 ⟨st.ps, st.d.push⟩ = .ok (.str k, ⟨V :: .rep .mapEnd body :: rest, { st.d.push with key := .str k }⟩) := by
        unfold DS.readUtf8
        rw [hadv1]
        simp only [bind, Except.bind, Sym.isTerm, beq_self_eq_true, if_true, dadv_head_term]
        simp only [Dec.push, hst.cur, pure, Except.pure]
      -- the value
      have hE2 : DEntry ⟨V :: .rep .mapEnd body :: rest, { st.d.push with key := .str k }⟩ [] V (.rep .mapEnd body :: rest)
          { st.d.push with key := .str k } :=
        dentry_actual _ _ _ [] V _ rfl (by intro a h; cases h) rfl
      have hat : At env values { st.d.push with key := .str k } none x0 :=
        .keyed ((.str k, x0) :: M) k (by simp only [Dec.push]; exact hst.cur) rfl (by simp [dictGetV])
      obtain ⟨st1, hm, acts', hps1, hend1, hnp1, _, d3, hr1, haf⟩ :=
        IH values x0 a hx hfx hkx hsx none V hG hne hok _ [] _ _ hE2 ⟨_, _, rfl, rfl⟩ hat
      have hnp := hnp1 hflat
      have hd3 : d3 = st1.d := by
        have := runD_noPop acts' st1.d hnp
        rw [this] at hr1; cases hr1; rfl
      subst hd3
      have hstk : st1.d.stack = (.dict ((.str k, x0) :: M), st.d.key) :: fr := by
        rw [haf.stack]; simp only [Dec.push, hst.cur, hst.stack]
      have hpop : st1.d.pop = .ok { st1.d with stack := fr, current := .dict ((.str k, x0) :: M), key := st.d.key } := by
        unfold Dec.pop; rw [hstk]
      have hst2 : MapSt ⟨st1.ps, { st1.d with stack := fr, current := .dict M, key := st.d.key }⟩ rest V fr M data done :=
        ⟨⟨acts', hps1, hnp⟩, rfl, rfl, by show st1.d.data = data; rw [haf.data]; exact hst.data,
          by show st1.d.done = done; rw [haf.done]; exact hst.done⟩
      obtain ⟨st3, hm3, hst3⟩ := ih (valDictSet acc k a) ws h (fun p hp => hstr p (by simp [hp]))
        (by have hnd' : (k :: dictKeys M).Nodup := hnd; exact (List.nodup_cons.mp hnd').2)
        (fun p hp => hall p (by simp [hp])) n (by simpa using hn) _ hst2
      refine ⟨st3, ?_, hst3⟩
      simp only [mMapLoop, hst.cur, bind, Except.bind]
      rw [show DS.readUtf8 ⟨st.ps, st.d.push⟩ = _ from hutf]
      simp only
      rw [hm]
      simp only [hpop, dictGetV, beq_self_eq_true, if_true, Option.isSome_some, pure, Except.pure,
        filter_first k x0 M (fun p hp => hstr p (by simp [hp])) hnd]
      exact hm3

/-! #### part D7: maps (assembly) -/

theorem dmap (env : Env) (fuel : Nat) (IH : DSound env fuel)
    (values : Schema) (dflt : Option Val) (V : Sym) (hG : Gram env values none V) (hne : nonEmptyRec values = true)
    (hok : DOk env values) (hflat : Flat env values)
    (M ws : List (Val × Val)) (hdec : decEntriesWith (Json.decode fuel env values) M [] = .ok ws)
    (hstr : ∀ p ∈ M, ∃ s, p.1 = Val.str s) (hnd : (dictKeys M).Nodup)
    (hall : ∀ p ∈ M, Fits env fuel values p.2 ∧ KeysOk p.2 ∧ Small p.2) (hlen : M.length < DFUEL)
    (st : DS) (acts rest : List Sym) (d1 : Dec)
    (hE : DEntry st acts (.seq [.term .mapStart dflt, .rep .mapEnd [.term .string none, .term .mapKeyMarker none, V]]) rest d1)
    (hat : AtV d1 dflt (.dict M)) (flat rec1 : Prop) (hrec : rec1 → False) :
    ∃ st', mDecode (fuel+1) env (.map values) st = .ok (.dict ws, st') ∧ DExit st' rest d1 flat rec1 := by
  have hstart : st.mapStart = .ok ⟨.rep .mapEnd [.term .string none, .term .mapKeyMarker none, V] :: rest,
      { d1 with stack := (d1.current, d1.key) :: d1.stack, current := .dict M }⟩ := by
    unfold DS.mapStart
    rw [dadv_term (dentry_seq hE) rfl rfl]
    simp only [bind, Except.bind, symDefault, pushAdjust_at hat, pure, Except.pure]
    rfl
  have hst2 : MapSt ⟨.rep .mapEnd [.term .string none, .term .mapKeyMarker none, V] :: rest,
      { d1 with stack := (d1.current, d1.key) :: d1.stack, current := .dict M }⟩ rest V
      ((d1.current, d1.key) :: d1.stack) M d1.data d1.done :=
    ⟨⟨[], rfl, by intro a h; cases h⟩, rfl, rfl, rfl, rfl⟩
  obtain ⟨st3, hloop, hst3⟩ := dentries env fuel IH values V hG hne hok hflat rest ((d1.current, d1.key) :: d1.stack) d1.data d1.done
    M [] ws hdec hstr hnd hall DFUEL hlen _ hst2
  obtain ⟨pa, hps3, hpa3⟩ := hst3.ps
  have hend : st3.mapEnd = .ok ⟨rest, { st3.d with stack := d1.stack, current := d1.current, key := d1.key }⟩ := by
    unfold DS.mapEnd
    have : st3 = ⟨pa ++ .rep .mapEnd [.term .string none, .term .mapKeyMarker none, V] :: rest, st3.d⟩ := by
      cases st3 with
      | mk ps d => have hps : ps = _ := hps3; subst hps; rfl
    rw [this, dadv_rep_end_acts _ _ _ _ _ hpa3]
    simp only [bind, Except.bind, Dec.pop, hst3.stack, pure, Except.pure]
  refine ⟨⟨rest, { st3.d with stack := d1.stack, current := d1.current, key := d1.key }⟩, ?_,
    dexit_of rest d1 { st3.d with stack := d1.stack, current := d1.current, key := d1.key } flat rec1 hrec
      ⟨rfl, rfl, hst3.data, hst3.done, fun kv s h _ => ⟨kv, h, sameElse_refl s kv⟩⟩⟩
  simp only [mDecode, bind, Except.bind, hstart, hloop, hend, pure, Except.pure]

/-! #### part D7b: maps whose values are records with a flat last field

  After such a value exactly one pop — its own `RecordEnd` — is pending.  `iter_map` pops first: it takes the frame
  `RecordStart` pushed (which holds the map object and the entry's key, so the `del` works); the pending `RecordEnd`
  is executed by the next `advance`, after `iter_map` has pushed its next frame, and pops that one.  From the second
  entry on, one frame of `iter_map` therefore stays on the stack until `read_map_end`. -/

theorem runD_np_pop (np : List Sym) (d : Dec) (hnp : ∀ a ∈ np, noPop a = true) : runD (np ++ [.recordEnd]) d = d.pop := by
  rw [runD_append, runD_noPop np d hnp]
  simp only [runD, decAct]
  cases d.pop <;> rfl

theorem sameElse_head {k : String} {x0 : Val} {M' M'' : List (Val × Val)} (h : SameElse k ((.str k, x0) :: M') M'') :
    ∃ y, M'' = (.str k, y) :: M' := by
  rcases h with rfl | ⟨x, rfl⟩
  · exact ⟨x0, rfl⟩
  · exact ⟨x, by simp [valDictSet]⟩

structure MapSt1 (st : DS) (rest : List Sym) (V : Sym) (fr : List (Val × Val)) (M : List (Val × Val))
    (data : List Val) (done : Bool) : Prop where
  ps : (st.ps = .rep .mapEnd [.term .string none, .term .mapKeyMarker none, V] :: rest ∧ st.d.stack = fr) ∨
       (∃ np F, st.ps = (np ++ [.recordEnd]) ++ .rep .mapEnd [.term .string none, .term .mapKeyMarker none, V] :: rest ∧
          (∀ a ∈ np, noPop a = true) ∧ st.d.stack = F :: fr)
  cur : st.d.current = .dict M
  data : st.d.data = data
  done : st.d.done = done

theorem dentries1 (env : Env) (fuel : Nat) (IH : DSound env fuel)
    (values : Schema) (V : Sym) (hG : Gram env values none V) (hne : nonEmptyRec values = true) (hok : DOk env values)
    (hrec : Rec1 env values) (rest : List Sym) (fr : List (Val × Val)) (data : List Val) (done : Bool) :
    ∀ (M acc ws : List (Val × Val)), decEntriesWith (Json.decode fuel env values) M acc = .ok ws →
    (∀ p ∈ M, ∃ s, p.1 = Val.str s) → (dictKeys M).Nodup →
    (∀ p ∈ M, Fits env fuel values p.2 ∧ KeysOk p.2 ∧ Small p.2) →
    ∀ (n : Nat), M.length < n → ∀ (st : DS), MapSt1 st rest V fr M data done →
    ∃ st', mMapLoop (mDecode fuel env values) n st acc = .ok (ws, st') ∧ MapSt1 st' rest V fr [] data done := by
  intro M
  induction M with
  | nil =>
    intro acc ws h _ _ _ n hn st hst
    simp [decEntriesWith, pure, Except.pure] at h
    subst h
    cases n with
    | zero => cases hn
    | succ n =>
      refine ⟨st, ?_, hst⟩
      simp only [mMapLoop, hst.cur, pure, Except.pure]
  | cons e M ih =>
    intro acc ws h hstr hnd hall n hn st hst
    cases n with
    | zero => cases hn
    | succ n =>
    obtain ⟨k0, x0⟩ := e
    obtain ⟨k, hk0⟩ := hstr (k0, x0) (by simp)
    simp only at hk0
    subst hk0
    simp only [decEntriesWith, bind, Except.bind] at h
    cases hx : Json.decode fuel env values x0 with
    | error err => rw [hx] at h; cases h
    | ok a =>
      rw [hx] at h
      simp only at h
      obtain ⟨hfx, hkx, hsx⟩ := hall (.str k, x0) (by simp)
      simp only at hfx hkx hsx
      let body : List Sym := [.term .string none, .term .mapKeyMarker none, V]
      -- after iter_map's push and the pending actions: one frame X above `fr`
      have hA : ∃ pa dA X, (∀ a ∈ pa, simple a = true) ∧ st.ps = pa ++ .rep .mapEnd body :: rest ∧
          runD pa st.d.push = .ok dA ∧ dA.stack = X :: fr ∧ dA.current = .dict ((.str k, x0) :: M) ∧
          dA.data = data ∧ dA.done = done := by
        rcases hst.ps with ⟨hps, hstk⟩ | ⟨np, F, hps, hnp, hstk⟩
        · exact ⟨[], st.d.push, (.dict ((.str k, x0) :: M), st.d.key), (by intro a h; cases h), hps, rfl,
            (by simp only [Dec.push, hst.cur, hstk]), (by simp only [Dec.push]; exact hst.cur), hst.data, hst.done⟩
        · refine ⟨np ++ [.recordEnd], { st.d.push with stack := st.d.stack, current := st.d.current, key := st.d.key }, F, ?_, hps, ?_,
            hstk, hst.cur, hst.data, hst.done⟩
          · intro b hb
            simp only [List.mem_append, List.mem_singleton] at hb
            rcases hb with hb | rfl
            · exact endAct_simple (noPop_endAct (hnp b hb))
            · rfl
          · rw [runD_np_pop np _ hnp]; rfl
      obtain ⟨pa, dA, X, hpas, hps, hrunA, hstkA, hcurA, hdataA, hdoneA⟩ := hA
      have hE1 : DEntry ⟨st.ps, st.d.push⟩ pa (.term .string none) (.term .mapKeyMarker none :: V :: .rep .mapEnd body :: rest) dA := by
        refine ⟨fun kk h1 h2 e => ?_, hpas, hrunA⟩
        show advL decAct kk st.ps e = _
        rw [hps, advL_actsD' kk pa _ e hpas, advL_actsD' kk pa _ e hpas]
        cases runD pa e with
        | error x => rfl
        | ok e' =>
          simp only
          exact advL_rep decAct kk .mapEnd body rest e' (by simpa [BEq.comm] using h2)
            (advL_body_not_none decAct kk [] .string none _ e')
      have hadv1 := dadv_term hE1 rfl rfl
      have hutf : DS.readUtf8 ⟨st.ps, st.d.push⟩ = .ok (.str k, ⟨V :: .rep .mapEnd body :: rest, { dA with key := .str k }⟩) := by
        unfold DS.readUtf8
        rw [hadv1]
        simp only [bind, Except.bind, Sym.isTerm, beq_self_eq_true, if_true, dadv_head_term]
        simp only [hcurA, pure, Except.pure]
      have hE2 : DEntry ⟨V :: .rep .mapEnd body :: rest, { dA with key := .str k }⟩ [] V (.rep .mapEnd body :: rest)
          { dA with key := .str k } :=
        dentry_actual _ _ _ [] V _ rfl (by intro a h; cases h) rfl
      have hat : At env values { dA with key := .str k } none x0 :=
        .keyed ((.str k, x0) :: M) k hcurA rfl (by simp [dictGetV])
      obtain ⟨st1, hm, acts', hps1, hend1, _, hrec1, d3, hr1, haf⟩ :=
        IH values x0 a hx hfx hkx hsx none V hG hne hok _ [] _ _ hE2 ⟨_, _, rfl, rfl⟩ hat
      obtain ⟨np', hacts', hnp'⟩ := hrec1 hrec
      subst hacts'
      have hpop : st1.d.pop = .ok d3 := by rw [← runD_np_pop np' st1.d hnp']; exact hr1
      obtain ⟨M'', hcur3, hse⟩ := haf.cur ((.str k, x0) :: M) k hcurA rfl
      obtain ⟨y, hy⟩ := sameElse_head hse
      subst hy
      have hst2 : MapSt1 ⟨st1.ps, { d3 with current := .dict M }⟩ rest V fr M data done :=
        ⟨.inr ⟨np', X, hps1, hnp', (by show d3.stack = X :: fr; rw [haf.stack]; exact hstkA)⟩, rfl,
          (by show d3.data = data; rw [haf.data]; exact hdataA), (by show d3.done = done; rw [haf.done]; exact hdoneA)⟩
      obtain ⟨st3, hm3, hst3⟩ := ih (valDictSet acc k a) ws h (fun p hp => hstr p (by simp [hp]))
        (by have hnd' : (k :: dictKeys M).Nodup := hnd; exact (List.nodup_cons.mp hnd').2)
        (fun p hp => hall p (by simp [hp])) n (by simpa using hn) _ hst2
      refine ⟨st3, ?_, hst3⟩
      simp only [mMapLoop, hst.cur, bind, Except.bind]
      rw [show DS.readUtf8 ⟨st.ps, st.d.push⟩ = _ from hutf]
      simp only
      rw [hm]
      simp only [hpop, hcur3, dictGetV, beq_self_eq_true, if_true, Option.isSome_some, pure, Except.pure,
        filter_first k y M (fun p hp => hstr p (by simp [hp])) hnd]
      exact hm3

theorem dmap1 (env : Env) (fuel : Nat) (IH : DSound env fuel)
    (values : Schema) (dflt : Option Val) (V : Sym) (hG : Gram env values none V) (hne : nonEmptyRec values = true)
    (hok : DOk env values) (hrecv : Rec1 env values)
    (M ws : List (Val × Val)) (hdec : decEntriesWith (Json.decode fuel env values) M [] = .ok ws)
    (hstr : ∀ p ∈ M, ∃ s, p.1 = Val.str s) (hnd : (dictKeys M).Nodup)
    (hall : ∀ p ∈ M, Fits env fuel values p.2 ∧ KeysOk p.2 ∧ Small p.2) (hlen : M.length < DFUEL)
    (st : DS) (acts rest : List Sym) (d1 : Dec)
    (hE : DEntry st acts (.seq [.term .mapStart dflt, .rep .mapEnd [.term .string none, .term .mapKeyMarker none, V]]) rest d1)
    (hat : AtV d1 dflt (.dict M)) (flat rec1 : Prop) (hrec : rec1 → False) :
    ∃ st', mDecode (fuel+1) env (.map values) st = .ok (.dict ws, st') ∧ DExit st' rest d1 flat rec1 := by
  have hstart : st.mapStart = .ok ⟨.rep .mapEnd [.term .string none, .term .mapKeyMarker none, V] :: rest,
      { d1 with stack := (d1.current, d1.key) :: d1.stack, current := .dict M }⟩ := by
    unfold DS.mapStart
    rw [dadv_term (dentry_seq hE) rfl rfl]
    simp only [bind, Except.bind, symDefault, pushAdjust_at hat, pure, Except.pure]
    rfl
  have hst2 : MapSt1 ⟨.rep .mapEnd [.term .string none, .term .mapKeyMarker none, V] :: rest,
      { d1 with stack := (d1.current, d1.key) :: d1.stack, current := .dict M }⟩ rest V
      ((d1.current, d1.key) :: d1.stack) M d1.data d1.done :=
    ⟨.inl ⟨rfl, rfl⟩, rfl, rfl, rfl⟩
  obtain ⟨st3, hloop, hst3⟩ := dentries1 env fuel IH values V hG hne hok hrecv rest ((d1.current, d1.key) :: d1.stack) d1.data d1.done
    M [] ws hdec hstr hnd hall DFUEL hlen _ hst2
  have hend : st3.mapEnd = .ok ⟨rest, { st3.d with stack := d1.stack, current := d1.current, key := d1.key }⟩ := by
    unfold DS.mapEnd
    rcases hst3.ps with ⟨hps3, hstk3⟩ | ⟨np, F, hps3, hnp, hstk3⟩
    · have : st3 = ⟨.rep .mapEnd [.term .string none, .term .mapKeyMarker none, V] :: rest, st3.d⟩ := by
        cases st3 with
        | mk ps d => have hps : ps = _ := hps3; subst hps; rfl
      rw [this, dadv_rep_end]
      simp only [bind, Except.bind, Dec.pop, hstk3, pure, Except.pure]
    · have hadv : st3.advance .mapEnd = .ok (.term .mapEnd none,
          ⟨rest, { st3.d with stack := (d1.current, d1.key) :: d1.stack, current := F.1, key := F.2 }⟩) := by
        unfold DS.advance JM.advance
        rw [hps3, advL_actsD TK.mapEnd (np ++ [Sym.recordEnd]) _ st3.d
          { st3.d with stack := (d1.current, d1.key) :: d1.stack, current := F.1, key := F.2 }
          (by intro b hb
              simp only [List.mem_append, List.mem_singleton] at hb
              rcases hb with hb | rfl
              · exact endAct_simple (noPop_endAct (hnp b hb))
              · rfl)
          (by rw [runD_np_pop np _ hnp]; unfold Dec.pop; rw [hstk3])]
        simp [advL, advS, bind, Except.bind, pure, Except.pure]
      rw [hadv]
      simp only [bind, Except.bind, Dec.pop, pure, Except.pure]
  refine ⟨⟨rest, { st3.d with stack := d1.stack, current := d1.current, key := d1.key }⟩, ?_,
    dexit_of rest d1 { st3.d with stack := d1.stack, current := d1.current, key := d1.key } flat rec1 hrec
      ⟨rfl, rfl, hst3.data, hst3.done, fun kv s h _ => ⟨kv, h, sameElse_refl s kv⟩⟩⟩
  simp only [mDecode, bind, Except.bind, hstart, hloop, hend, pure, Except.pure]

/-! #### part D8: unions -/

theorem null_label (env : Env) (henv : EnvOk env) (b : Schema) (h : isNullBranch env b = true) : label b = "null" := by
  cases b with
  | prim p d lt =>
    cases p <;> simp [isNullBranch, unwrapRef] at h
    rfl
  | ref n =>
    simp only [isNullBranch, unwrapRef] at h
    cases hg : env.get? n with
    | none => simp [hg] at h
    | some s =>
      have := (henv n s hg).1
      simp only [hg, Option.getD_some] at h
      cases s <;> simp [Schema.isNamedDef] at this <;> simp at h
  | _ => simp [isNullBranch, unwrapRef] at h

theorem find_index {α : Type} (p : α → Bool) : ∀ (xs : List α) (b : α), xs.find? p = some b →
    xs.findIdx p < xs.length ∧ xs[xs.findIdx p]? = some b := by
  intro xs
  induction xs with
  | nil => intro b h; simp at h
  | cons x xs ih =>
    intro b h
    simp only [List.find?] at h
    cases hp : p x with
    | true => rw [hp] at h; cases h; simp [List.findIdx_cons, hp]
    | false =>
      rw [hp] at h
      obtain ⟨h1, h2⟩ := ih b h
      simp only [List.findIdx_cons, hp, cond_false, List.length_cons]
      exact ⟨by omega, by simpa using h2⟩

theorem findIdx_map {α β : Type} (f : α → β) (p : β → Bool) (xs : List α) :
    (xs.map f).findIdx p = xs.findIdx (fun a => p (f a)) := by
  induction xs with
  | nil => rfl
  | cons x xs ih => simp only [List.map, List.findIdx_cons, ih]

theorem find_label_index (env : Env) (bs : List Schema) (l : String) (b : Schema) (h : findLabel env bs l = some b) :
    ∃ i, indexOf? (bs.map label) l = some i ∧ bs[i]? = some b := by
  unfold findLabel at h
  obtain ⟨h1, h2⟩ := find_index _ bs b h
  refine ⟨bs.findIdx (fun b => label b == l), ?_, h2⟩
  unfold indexOf?
  simp only [findIdx_map, List.length_map, h1, if_true]

theorem dexit_mono {st' : DS} {rest : List Sym} {d1 : Dec} {p q p' q' : Prop} (h : DExit st' rest d1 p p') (hqp : q → p)
    (hqp' : q' → p') : DExit st' rest d1 q q' := by
  obtain ⟨acts', h1, h2, h3, h3', h4⟩ := h
  exact ⟨acts', h1, h2, fun hq => h3 (hqp hq), fun hq => h3' (hqp' hq), h4⟩

theorem flat_union_inv {env : Env} {bs : List Schema} (h : Flat env (.union bs)) : ∀ b ∈ bs, Flat env b := by
  cases h with
  | union _ hb => exact hb

theorem keysOk_single {l : Val} {x : Val} (h : KeysOk (.dict [(l, x)])) : KeysOk x := by
  cases h with
  | dict kv _ _ hv => exact hv (l, x) (by simp)
  | leaf v h1 _ => exact absurd rfl (h1 _)

theorem small_single {l : Val} {x : Val} (h : Small (.dict [(l, x)])) : Small x := by
  cases h with
  | dict kv _ hv => exact hv (l, x) (by simp)
  | leaf v h1 _ => exact absurd rfl (h1 _)

theorem dec_with_current_self (d : Dec) (c : Val) (h : d.current = c) : { d with current := c } = d := by
  cases d; simp only at h; subst h; rfl

/-! #### part D9: read_index -/

theorem dreadIndex_null {st : DS} {acts rest : List Sym} {d1 : Dec} {syms : List Sym} {labels : List String} {dflt : Option Val}
    {i : Nat} {sym : Sym}
    (hE : DEntry st acts (.seq [.term .union none, .alt syms labels dflt]) rest d1) (hat : AtP d1 .none)
    (hi : indexOf? labels "null" = some i) (hsym : syms[i]? = some sym) :
    st.readIndex = .ok (i, ⟨sym :: rest, d1⟩) := by
  unfold DS.readIndex
  rw [dadv_term (dentry_seq hE) rfl rfl]
  simp only [bind, Except.bind, List.cons_append, List.nil_append]
  cases hat with
  | keyed kv s hc hk hg =>
    simp only [hc, hk, dictGetKey, hg, pure, Except.pure, hi, hsym]
    cases d1
    simp only at hc hk
    subst hc hk
    simp
  | direct hc hk =>
    simp only [hc, hk, pure, Except.pure, hi, hsym]
    simp

theorem dreadIndex_dict {st : DS} {acts rest : List Sym} {d1 : Dec} {syms : List Sym} {labels : List String} {dflt : Option Val}
    {i : Nat} {sym : Sym} {l : String} {x : Val}
    (hE : DEntry st acts (.seq [.term .union none, .alt syms labels dflt]) rest d1) (hat : AtP d1 (.dict [(.str l, x)]))
    (hi : indexOf? labels l = some i) (hsym : syms[i]? = some sym) :
    ∃ d2, st.readIndex = .ok (i, ⟨sym :: .unionEnd :: rest, d2⟩) ∧ AtP d2 x ∧ d2.stack = d1.stack ∧ d2.key = d1.key ∧
      d2.data = d1.data ∧ d2.done = d1.done ∧
      (∀ kv s, d1.current = .dict kv → d1.key = .str s → d2.current = .dict (valDictSet kv s x)) := by
  cases hat with
  | keyed kv s hc hk hg =>
    refine ⟨{ d1 with current := .dict (valDictSet kv s x) }, ?_, .keyed (valDictSet kv s x) s rfl hk (get_set_same kv s x),
      rfl, rfl, rfl, rfl, ?_⟩
    · unfold DS.readIndex
      rw [dadv_term (dentry_seq hE) rfl rfl]
      simp only [bind, Except.bind, List.cons_append, List.nil_append]
      simp only [hc, hk, dictGetKey, hg, pure, Except.pure, List.getLast?_singleton, dictSetKey, hi, hsym]
      simp
    · intro kv' s' hc' hk'
      rw [hc] at hc'; rw [hk] at hk'
      cases hc'; cases hk'
      rfl
  | direct hc hk =>
    refine ⟨{ d1 with current := x }, ?_, .direct rfl hk, rfl, rfl, rfl, rfl, ?_⟩
    · unfold DS.readIndex
      rw [dadv_term (dentry_seq hE) rfl rfl]
      simp only [bind, Except.bind, List.cons_append, List.nil_append]
      simp only [hc, hk, pure, Except.pure, List.getLast?_singleton, hi, hsym]
      simp
    · intro kv' s' _ hk'
      rw [hk] at hk'; cases hk'

/-- the key is absent: `read_index` puts the default into the object, wrapped under the first branch's label, and goes on
    as if it had been there -/
theorem dreadIndex_absent {st : DS} {acts rest : List Sym} {d1 : Dec} {syms : List Sym} {l0 : String} {lrest : List String} {dv : Val}
    {sym0 : Sym} {kv : List (Val × Val)} {s : String}
    (hE : DEntry st acts (.seq [.term .union none, .alt syms (l0 :: lrest) (some dv)]) rest d1)
    (hc : d1.current = .dict kv) (hk : d1.key = .str s) (hg : dictGetV kv s = none) (hsym : syms[0]? = some sym0) :
    ∃ d2, st.readIndex = .ok (0, ⟨sym0 :: .unionEnd :: rest, d2⟩) ∧ AtP d2 dv ∧ d2.stack = d1.stack ∧ d2.key = d1.key ∧
      d2.data = d1.data ∧ d2.done = d1.done ∧ d2.current = .dict (valDictSet kv s dv) := by
  refine ⟨{ d1 with current := .dict (valDictSet kv s dv) }, ?_, .keyed (valDictSet kv s dv) s rfl hk (get_set_same kv s dv),
    rfl, rfl, rfl, rfl, rfl⟩
  unfold DS.readIndex
  rw [dadv_term (dentry_seq hE) rfl rfl]
  simp only [bind, Except.bind, List.cons_append, List.nil_append]
  have hidx : indexOf? (l0 :: lrest) l0 = some 0 := by unfold indexOf?; simp [List.findIdx_cons]
  simp only [hc, hk, dictGetKey, hg, getDefault, pure, Except.pure, dictSetKey, get_set_same, List.getLast?_singleton, hidx, hsym,
    valDictSet_idem]
  simp

/-! #### part D10: unions (assembly) -/

theorem dunion_present (env : Env) (henv : EnvOk env) (fuel : Nat) (IH : DSound env fuel)
    (bs : List Schema) (dflt : Option Val) (syms : List Sym) (hGL : GramList env bs syms)
    (hneL : ∀ b ∈ bs, nonEmptyRec b = true) (hokL : ∀ b ∈ bs, DOk env b)
    (j w : Val) (hdec : Json.decode (fuel+1) env (.union bs) j = .ok w) (hfit : Fits env (fuel+1) (.union bs) j)
    (hkeys : KeysOk j) (hsmall : Small j)
    (st : DS) (acts rest : List Sym) (d1 : Dec)
    (hE : DEntry st acts (.seq [.term .union none, .alt syms (bs.map label) dflt]) rest d1) (hr : restOk rest) (hat : AtP d1 j) :
    ∃ st', mDecode (fuel+1) env (.union bs) st = .ok (w, st') ∧
      DExit st' rest d1 (Flat env (.union bs)) (Rec1 env (.union bs)) := by
  obtain ⟨hf1, hf2, hf3⟩ := hfit
  simp only [Json.decode] at hdec
  split at hdec
  · -- null
    cases hfind : bs.find? (isNullBranch env) with
    | none => rw [hfind] at hdec; cases hdec
    | some b =>
      rw [hfind] at hdec
      simp only at hdec
      have hbmem : b ∈ bs := List.mem_of_find?_eq_some hfind
      have hbnull : isNullBranch env b = true := by simpa using List.find?_some hfind
      have hlab : (bs.map label).contains "null" = true := by
        simp only [List.contains_iff_mem, List.mem_map]
        exact ⟨b, hbmem, null_label env henv b hbnull⟩
      obtain ⟨i, hi, _⟩ := contains_indexOf _ _ hlab
      have hbi : bs[i]? = some b := by rw [hf1 rfl i hi, hfind]
      obtain ⟨sym, hsym, hGb⟩ := gramList_get env bs syms hGL i b hbi
      have hri := dreadIndex_null hE hat hi hsym
      have hE2 : DEntry ⟨sym :: rest, d1⟩ [] sym rest d1 := dentry_actual _ _ _ [] sym rest rfl (by intro a h; cases h) rfl
      obtain ⟨st', hm, hx⟩ := IH b .none w hdec (hf2 b rfl hfind) hkeys hsmall none sym hGb (hneL b hbmem) (hokL b hbmem)
        _ [] rest d1 hE2 hr (hat.toAt env b none)
      refine ⟨st', ?_, dexit_mono hx (fun hq => flat_union_inv hq b hbmem) (fun hq => by cases hq)⟩
      simp only [mDecode, bind, Except.bind, hri, hbi, hm]
  · -- {label: value}
    rename_i l x
    cases hfind : findLabel env bs l with
    | none => rw [hfind] at hdec; cases hdec
    | some b =>
      rw [hfind] at hdec
      simp only at hdec
      have hbmem : b ∈ bs := by unfold findLabel at hfind; exact List.mem_of_find?_eq_some hfind
      obtain ⟨i, hi, hbi⟩ := find_label_index env bs l b hfind
      obtain ⟨sym, hsym, hGb⟩ := gramList_get env bs syms hGL i b hbi
      obtain ⟨d2, hri, hat2, hstk2, hkey2, hdata2, hdone2, hcur2⟩ := dreadIndex_dict hE hat hi hsym
      have hE2 : DEntry ⟨sym :: .unionEnd :: rest, d2⟩ [] sym (.unionEnd :: rest) d2 :=
        dentry_actual _ _ _ [] sym _ rfl (by intro a h; cases h) rfl
      obtain ⟨st', hm, acts'', hps, hend, hnp, _, d3, hrun, haf⟩ :=
        IH b x w hdec (hf3 l x b rfl hfind) (keysOk_single hkeys) (small_single hsmall) none sym hGb (hneL b hbmem) (hokL b hbmem)
        _ [] (.unionEnd :: rest) d2 hE2 ⟨_, _, rfl, rfl⟩ (hat2.toAt env b none)
      refine ⟨st', ?_, acts'' ++ [.unionEnd], by simp [hps], ?_, ?_, (fun hq => by cases hq), d3, ?_, ?_⟩
      · simp only [mDecode, bind, Except.bind, hri, hbi, hm]
      · intro a ha
        simp only [List.mem_append, List.mem_singleton] at ha
        rcases ha with ha | rfl
        · exact hend a ha
        · rfl
      · intro hq a ha
        simp only [List.mem_append, List.mem_singleton] at ha
        rcases ha with ha | rfl
        · exact hnp (flat_union_inv hq b hbmem) a ha
        · rfl
      · rw [runD_append, hrun]; rfl
      · refine ⟨haf.stack.trans hstk2, haf.key.trans hkey2, haf.data.trans hdata2, haf.done.trans hdone2, ?_⟩
        intro kv s hc hk
        obtain ⟨kv', hc3, hse⟩ := haf.cur (valDictSet kv s x) s (hcur2 kv s hc hk) (hkey2.trans hk)
        exact ⟨kv', hc3, sameElse_trans (sameElse_set kv s x) hse⟩
  · cases hdec

theorem dunion (env : Env) (henv : EnvOk env) (fuel : Nat) (IH : DSound env fuel)
    (bs : List Schema) (dflt : Option Val) (syms : List Sym) (hGL : GramList env bs syms)
    (hneL : ∀ b ∈ bs, nonEmptyRec b = true) (hokL : ∀ b ∈ bs, DOk env b)
    (j w : Val) (hdec : Json.decode (fuel+1) env (.union bs) j = .ok w) (hfit : Fits env (fuel+1) (.union bs) j)
    (hkeys : KeysOk j) (hsmall : Small j)
    (st : DS) (acts rest : List Sym) (d1 : Dec)
    (hE : DEntry st acts (.seq [.term .union none, .alt syms (bs.map label) dflt]) rest d1) (hr : restOk rest)
    (hat : At env (.union bs) d1 dflt j) :
    ∃ st', mDecode (fuel+1) env (.union bs) st = .ok (w, st') ∧
      DExit st' rest d1 (Flat env (.union bs)) (Rec1 env (.union bs)) := by
  cases hat with
  | keyed kv k hc hk hg =>
    exact dunion_present env henv fuel IH bs dflt syms hGL hneL hokL j w hdec hfit hkeys hsmall st acts rest d1 hE hr (.keyed kv k hc hk hg)
  | direct hc hk =>
    exact dunion_present env henv fuel IH bs dflt syms hGL hneL hokL j w hdec hfit hkeys hsmall st acts rest d1 hE hr (.direct hc hk)
  | absent kv k dv hc hk hg hd hj hnull =>
    subst hd
    cases bs with
    | nil =>
      -- a union without branches decodes nothing
      simp only [absentWrap, unwrapRef] at hj
      subst hj
      simp only [Json.decode] at hdec
      split at hdec
      · simp [List.find?] at hdec
      · simp [findLabel, List.find?] at hdec
      · cases hdec
    | cons b0 bs' =>
      cases hGL with
      | cons _ _ sym0 syms' hG0 hGrest =>
      obtain ⟨hf1, hf2, hf3⟩ := hfit
      have hb0mem : b0 ∈ b0 :: bs' := by simp
      obtain ⟨d2, hri, hat2, hstk2, hkey2, hdata2, hdone2, hcur2⟩ :=
        dreadIndex_absent (syms := sym0 :: syms') (l0 := label b0) (lrest := bs'.map label) (dv := dv) (sym0 := sym0) (kv := kv) (s := k)
          (by simpa using hE) hc hk hg rfl
      have hE2 : DEntry ⟨sym0 :: .unionEnd :: rest, d2⟩ [] sym0 (.unionEnd :: rest) d2 :=
        dentry_actual _ _ _ [] sym0 _ rfl (by intro a h; cases h) rfl
      -- what the function-level reader decodes, and under which branch
      have hkey : ∃ x, Json.decode fuel env b0 x = .ok w ∧ Fits env fuel b0 x ∧ KeysOk x ∧ Small x ∧ x = dv := by
        simp only [absentWrap, unwrapRef] at hj
        by_cases hn : isNullBranch env b0 = true
        · simp only [hn, if_true] at hj
          have hdv : dv = .none := hnull b0 bs' (by simp [unwrapRef]) hn
          subst hj; subst hdv
          simp only [Json.decode, List.find?, hn] at hdec
          exact ⟨.none, hdec, hf2 b0 rfl (by simp [List.find?, hn]), hkeys, hsmall, rfl⟩
        · have hn' : isNullBranch env b0 = false := by simpa using hn
          simp only [hn', Bool.false_eq_true, if_false] at hj
          subst hj
          have hfl : findLabel env (b0 :: bs') (label b0) = some b0 := by simp [findLabel, List.find?]
          simp only [Json.decode, hfl] at hdec
          exact ⟨dv, hdec, hf3 (label b0) dv b0 rfl hfl, keysOk_single hkeys, small_single hsmall, rfl⟩
      obtain ⟨x, hdx, hfx, hkx, hsx, rfl⟩ := hkey
      obtain ⟨st', hm, acts'', hps, hend, hnp, _, d3, hrun, haf⟩ :=
        IH b0 x w hdx hfx hkx hsx none sym0 hG0 (hneL b0 hb0mem) (hokL b0 hb0mem)
        _ [] (.unionEnd :: rest) d2 hE2 ⟨_, _, rfl, rfl⟩ (hat2.toAt env b0 none)
      refine ⟨st', ?_, acts'' ++ [.unionEnd], by simp [hps], ?_, ?_, (fun hq => by cases hq), d3, ?_, ?_⟩
      · simp only [mDecode, bind, Except.bind, hri, List.getElem?_cons_zero, hm]
      · intro a ha
        simp only [List.mem_append, List.mem_singleton] at ha
        rcases ha with ha | rfl
        · exact hend a ha
        · rfl
      · intro hq a ha
        simp only [List.mem_append, List.mem_singleton] at ha
        rcases ha with ha | rfl
        · exact hnp (flat_union_inv hq b0 hb0mem) a ha
        · rfl
      · rw [runD_append, hrun]; rfl
      · refine ⟨haf.stack.trans hstk2, haf.key.trans hkey2, haf.data.trans hdata2, haf.done.trans hdone2, ?_⟩
        intro kv0 s0 hc0 hk0
        rw [hc] at hc0; rw [hk] at hk0
        cases hc0; cases hk0
        obtain ⟨kv', hc3, hse⟩ := haf.cur (valDictSet kv k x) k hcur2 (hkey2.trans hk)
        exact ⟨kv', hc3, sameElse_trans (sameElse_set kv k x) hse⟩

/-! #### part D11: records -/

theorem dexit_step {st' : DS} {rest : List Sym} {a : Sym} {d1 : Dec} {p p' : Prop} (ha : noPop a = true)
    (hx : DExit st' (a :: rest) d1 p p') : DExit st' rest d1 p False := by
  obtain ⟨acts', hps, hend, hnp, _, d3, hrun, haf⟩ := hx
  refine ⟨acts' ++ [a], by simp [hps], ?_, ?_, fun h => h.elim, d3, ?_, haf⟩
  · intro b hb
    simp only [List.mem_append, List.mem_singleton] at hb
    rcases hb with hb | rfl
    · exact hend b hb
    · exact noPop_endAct ha
  · intro hp b hb
    simp only [List.mem_append, List.mem_singleton] at hb
    rcases hb with hb | rfl
    · exact hnp hp b hb
    · exact ha
  · rw [runD_append, hrun]
    exact runD_noPop [a] d3 (by intro b hb; simp only [List.mem_singleton] at hb; subst hb; exact ha)

theorem dictGetV_mem (kv : List (Val × Val)) (s : String) (x : Val) (h : dictGetV kv s = some x) : ∃ k, (k, x) ∈ kv := by
  induction kv with
  | nil => simp [dictGetV] at h
  | cons e rest ih =>
    obtain ⟨k, v⟩ := e
    cases k with
    | str k' =>
      simp only [dictGetV] at h
      split at h
      · cases h; exact ⟨.str k', by simp⟩
      · obtain ⟨k2, hk2⟩ := ih h; exact ⟨k2, by simp [hk2]⟩
    | _ =>
      simp only [dictGetV] at h
      obtain ⟨k2, hk2⟩ := ih h
      exact ⟨k2, by simp [hk2]⟩

theorem keysOk_get {kv : List (Val × Val)} {s : String} {x : Val} (h : KeysOk (.dict kv)) (hg : dictGetV kv s = some x) : KeysOk x := by
  obtain ⟨k, hk⟩ := dictGetV_mem kv s x hg
  cases h with
  | dict _ _ _ hv => exact hv (k, x) hk
  | leaf v h1 _ => exact absurd rfl (h1 _)

theorem small_get {kv : List (Val × Val)} {s : String} {x : Val} (h : Small (.dict kv)) (hg : dictGetV kv s = some x) : Small x := by
  obtain ⟨k, hk⟩ := dictGetV_mem kv s x hg
  cases h with
  | dict _ _ hv => exact hv (k, x) hk
  | leaf v h1 _ => exact absurd rfl (h1 _)

/-- one field: the value, then `FieldEnd` joins the pending actions -/
theorem dfield_step (env : Env) (fuel : Nat) (IH : DSound env fuel) (ft : Schema) (fd : Option Val) (t : Sym)
    (hG : Gram env ft fd t) (hne : nonEmptyRec ft = true) (hok : DOk env ft)
    (x a : Val) (hdec : Json.decode fuel env ft x = .ok a) (hfit : Fits env fuel ft x) (hkeys : KeysOk x) (hsmall : Small x)
    (st : DS) (pa0 tail : List Sym) (dF : Dec) (hE : DEntry st pa0 t (.fieldEnd :: tail) dF) (hat : At env ft dF fd x) :
    ∃ st1 pa1, mDecode fuel env ft st = .ok (a, st1) ∧ st1.ps = pa1 ++ tail ∧ (∀ b ∈ pa1, endAct b = true) ∧
      (Flat env ft → ∀ b ∈ pa1, noPop b = true) ∧
      ∃ d3, runD pa1 st1.d = .ok d3 ∧ After dF d3 := by
  obtain ⟨st1, hm, hx⟩ := IH ft x a hdec hfit hkeys hsmall fd t hG hne hok st pa0 _ dF hE ⟨_, _, rfl, rfl⟩ hat
  obtain ⟨pa1, hps, hend, hnp, _, d3, hrun, haf⟩ := dexit_step (a := .fieldEnd) rfl hx
  exact ⟨st1, pa1, hm, hps, hend, hnp, d3, hrun, haf⟩

theorem dfields (env : Env) (fuel : Nat) (IH : DSound env fuel) (kvj : List (Val × Val)) (rest : List Sym)
    (fr : List (Val × Val)) (data : List Val) (done : Bool) :
    ∀ (fields : List Field) (more : List Sym), GramFields env fields more →
    ∀ (acc ws : List (Val × Val)), decFieldsWith env (Json.decode fuel env) fields kvj acc = .ok ws →
    (fields.map Field.name).Nodup →
    (∀ f ∈ fields, ∃ x, FieldVal env kvj f x ∧ Fits env fuel f.type x ∧ KeysOk x ∧ Small x) →
    (∀ f ∈ fields, nonEmptyRec f.type = true ∧ DOk env f.type) →
    ∀ (st : DS) (pa : List Sym), st.ps = pa ++ more ++ rest → (∀ a ∈ pa, endAct a = true) →
    ∀ (dR : Dec), runD pa st.d = .ok dR → dR.stack = fr → dR.data = data → dR.done = done →
    ∀ kvR, dR.current = .dict kvR → (∀ f ∈ fields, dictGetV kvR f.name = dictGetV kvj f.name) →
    ∃ st' pa', mDecFieldsWith (mDecode fuel env) fields st acc = .ok (ws, st') ∧ st'.ps = pa' ++ .recordEnd :: rest ∧
      (∀ a ∈ pa', endAct a = true) ∧
      ((fields = [] → ∀ a ∈ pa, noPop a = true) → (∀ f, fields.getLast? = some f → Flat env f.type) → ∀ a ∈ pa', noPop a = true) ∧
      ∃ dR', runD pa' st'.d = .ok dR' ∧ dR'.stack = fr ∧ dR'.data = data ∧ dR'.done = done := by
  intro fields
  induction fields with
  | nil =>
    intro more hg acc ws h _ _ _ st pa hps hpa dR hrun hstk hdata hdone kvR _ _
    cases hg
    simp [decFieldsWith, pure, Except.pure] at h
    subst h
    exact ⟨st, pa, rfl, by simpa using hps, hpa, fun h _ => h rfl, dR, hrun, hstk, hdata, hdone⟩
  | cons f fs ih =>
    intro more hg acc ws h hnd hall hsch st pa hps hpa dR hrun hstk hdata hdone kvR hcur hagree
    cases hg with
    | cons _ _ t more' ht hmore =>
    obtain ⟨x, hget, hfit, hkx, hsx⟩ := hall f (by simp)
    obtain ⟨hnef, hokf⟩ := hsch f (by simp)
    rw [decFields_step hget] at h
    cases hx : Json.decode fuel env f.type x with
    | error err => rw [hx] at h; cases h
    | ok a =>
      rw [hx] at h
      simp only at h
      have hE : DEntry st (pa ++ [.fieldStart f.name]) t (.fieldEnd :: (more' ++ rest)) { dR with key := .str f.name } := by
        have := dentry_actual st.ps st.d { dR with key := .str f.name } (pa ++ [.fieldStart f.name]) t (.fieldEnd :: (more' ++ rest))
          (by rw [hps]; simp [List.append_assoc])
          (by intro b hb
              simp only [List.mem_append, List.mem_singleton] at hb
              rcases hb with hb | rfl
              · exact endAct_simple (hpa b hb)
              · rfl)
          (by rw [runD_append, hrun]; rfl)
        cases st; exact this
      have hat : At env f.type { dR with key := .str f.name } f.default x := fieldVal_at hget hcur (hagree f (by simp))
      obtain ⟨st1, pa1, hm, hps1, hend1, hnp1, d3, hrun1, haf⟩ :=
        dfield_step env fuel IH f.type f.default t ht hnef hokf x a hx hfit hkx hsx st _ _ _ hE hat
      obtain ⟨kvR', hcur3, hse⟩ := haf.cur kvR f.name hcur rfl
      have hnd' : f.name ∉ fs.map Field.name ∧ (fs.map Field.name).Nodup := by simpa using hnd
      obtain ⟨st', pa', hm', hps', hend', hnp', dR', hrun', hstk', hdata', hdone'⟩ :=
        ih more' hmore (valDictSet acc f.name a) ws h hnd'.2 (fun g hg => hall g (by simp [hg]))
          (fun g hg => hsch g (by simp [hg])) st1 pa1 (by rw [hps1]; simp [List.append_assoc]) hend1 d3 hrun1
          (haf.stack.trans hstk) (haf.data.trans hdata) (haf.done.trans hdone) kvR' hcur3
          (by intro g hg
              have hne : g.name ≠ f.name := by
                intro heq; exact hnd'.1 (heq ▸ List.mem_map_of_mem hg)
              rw [sameElse_get hse g.name hne]; exact hagree g (by simp [hg]))
      refine ⟨st', pa', ?_, hps', hend', ?_, dR', hrun', hstk', hdata', hdone'⟩
      · simp only [mDecFieldsWith, bind, Except.bind, hm]
        exact hm'
      · intro _ hlast
        refine hnp' ?_ ?_
        · intro hfs
          subst hfs
          exact hnp1 (hlast f rfl)
        · intro g hg
          cases fs with
          | nil => cases hg
          | cons f2 fs2 => exact hlast g (by simpa [List.getLast?_cons_cons] using hg)

/-! #### part D12: records (assembly) and the induction on the nesting depth -/

theorem drecord (env : Env) (fuel : Nat) (IH : DSound env fuel)
    (n : String) (f : Field) (fs : List Field) (al : List String) (dflt : Option Val) (body : List Sym)
    (hGF : GramFields env (f :: fs) body) (hnd : ((f :: fs).map Field.name).Nodup)
    (hsch : ∀ g ∈ f :: fs, nonEmptyRec g.type = true ∧ DOk env g.type)
    (kvj ws : List (Val × Val)) (hdec : decFieldsWith env (Json.decode fuel env) (f :: fs) kvj [] = .ok ws)
    (hall : ∀ g ∈ f :: fs, ∃ x, FieldVal env kvj g x ∧ Fits env fuel g.type x ∧ KeysOk x ∧ Small x)
    (st : DS) (acts rest : List Sym) (d1 : Dec)
    (hE : DEntry st acts (.seq (.recordStart dflt :: body)) rest d1) (hat : AtV d1 dflt (.dict kvj)) (flat rec1 : Prop) (hflat : flat → False)
    (hrec1 : rec1 → ∀ g, (f :: fs).getLast? = some g → Flat env g.type) :
    ∃ st', mDecode (fuel+1) env (.record n (f :: fs) al) st = .ok (.dict ws, st') ∧ DExit st' rest d1 flat rec1 := by
  cases hGF with
  | cons _ _ t more' ht hmore =>
  obtain ⟨x, hget, hfit, hkx, hsx⟩ := hall f (by simp)
  obtain ⟨hnef, hokf⟩ := hsch f (by simp)
  rw [decFields_step hget] at hdec
  cases hx : Json.decode fuel env f.type x with
  | error err => rw [hx] at hdec; cases hdec
  | ok a =>
    rw [hx] at hdec
    simp only at hdec
    -- RecordStart and FieldStart are pending in front of the first field's symbol
    let dR : Dec := { d1 with stack := (d1.current, d1.key) :: d1.stack, current := .dict kvj }
    have hE0 := dentry_seq hE
    have hE1 : DEntry st (acts ++ [.recordStart dflt, .fieldStart f.name]) t (.fieldEnd :: (more' ++ rest)) { dR with key := .str f.name } := by
      refine ⟨fun k h1 h2 e => ?_, ?_, ?_⟩
      · rw [hE0.eqv k h1 h2 e]; simp [List.append_assoc]
      · intro b hb
        simp only [List.mem_append, List.mem_cons, List.mem_singleton, List.not_mem_nil, or_false] at hb
        rcases hb with hb | rfl | rfl
        · exact hE0.simp b hb
        · rfl
        · rfl
      · rw [runD_append, hE0.run]
        simp only [runD, decAct, pushAdjust_at hat]
        rfl
    have hat1 : At env f.type { dR with key := .str f.name } f.default x := fieldVal_at (dR := dR) hget rfl rfl
    obtain ⟨st1, pa1, hm, hps1, hend1, hnp1, d3, hrun1, haf⟩ :=
      dfield_step env fuel IH f.type f.default t ht hnef hokf x a hx hfit hkx hsx st _ _ _ hE1 hat1
    obtain ⟨kvR', hcur3, hse⟩ := haf.cur kvj f.name rfl rfl
    have hnd' : f.name ∉ fs.map Field.name ∧ (fs.map Field.name).Nodup := by simpa using hnd
    obtain ⟨st', pa', hm', hps', hend', hnp', dR', hrun', hstk', hdata', hdone'⟩ :=
      dfields env fuel IH kvj rest ((d1.current, d1.key) :: d1.stack) d1.data d1.done fs more' hmore
        (valDictSet [] f.name a) ws hdec hnd'.2 (fun g hg => hall g (by simp [hg]))
        (fun g hg => hsch g (by simp [hg])) st1 pa1 (by rw [hps1]; simp [List.append_assoc]) hend1 d3 hrun1
        haf.stack haf.data haf.done kvR' hcur3
        (by intro g hg
            have hne : g.name ≠ f.name := by
              intro heq; exact hnd'.1 (heq ▸ List.mem_map_of_mem hg)
            exact sameElse_get hse g.name hne)
    refine ⟨st', ?_, pa' ++ [.recordEnd], by simp [hps'], ?_, fun hq => (hflat hq).elim, ?_,
      { dR' with stack := d1.stack, current := d1.current, key := d1.key }, ?_, ?_⟩
    · simp only [mDecode, mDecFieldsWith, bind, Except.bind, hm, pure, Except.pure]
      rw [hm']
    · intro b hb
      simp only [List.mem_append, List.mem_singleton] at hb
      rcases hb with hb | rfl
      · exact hend' b hb
      · rfl
    · intro hq
      refine ⟨pa', rfl, hnp' ?_ ?_⟩
      · intro hfs
        subst hfs
        exact hnp1 (hrec1 hq f rfl)
      · intro g hg
        cases fs with
        | nil => cases hg
        | cons f2 fs2 => exact hrec1 hq g (by simpa [List.getLast?_cons_cons] using hg)
    · rw [runD_append, hrun']
      simp only [runD, decAct, Dec.pop, hstk']
    · exact ⟨rfl, rfl, hdata', hdone', fun kv s h _ => ⟨kv, h, sameElse_refl s kv⟩⟩

/-! #### part D13: induction on the nesting depth -/

theorem nonEmptyRecL_mem : ∀ (bs : List Schema), nonEmptyRecL bs = true → ∀ b ∈ bs, nonEmptyRec b = true := by
  intro bs
  induction bs with
  | nil => intro _ b hb; cases hb
  | cons x xs ih =>
    intro h b hb
    simp only [nonEmptyRecL, Bool.and_eq_true] at h
    simp only [List.mem_cons] at hb
    rcases hb with rfl | hb
    · exact h.1
    · exact ih h.2 b hb

theorem nonEmptyRecF_mem : ∀ (fs : List Field), nonEmptyRecF fs = true → ∀ f ∈ fs, nonEmptyRec f.type = true := by
  intro fs
  induction fs with
  | nil => intro _ f hf; cases hf
  | cons x xs ih =>
    intro h f hf
    obtain ⟨xn, xt, xd, xa⟩ := x
    simp only [nonEmptyRecF, Bool.and_eq_true] at h
    simp only [List.mem_cons] at hf
    rcases hf with rfl | hf
    · exact h.1
    · exact ih h.2 f hf

theorem dsound_all (env : Env) (henv : EnvOk env) : ∀ fuel, DSound env fuel := by
  intro fuel
  induction fuel with
  | zero => intro s j w hj; simp [Json.decode] at hj
  | succ fuel IH =>
    intro s j w hj hfit hko hsm d G hG hne hok st acts rest d1 hE hr hat
    cases s with
    | prim p df lt =>
      cases lt with
      | some l => simp [Json.decode, throw, throwThe, MonadExceptOf.throw] at hj
      | none =>
        simp only [Json.decode] at hj
        have hatV : AtV d1 d j := hat.toV (by intro dv; simp [absentWrap, unwrapRef])
        cases hG with
        | null =>
          simp only [Fits] at hfit
          subst hfit
          simp only [decPrim, pure, Except.pure] at hj
          cases hj
          refine ⟨⟨rest, d1⟩, ?_, dexit_now rest d1 _ _ (fun h => by cases h)⟩
          simp only [mDecode, primTK]
          exact dleaf hE rfl rfl hatV (by intro kv h; cases h)
        | prim _ _ _ _ hp =>
          have hnd : ∀ kv, j ≠ .dict kv := by
            cases p <;> first | exact absurd rfl hp | (simpa only [Fits] using hfit)
          cases p with
          | null => exact absurd rfl hp
          | string =>
            simp only [decPrim, pure, Except.pure] at hj
            cases hj
            refine ⟨⟨rest, d1⟩, ?_, dexit_now rest d1 _ _ (fun h => by cases h)⟩
            simp only [mDecode]
            exact dutf8 hE hr hatV hnd
          | bytes =>
            cases j with
            | str t =>
              simp only [decPrim] at hj
              refine ⟨⟨rest, d1⟩, ?_, dexit_now rest d1 _ _ (fun h => by cases h)⟩
              have hrl : st.readLeaf TK.bytes = .ok (.str t, ⟨rest, d1⟩) := dleaf hE rfl rfl hatV hnd
              simp only [mDecode, bind, Except.bind, hrl]
              cases hl : latin1Enc t with
              | none => rw [hl] at hj; simp [throw, throwThe, MonadExceptOf.throw] at hj
              | some b => rw [hl] at hj; simp only [pure, Except.pure] at hj ⊢; cases hj; rfl
            | _ => all_goals simp [decPrim, throw, throwThe, MonadExceptOf.throw] at hj
          | boolean | int | long | float | double =>
            all_goals (
              simp only [decPrim, pure, Except.pure] at hj
              cases hj
              refine ⟨⟨rest, d1⟩, ?_, dexit_now rest d1 _ _ (fun h => by cases h)⟩
              simp only [mDecode]
              exact dleaf hE rfl rfl hatV hnd)
    | fixed n sz lt al =>
      cases lt with
      | some l => simp [Json.decode, throw, throwThe, MonadExceptOf.throw] at hj
      | none =>
        have hatV : AtV d1 d j := hat.toV (by intro dv; simp [absentWrap, unwrapRef])
        cases hG
        cases j with
        | str t =>
          simp only [Json.decode] at hj
          refine ⟨⟨rest, d1⟩, ?_, dexit_now rest d1 _ _ (fun h => by cases h)⟩
          have hrl : st.readLeaf TK.fixed = .ok (.str t, ⟨rest, d1⟩) := dleaf hE rfl rfl hatV (by intro kv h; cases h)
          simp only [mDecode, bind, Except.bind, hrl]
          cases hl : latin1Enc t with
          | none => rw [hl] at hj; simp [throw, throwThe, MonadExceptOf.throw] at hj
          | some b => rw [hl] at hj; simp only [pure, Except.pure] at hj ⊢; cases hj; rfl
        | _ => all_goals simp [Json.decode, throw, throwThe, MonadExceptOf.throw] at hj
    | enum n syms dflt al =>
      have hatV : AtV d1 d j := hat.toV (by intro dv; simp [absentWrap, unwrapRef])
      cases hG
      cases j with
      | str x =>
        simp only [Json.decode] at hj
        by_cases hc' : syms.contains x = true
        · simp only [hc', if_true, pure, Except.pure] at hj
          cases hj
          obtain ⟨i, hi, hget⟩ := contains_indexOf syms x hc'
          refine ⟨⟨rest, d1⟩, ?_, dexit_now rest d1 _ _ (fun h => by cases h)⟩
          simp only [mDecode, bind, Except.bind, denum hE hi hatV, hget, pure, Except.pure]
        · have hcf : syms.contains x = false := by simpa using hc'
          rw [hcf] at hj
          simp [throw, throwThe, MonadExceptOf.throw] at hj
      | _ => all_goals simp [Json.decode, throw, throwThe, MonadExceptOf.throw] at hj
    | array items =>
      have hatV : AtV d1 d j := hat.toV (by intro dv; simp [absentWrap, unwrapRef])
      cases hG with
      | array _ _ I hI =>
        simp only [nonEmptyRec] at hne
        cases hok with
        | array _ hoki =>
        cases j with
        | list xs =>
          simp only [Json.decode, bind, Except.bind] at hj
          cases hws : decItemsWith (Json.decode fuel env items) xs with
          | error err => rw [hws] at hj; cases hj
          | ok ws =>
            rw [hws] at hj
            simp only [pure, Except.pure] at hj
            cases hj
            simp only [Fits] at hfit
            have hko' : ∀ x ∈ xs, KeysOk x := by
              cases hko with
              | list _ h => exact h
              | leaf _ _ h => exact absurd rfl (h xs)
            have hsm' : xs.length < DFUEL ∧ ∀ x ∈ xs, Small x := by
              cases hsm with
              | list _ h1 h2 => exact ⟨h1, h2⟩
              | leaf _ _ h => exact absurd rfl (h xs)
            exact darray env fuel IH items d I hI hne hoki xs ws hws
              (fun x hx => ⟨hfit xs rfl x hx, hko' x hx, hsm'.2 x hx⟩) hsm'.1 st acts rest d1 hE hatV _ _ (fun h => by cases h)
        | _ => all_goals simp [Json.decode, throw, throwThe, MonadExceptOf.throw] at hj
    | map values =>
      have hatV : AtV d1 d j := hat.toV (by intro dv; simp [absentWrap, unwrapRef])
      cases hG with
      | map _ _ V hV =>
        simp only [nonEmptyRec] at hne
        cases hok with
        | map _ hokv hflv =>
        cases j with
        | dict kv =>
          simp only [Json.decode, bind, Except.bind] at hj
          cases hws : decEntriesWith (Json.decode fuel env values) kv [] with
          | error err => rw [hws] at hj; cases hj
          | ok ws =>
            rw [hws] at hj
            simp only [pure, Except.pure] at hj
            cases hj
            simp only [Fits] at hfit
            have hko' : (∀ p ∈ kv, ∃ s, p.1 = Val.str s) ∧ (dictKeys kv).Nodup ∧ ∀ p ∈ kv, KeysOk p.2 := by
              cases hko with
              | dict _ h1 h2 h3 => exact ⟨fun p hp => (h1 p hp).imp fun s hs => hs.1, h2, h3⟩
              | leaf _ h _ => exact absurd rfl (h kv)
            have hsm' : kv.length < DFUEL ∧ ∀ p ∈ kv, Small p.2 := by
              cases hsm with
              | dict _ h1 h2 => exact ⟨h1, h2⟩
              | leaf _ h _ => exact absurd rfl (h kv)
            rcases hflv with hflv | hrecv
            · exact dmap env fuel IH values d V hV hne hokv hflv kv ws hws hko'.1 hko'.2.1
                (fun p hp => ⟨hfit kv rfl p hp, hko'.2.2 p hp, hsm'.2 p hp⟩) hsm'.1 st acts rest d1 hE hatV _ _ (fun h => by cases h)
            · exact dmap1 env fuel IH values d V hV hne hokv hrecv kv ws hws hko'.1 hko'.2.1
                (fun p hp => ⟨hfit kv rfl p hp, hko'.2.2 p hp, hsm'.2 p hp⟩) hsm'.1 st acts rest d1 hE hatV _ _ (fun h => by cases h)
        | _ => all_goals simp [Json.decode, throw, throwThe, MonadExceptOf.throw] at hj
    | union bs =>
      cases hG with
      | union _ _ syms hgl =>
        simp only [nonEmptyRec] at hne
        cases hok with
        | union _ hokb =>
        exact dunion env henv fuel IH bs d syms hgl (nonEmptyRecL_mem bs hne) hokb j w hj hfit hko hsm st acts rest d1 hE hr hat
    | record n fields al =>
      have hatV : AtV d1 d j := hat.toV (by intro dv; simp [absentWrap, unwrapRef])
      cases hG with
      | record _ _ _ _ body hgf =>
        simp only [nonEmptyRec, Bool.and_eq_true] at hne
        cases hok with
        | record _ _ _ hnd hokf =>
        cases fields with
        | nil => simp at hne
        | cons f fs =>
        cases j with
        | dict kvj =>
          simp only [Json.decode, bind, Except.bind] at hj
          cases hws : decFieldsWith env (Json.decode fuel env) (f :: fs) kvj [] with
          | error err => rw [hws] at hj; cases hj
          | ok ws =>
            rw [hws] at hj
            simp only [pure, Except.pure] at hj
            cases hj
            simp only [Fits] at hfit
            refine drecord env fuel IH n f fs al d body hgf hnd
              (fun g hg => ⟨nonEmptyRecF_mem _ hne.2 g hg, hokf g hg⟩) kvj ws hws ?_ st acts rest d1 hE hatV _ _ ?_ ?_
            · intro g hg
              obtain ⟨x, hget, hfx, hkd⟩ := hfit kvj rfl g hg
              rcases hget with hg1 | ⟨hg1, hrest⟩
              · exact ⟨x, .inl hg1, hfx, keysOk_get hko hg1, small_get hsm hg1⟩
              · exact ⟨x, .inr ⟨hg1, hrest⟩, hfx, (hkd hg1).1, (hkd hg1).2⟩
            · intro hq; cases hq
            · intro hq
              cases hq with
              | record _ _ _ hlast => exact hlast
        | _ => all_goals simp [Json.decode, throw, throwThe, MonadExceptOf.throw] at hj
    | ref n =>
      cases hG with
      | ref _ s' _ _ hget hg' =>
        simp only [Json.decode, hget] at hj
        simp only [Fits] at hfit
        cases hok with
        | ref _ s'' hget' hok' =>
        have : s'' = s' := by rw [hget] at hget'; cases hget'; rfl
        subst this
        have hunw : unwrapRef env (.ref n) = unwrapRef env s'' := by
          have hnd := (henv n s'' hget).1
          simp only [unwrapRef, hget, Option.getD_some]
          cases s'' <;> simp [Schema.isNamedDef] at hnd <;> rfl
        obtain ⟨st', hm, hx⟩ := IH s'' j w hj (hfit s'' hget) hko hsm d G hg' (henv n s'' hget).2 hok' st acts rest d1 hE hr (hat.retype hunw)
        refine ⟨st', ?_, dexit_mono hx ?_ ?_⟩
        · simp only [mDecode, hget]; exact hm
        · intro hq
          cases hq with
          | ref _ s3 hget3 hfl =>
            rw [hget] at hget3; cases hget3; exact hfl
        · intro hq
          cases hq with
          | ref _ s3 hget3 hfl =>
            rw [hget] at hget3; cases hget3; exact hfl

/-! #### part D14: a whole text (`json_reader`) -/

theorem gram_not_noneD (env : Env) (henv : EnvOk env) : ∀ {s : Schema} {d : Option Val} {G : Sym}, Gram env s d G →
    nonEmptyRec s = true → ∀ (k : TK) (e e' : Dec), advS decAct k G e ≠ .ok (none, e')
  | _, _, _, .null _ _ _, _, k, e, e' => advS_term_not_none decAct k _ _ e e'
  | _, _, _, .prim _ _ _ _ _, _, k, e, e' => advS_term_not_none decAct k _ _ e e'
  | _, _, _, .fixed _ _ _ _ _, _, k, e, e' => advS_term_not_none decAct k _ _ e e'
  | _, _, _, .enum _ _ _ _ _, _, k, e, e' => by simp only [advS]; exact advL_term_head_not_none decAct k _ _ _ e e'
  | _, _, _, .array _ _ _ _, _, k, e, e' => by simp only [advS]; exact advL_term_head_not_none decAct k _ _ _ e e'
  | _, _, _, .map _ _ _ _, _, k, e, e' => by simp only [advS]; exact advL_term_head_not_none decAct k _ _ _ e e'
  | _, _, _, .union _ _ _ _, _, k, e, e' => by simp only [advS]; exact advL_term_head_not_none decAct k _ _ _ e e'
  | _, _, _, .ref n s' _ _ hget hg, _, k, e, e' => gram_not_noneD env henv hg (henv n s' hget).2 k e e'
  | _, _, _, .record _ _ _ d _ .nil, hne, _, _, _ => by simp [nonEmptyRec] at hne
  | _, _, _, .record _ _ _ d _ (.cons f rest t more ht _), hne, k, e, e' => by
    have hnef : nonEmptyRec f.type = true := by
      simp only [nonEmptyRec, List.isEmpty_cons, Bool.not_false, Bool.true_and] at hne
      rw [nonEmptyRecF_cons] at hne
      simp only [Bool.and_eq_true] at hne
      exact hne.1
    have ih := gram_not_noneD env henv ht hnef k
    simp only [advS, advL, bind, Except.bind, pure, Except.pure]
    cases h1 : decAct (.recordStart d) e with
    | error x => simp
    | ok e1 =>
      simp only [decAct]
      cases h : advS decAct k t { e1 with key := .str f.name } with
      | error x => simp
      | ok r =>
        obtain ⟨o, e''⟩ := r
        cases o with
        | none => exact absurd h (ih _ _)
        | some p => simp

theorem root_eqvD (env : Env) (henv : EnvOk env) {s : Schema} {d : Option Val} {G : Sym} (hG : Gram env s d G)
    (hne : nonEmptyRec s = true) (k : TK) (e : Dec) :
    advL decAct k [.root G] e = advL decAct k (G :: [.root G]) e := by
  simp only [advL, advS]
  cases h : advS decAct k G e with
  | error x => rfl
  | ok r =>
    obtain ⟨o, e''⟩ := r
    cases o with
    | none => exact absurd h (gram_not_noneD env henv hG hne k e e'')
    | some p => obtain ⟨y, rem⟩ := p; simp

theorem drainL_acts (acts : List Sym) (G : Sym) (hend : ∀ a ∈ acts, endAct a = true) :
    ∀ (d d3 : Dec), runD acts d = .ok d3 → drainL (acts ++ [.root G]) d = .ok (some [.root G], d3) := by
  induction acts with
  | nil => intro d d3 h; simp only [runD] at h; cases h; simp [drainL, drainS]
  | cons a as ih =>
    intro d d3 h
    have ha := hend a (by simp)
    simp only [runD] at h
    cases hda : decAct a d with
    | error x => rw [hda] at h; cases h
    | ok d1 =>
      rw [hda] at h
      have := ih (fun b hb => hend b (by simp [hb])) d1 d3 h
      cases a <;> simp [endAct] at ha <;>
        simp only [List.cons_append, drainL, drainS, bind, Except.bind, hda, pure, Except.pure, this]

theorem drain_acts (acts : List Sym) (G : Sym) (hend : ∀ a ∈ acts, endAct a = true) (d d3 : Dec)
    (h : runD acts d = .ok d3) : drain (acts ++ [.root G]) d = .ok ([.root G], d3) := by
  unfold drain
  rw [drainL_acts acts G hend d d3 h]

/-- the decoder between two documents -/
def TopD (st : DS) (docs : List Val) : Prop :=
  st.d.stack = [] ∧ st.d.key = .none ∧
    match docs with
    | x :: rest => st.d.current = x ∧ st.d.data = rest ∧ st.d.done = false
    | [] => st.d.done = true

theorem dall (env : Env) (henv : EnvOk env) (fuel : Nat) (s : Schema) (G : Sym) (hG : Gram env s none G)
    (hne : nonEmptyRec s = true) (hok : DOk env s) :
    ∀ (docs ws : List Val),
    Pairwise2 (fun j w => Json.decode fuel env s j = .ok w ∧ Fits env fuel s j ∧ KeysOk j ∧ Small j) docs ws →
    ∀ (n : Nat), docs.length < n → ∀ (st : DS) (acc : List Val) (fresh : Bool),
    st.ps = (if fresh then [G, .root G] else [.root G]) → TopD st docs →
    mDecodeLoop fuel env s n st acc = .ok (acc ++ ws) := by
  intro docs ws hall
  induction hall with
  | nil =>
    intro n hn st acc fresh _ htop
    cases n with
    | zero => cases hn
    | succ n =>
      obtain ⟨_, _, hdone⟩ := htop
      simp only at hdone
      simp only [mDecodeLoop, hdone, if_true, pure, Except.pure, List.append_nil]
  | @cons j w docs ws hjw _ ih =>
    intro n hn st acc fresh hps htop
    cases n with
    | zero => cases hn
    | succ n =>
      obtain ⟨hstk, hkey, hcur, hdata, hdone⟩ := htop
      obtain ⟨hdec, hfit, hko, hsm⟩ := hjw
      have hE : DEntry st [] G [.root G] st.d := by
        refine ⟨fun k _ _ e => ?_, (by intro a h; cases h), rfl⟩
        cases fresh with
        | false => simp only [Bool.false_eq_true, if_false] at hps; rw [hps]; exact root_eqvD env henv hG hne k e
        | true => simp only [if_true] at hps; rw [hps]; rfl
      obtain ⟨st1, hm, acts', hps1, hend1, _, _, d3, hr1, haf⟩ :=
        dsound_all env henv fuel s j w hdec hfit hko hsm none G hG hne hok st [] [.root G] st.d hE ⟨_, _, rfl, rfl⟩
          (.direct hcur hkey)
      have hdrain : drain st1.ps st1.d = .ok ([.root G], d3) := by rw [hps1]; exact drain_acts acts' G hend1 _ _ hr1
      have hd3data : d3.data = docs := haf.data.trans hdata
      simp only [mDecodeLoop, hdone, Bool.false_eq_true, if_false, bind, Except.bind, hm, hdrain]
      cases docs with
      | nil =>
        have := ih n (by simpa using hn) ⟨[.root G], { d3 with done := true }⟩ (acc ++ [w]) false rfl
          ⟨by show d3.stack = []; rw [haf.stack]; exact hstk, by show d3.key = .none; rw [haf.key]; exact hkey, rfl⟩
        simp only [hd3data] at this ⊢
        rw [this]; simp [List.append_assoc]
      | cons x rest =>
        have := ih n (by simpa using hn) ⟨[.root G], { d3 with current := x, key := .none, data := rest }⟩ (acc ++ [w]) false rfl
          ⟨by show d3.stack = []; rw [haf.stack]; exact hstk, rfl, rfl, rfl, by show d3.done = false; rw [haf.done]; exact hdone⟩
        simp only [hd3data] at this ⊢
        rw [this]; simp [List.append_assoc]

/-- **`json_reader` on a text of JSON documents** (model `JM.decodeAll`: grammar built from the schema, the decoder's
    frame stack and key, lazily executed actions, `drain_actions` between documents): the records returned are exactly
    those of the function-level reader, in order. -/
theorem decodeAll_sound (env : Env) (henv : EnvOk env) (fuel : Nat) (s : Schema) (G : Sym)
    (hG : Gram env s none G) (hne : nonEmptyRec s = true) (hok : DOk env s) (hinit : initialStack fuel env s = .ok [G, .root G])
    (docs ws : List Val)
    (hall : Pairwise2 (fun j w => Json.decode fuel env s j = .ok w ∧ Fits env fuel s j ∧ KeysOk j ∧ Small j) docs ws) :
    decodeAll fuel env s docs = .ok ws := by
  unfold decodeAll
  simp only [hinit, bind, Except.bind]
  cases docs with
  | nil =>
    have := dall env henv fuel s G hG hne hok [] ws hall 1 (by simp) ⟨[G, .root G], { done := true }⟩ [] true rfl ⟨rfl, rfl, rfl⟩
    simpa using this
  | cons x rest =>
    have := dall env henv fuel s G hG hne hok (x :: rest) ws hall ((x :: rest).length + 1) (by simp)
      ⟨[G, .root G], { current := x, data := rest }⟩ [] true rfl ⟨rfl, rfl, rfl, rfl, rfl⟩
    simpa using this

/-! #### part D15: the specification's JSON encodings have the shape `Fits` -/

theorem items_all (enc wr : Val → Option Val) (P : Val → Prop) (h : ∀ x a b, enc x = some a → wr x = some b → P a) :
    ∀ (xs js ws : List Val), Spec.jItemsM enc xs = some js → Spec.jItemsM wr xs = some ws → ∀ a ∈ js, P a := by
  intro xs
  induction xs with
  | nil => intro js ws h1 _ a ha; simp [Spec.jItemsM] at h1; subst h1; cases ha
  | cons x xs ih =>
    intro js ws h1 h2 a ha
    simp only [Spec.jItemsM, Option.bind_eq_bind, Option.bind_eq_some_iff, Option.some.injEq] at h1 h2
    obtain ⟨a1, ha1, b1, hb1, rfl⟩ := h1
    obtain ⟨a2, ha2, b2, hb2, rfl⟩ := h2
    rcases List.mem_cons.1 ha with rfl | ha
    · exact h x _ a2 ha1 ha2
    · exact ih b1 b2 hb1 hb2 a ha

theorem entries_all (kok : String → Bool) (enc wr : Val → Option Val) (P : Val → Prop)
    (h : ∀ x a b, enc x = some a → wr x = some b → P a) :
    ∀ (kv jkv wkv : List (Val × Val)), Spec.jEntriesM kok enc kv = some jkv → Spec.wEntriesM wr kv = some wkv →
    ∀ p ∈ jkv, P p.2 := by
  intro kv
  induction kv with
  | nil => intro jkv wkv h1 _ p hp; simp [Spec.jEntriesM] at h1; subst h1; cases hp
  | cons e rest ih =>
    intro jkv wkv h1 h2 p hp
    obtain ⟨k, x⟩ := e
    cases k with
    | str s =>
      simp only [Spec.jEntriesM] at h1
      split at h1
      · cases h1
      · simp only [Option.bind_eq_bind, Option.bind_eq_some_iff, Option.some.injEq] at h1
        simp only [Spec.wEntriesM, Option.bind_eq_bind, Option.bind_eq_some_iff, Option.some.injEq] at h2
        obtain ⟨a1, ha1, b1, hb1, rfl⟩ := h1
        obtain ⟨a2, ha2, b2, hb2, rfl⟩ := h2
        rcases List.mem_cons.1 hp with rfl | hp
        · exact h x _ a2 ha1 ha2
        · exact ih b1 b2 hb1 hb2 p hp
    | _ => all_goals simp [Spec.jEntriesM] at h1

theorem enc_fuel_pos {jp kok pick fuel env s v j} (h : Spec.jsonEncodeWith jp kok pick fuel env s v = some j) : ∃ f, fuel = f + 1 := by
  cases fuel with
  | zero => simp [Spec.jsonEncodeWith] at h
  | succ f => exact ⟨f, rfl⟩

theorem isNull_eq (env : Env) (b : Schema) : Spec.isNull env b = isNullBranch env b := rfl

theorem primFloats_shape (p : Prim) (v j : Val) (h : Spec.jsonPrimFloats p v = some j) :
    (p = .null → j = .none) ∧ ∀ kv, j ≠ .dict kv := by
  cases p <;> cases v <;> simp [Spec.jsonPrimFloats, Spec.jsonPrim] at h <;>
    first
    | (subst h; exact ⟨fun _ => rfl, fun kv hh => (by cases hh)⟩)
    | (subst h; exact ⟨fun hh => (by cases hh), fun kv hh => (by cases hh)⟩)
    | (obtain ⟨_, _, rfl⟩ := h; exact ⟨fun hh => (by cases hh), fun kv hh => (by cases hh)⟩)

theorem spec_fits (pick : Nat → List Schema → Val → Option (Nat × Val)) (env : Env) (he : EnvNamed env) :
    ∀ (fuel : Nat) (s : Schema) (v j w : Val), Spec.jsonEncodeCore pick fuel env s v = some j →
    Spec.written pick fuel env s v = some w → Fits env fuel s j := by
  intro fuel
  induction fuel with
  | zero => intro s v j w h; simp [Spec.jsonEncodeCore, Spec.jsonEncodeWith] at h
  | succ fuel IH =>
    intro s v j w hj hw
    unfold Spec.jsonEncodeCore at hj IH
    cases s with
    | prim p df lt =>
      cases lt with
      | some l => simp [Spec.jsonEncodeWith] at hj
      | none =>
        simp only [Spec.jsonEncodeWith] at hj
        obtain ⟨h1, h2⟩ := primFloats_shape p v j hj
        cases p <;> simp only [Fits] <;> first | exact h1 rfl | exact h2
    | fixed n sz lt al => simp only [Fits]
    | enum n syms d al => simp only [Fits]
    | array items =>
      simp only [Fits]
      intro xs hjx x hx
      cases v with
      | list vs =>
        simp only [Spec.jsonEncodeWith, Option.map_eq_some_iff] at hj
        simp only [Spec.written, Option.map_eq_some_iff] at hw
        obtain ⟨js, hjs, rfl⟩ := hj
        obtain ⟨ws, hws, _⟩ := hw
        cases hjx
        exact items_all _ _ _ (fun x a b ha hb => IH items x a b ha hb) vs xs ws hjs hws x hx
      | tuple vs =>
        simp only [Spec.jsonEncodeWith, Option.map_eq_some_iff] at hj
        simp only [Spec.written, Option.map_eq_some_iff] at hw
        obtain ⟨js, hjs, rfl⟩ := hj
        obtain ⟨ws, hws, _⟩ := hw
        cases hjx
        exact items_all _ _ _ (fun x a b ha hb => IH items x a b ha hb) vs xs ws hjs hws x hx
      | _ => all_goals simp [Spec.jsonEncodeWith] at hj
    | map values =>
      simp only [Fits]
      intro kv hjx p hp
      cases v with
      | dict vkv =>
        simp only [Spec.jsonEncodeWith, Option.map_eq_some_iff] at hj
        simp only [Spec.written] at hw
        split at hw
        · simp only [Option.map_eq_some_iff] at hw
          obtain ⟨jkv, hjs, rfl⟩ := hj
          obtain ⟨wkv, hws, _⟩ := hw
          cases hjx
          exact entries_all _ _ _ _ (fun x a b ha hb => IH values x a b ha hb) vkv kv wkv hjs hws p hp
        · cases hw
      | _ => all_goals simp [Spec.jsonEncodeWith] at hj
    | union bs =>
      simp only [Spec.jsonEncodeWith] at hj
      simp only [Spec.written] at hw
      split at hw
      · rename_i hnd
        cases hp : pick fuel bs v with
        | none => rw [hp] at hj; cases hj
        | some iv =>
          obtain ⟨i, v'⟩ := iv
          rw [hp] at hj hw
          simp only at hj hw
          cases hb : bs[i]? with
          | none => rw [hb] at hj; cases hj
          | some b0 =>
            rw [hb] at hj hw
            simp only [Option.bind_eq_bind, Option.bind_eq_some_iff] at hj hw
            obtain ⟨j0, hj0, hjj⟩ := hj
            have hmem0 : b0 ∈ bs := List.mem_of_getElem? hb
            have hfit0 := IH b0 v' j0 w hj0 hw
            obtain ⟨f, hf⟩ := enc_fuel_pos hj0
            by_cases hnull : Spec.isNull env b0 = true
            · -- the null branch: j = null
              simp only [hnull, if_true, Option.some.injEq] at hjj
              obtain ⟨d0, lt0, rfl⟩ := null_shape env he b0 hnull
              subst hf
              have hj0n : j0 = .none := by
                cases lt0 with
                | some l => simp [Spec.jsonEncodeWith] at hj0
                | none =>
                  simp only [Spec.jsonEncodeWith] at hj0
                  exact (primFloats_shape .null v' j0 hj0).1 rfl
              subst hjj; subst hj0n
              simp only [Fits]
              refine ⟨?_, ?_, ?_⟩
              · intro _ i' hi'
                have hget := indexOf_get _ _ _ hi'
                simp only [List.getElem?_map, Option.map_eq_some_iff] at hget
                obtain ⟨b2, hb2, hl2⟩ := hget
                have hfind : ∃ b1, bs.find? (isNullBranch env) = some b1 := by
                  cases hf1 : bs.find? (isNullBranch env) with
                  | some b1 => exact ⟨b1, rfl⟩
                  | none =>
                    have := List.find?_eq_none.mp hf1 _ hmem0
                    rw [← isNull_eq] at this
                    simp [hnull] at this
                obtain ⟨b1, hb1⟩ := hfind
                have hb1n : isNullBranch env b1 = true := by simpa using List.find?_some hb1
                obtain ⟨d1, lt1, rfl⟩ := null_shape env he b1 (by rw [isNull_eq]; exact hb1n)
                have : b2 = .prim .null d1 lt1 :=
                  nodup_map_inj Spec.jsonBranchName bs hnd b2 (List.mem_of_getElem? hb2) _ (List.mem_of_find?_eq_some hb1)
                    (by rw [← label_eq, hl2]; rfl)
                rw [hb2, hb1, this]
              · intro b _ hfb
                have hbn : isNullBranch env b = true := by simpa using List.find?_some hfb
                obtain ⟨d1, lt1, rfl⟩ := null_shape env he b (by rw [isNull_eq]; exact hbn)
                simp only [Fits]
              · intro l x b hh; cases hh
            · -- another branch: {name: value}
              simp only [hnull, Bool.false_eq_true, if_false, Option.some.injEq] at hjj
              subst hjj
              simp only [Fits]
              refine ⟨fun hh => (by cases hh), fun b hh => (by cases hh), ?_⟩
              intro l x b hh hfl
              cases hh
              unfold findLabel at hfl
              have hbm : b ∈ bs := List.mem_of_find?_eq_some hfl
              have hbl : label b = Spec.jsonBranchName b0 := by simpa using List.find?_some hfl
              have : b = b0 := nodup_map_inj Spec.jsonBranchName bs hnd b hbm b0 hmem0 (by rw [← label_eq, hbl])
              subst this
              exact hfit0
      · cases hw
    | record n fields al =>
      simp only [Fits]
      intro kv hjx f hf
      cases v with
      | dict vkv =>
        simp only [Spec.jsonEncodeWith, Option.map_eq_some_iff] at hj
        simp only [Spec.written] at hw
        split at hw
        · rename_i hnd
          simp only [Option.map_eq_some_iff] at hw
          obtain ⟨jkv, hjs, rfl⟩ := hj
          obtain ⟨wkv, hws, _⟩ := hw
          cases hjx
          obtain ⟨a, ha, hga⟩ := get_of_fields _ vkv fields kv hjs hnd f hf
          obtain ⟨b, hb, _⟩ := get_of_fields _ vkv fields wkv hws hnd f hf
          exact ⟨a, .inl hga, IH f.type _ a b ha hb, fun hnone => by rw [hnone] at hga; cases hga⟩
        · cases hw
      | _ => all_goals simp [Spec.jsonEncodeWith] at hj
    | ref n =>
      simp only [Fits]
      intro s' hget
      simp only [Spec.jsonEncodeWith, hget] at hj
      simp only [Spec.written, hget] at hw
      exact IH s' v j w hj hw

end JMDec
