/-
  Proofs/Extend.lean — reads are length-checked and strictly left to right: a successful read never
  looks past what it consumes (extension lemma), hence no proper prefix of a valid encoding decodes
  (C03 last clause, C06 schemaless clause).
-/
import Model.Binary
import Proofs.Mono

namespace ExtendProofs
open Binary MonoProofs

theorem loop_ext : ∀ (p : Bytes) (acc shift : Nat) (n : Nat) (r q : Bytes),
    decodeVarintLoop acc shift p = .ok (n, r) → decodeVarintLoop acc shift (p ++ q) = .ok (n, r ++ q) := by
  intro p
  induction p with
  | nil => intro acc shift n r q h; simp [decodeVarintLoop] at h
  | cons b p ih =>
    intro acc shift n r q h
    simp only [List.cons_append, decodeVarintLoop] at h ⊢
    split
    · rename_i hb; simp only [hb, ↓reduceIte] at h; exact ih _ _ _ _ _ h
    · rename_i hb
      simp only [hb, ↓reduceIte, Except.ok.injEq, Prod.mk.injEq] at h ⊢
      obtain ⟨rfl, rfl⟩ := h; exact ⟨rfl, rfl⟩

theorem decodeLong_ext (p : Bytes) (n : Int) (r q : Bytes) (h : decodeLong p = .ok (n, r)) :
    decodeLong (p ++ q) = .ok (n, r ++ q) := by
  cases p with
  | nil => simp [decodeLong] at h
  | cons b p =>
    simp only [List.cons_append, decodeLong] at h ⊢
    split
    · rename_i hb
      simp only [hb, ↓reduceIte, bind_ok_iff, pure_ok_iff] at h ⊢
      obtain ⟨⟨m, r'⟩, h1, h2⟩ := h
      simp only [Prod.mk.injEq] at h2
      obtain ⟨rfl, rfl⟩ := h2
      exact ⟨(m, r' ++ q), loop_ext _ _ _ _ _ _ h1, rfl⟩
    · rename_i hb
      simp only [hb, ↓reduceIte, Except.ok.injEq, Prod.mk.injEq] at h ⊢
      obtain ⟨rfl, rfl⟩ := h; exact ⟨rfl, rfl⟩

theorem takeN_ext (n : Nat) (p h r q : Bytes) (hh : takeN n p = some (h, r)) :
    takeN n (p ++ q) = some (h, r ++ q) := by
  unfold takeN at hh ⊢
  split at hh
  · simp at hh
  · rename_i hl
    simp only [Option.some.injEq, Prod.mk.injEq] at hh
    obtain ⟨rfl, rfl⟩ := hh
    have hl' : ¬ (p ++ q).length < n := by simp only [List.length_append]; omega
    have hn : n ≤ p.length := by omega
    simp only [hl', ↓reduceIte, Option.some.injEq, Prod.mk.injEq]
    exact ⟨List.take_append_of_le_length hn, List.drop_append_of_le_length hn⟩

theorem decBool_ext (p : Bytes) (v : Val) (r q : Bytes) (h : decBool p = .ok (v, r)) :
    decBool (p ++ q) = .ok (v, r ++ q) := by
  cases p with
  | nil => simp [decBool] at h
  | cons b p =>
    simp only [List.cons_append, decBool, Except.ok.injEq, Prod.mk.injEq] at h ⊢
    obtain ⟨rfl, rfl⟩ := h; exact ⟨rfl, rfl⟩

theorem decFloat_ext (p : Bytes) (v : Val) (r q : Bytes) (h : decFloat p = .ok (v, r)) :
    decFloat (p ++ q) = .ok (v, r ++ q) := by
  unfold decFloat at h ⊢
  cases ht : takeN 4 p with
  | none => simp [ht] at h
  | some hr =>
    obtain ⟨hd, r'⟩ := hr
    simp only [ht, Except.ok.injEq, Prod.mk.injEq] at h
    obtain ⟨rfl, rfl⟩ := h
    simp [takeN_ext 4 p hd r' q ht]

theorem decDouble_ext (p : Bytes) (v : Val) (r q : Bytes) (h : decDouble p = .ok (v, r)) :
    decDouble (p ++ q) = .ok (v, r ++ q) := by
  unfold decDouble at h ⊢
  cases ht : takeN 8 p with
  | none => simp [ht] at h
  | some hr =>
    obtain ⟨hd, r'⟩ := hr
    simp only [ht, Except.ok.injEq, Prod.mk.injEq] at h
    obtain ⟨rfl, rfl⟩ := h
    simp [takeN_ext 8 p hd r' q ht]

theorem decFixed_ext (n : Nat) (p : Bytes) (v : Val) (r q : Bytes) (h : decFixed n p = .ok (v, r)) :
    decFixed n (p ++ q) = .ok (v, r ++ q) := by
  unfold decFixed at h ⊢
  cases ht : takeN n p with
  | none => simp [ht] at h
  | some hr =>
    obtain ⟨hd, r'⟩ := hr
    simp only [ht, Except.ok.injEq, Prod.mk.injEq] at h
    obtain ⟨rfl, rfl⟩ := h
    simp [takeN_ext n p hd r' q ht]

theorem decBytesRaw_ext (p b r q : Bytes) (h : decBytesRaw p = .ok (b, r)) :
    decBytesRaw (p ++ q) = .ok (b, r ++ q) := by
  unfold decBytesRaw at h ⊢
  simp only [bind_ok_iff] at h ⊢
  obtain ⟨⟨n, r1⟩, h1, h2⟩ := h
  refine ⟨(n, r1 ++ q), decodeLong_ext _ _ _ _ h1, ?_⟩
  simp only at h2 ⊢
  split
  · rename_i hn; simp [hn, throw_ne_ok, bind, Except.bind] at h2
  · rename_i hn
    simp only [hn, ↓reduceIte, bind, Except.bind, pure, Except.pure] at h2 ⊢
    cases ht : takeN n.toNat r1 with
    | none => simp [ht, throw, throwThe, MonadExceptOf.throw] at h2
    | some hr =>
      obtain ⟨hd, r'⟩ := hr
      simp only [ht, Except.ok.injEq, Prod.mk.injEq] at h2
      obtain ⟨rfl, rfl⟩ := h2
      simp [takeN_ext _ r1 hd r' q ht]

theorem decUtf8Raw_ext (p : Bytes) (s : String) (r q : Bytes) (h : decUtf8Raw p = .ok (s, r)) :
    decUtf8Raw (p ++ q) = .ok (s, r ++ q) := by
  unfold decUtf8Raw at h ⊢
  simp only [bind_ok_iff] at h ⊢
  obtain ⟨⟨b, r1⟩, h1, h2⟩ := h
  refine ⟨(b, r1 ++ q), decBytesRaw_ext _ _ _ _ h1, ?_⟩
  simp only at h2 ⊢
  cases hu : utf8Dec b with
  | none => simp [hu, throw_ne_ok] at h2
  | some t =>
    simp only [hu, pure_ok_iff, Prod.mk.injEq] at h2 ⊢
    obtain ⟨rfl, rfl⟩ := h2; exact ⟨rfl, rfl⟩

theorem readPrim_ext (p : Prim) (bs : Bytes) (v : Val) (r q : Bytes) (h : readPrim p bs = .ok (v, r)) :
    readPrim p (bs ++ q) = .ok (v, r ++ q) := by
  cases p <;> simp only [readPrim] at h ⊢
  · simp only [pure_ok_iff, Prod.mk.injEq] at h ⊢; obtain ⟨rfl, rfl⟩ := h; exact ⟨rfl, rfl⟩
  · exact decBool_ext _ _ _ _ h
  · simp only [bind_ok_iff, pure_ok_iff] at h ⊢
    obtain ⟨⟨n, r1⟩, h1, h2⟩ := h
    simp only [Prod.mk.injEq] at h2; obtain ⟨rfl, rfl⟩ := h2
    exact ⟨(n, r1 ++ q), decodeLong_ext _ _ _ _ h1, rfl⟩
  · simp only [bind_ok_iff, pure_ok_iff] at h ⊢
    obtain ⟨⟨n, r1⟩, h1, h2⟩ := h
    simp only [Prod.mk.injEq] at h2; obtain ⟨rfl, rfl⟩ := h2
    exact ⟨(n, r1 ++ q), decodeLong_ext _ _ _ _ h1, rfl⟩
  · exact decFloat_ext _ _ _ _ h
  · exact decDouble_ext _ _ _ _ h
  · simp only [decBytes, bind_ok_iff, pure_ok_iff] at h ⊢
    obtain ⟨⟨b, r1⟩, h1, h2⟩ := h
    simp only [Prod.mk.injEq] at h2; obtain ⟨rfl, rfl⟩ := h2
    exact ⟨(b, r1 ++ q), decBytesRaw_ext _ _ _ _ h1, rfl⟩
  · simp only [decUtf8, bind_ok_iff, pure_ok_iff] at h ⊢
    obtain ⟨⟨s, r1⟩, h1, h2⟩ := h
    simp only [Prod.mk.injEq] at h2; obtain ⟨rfl, rfl⟩ := h2
    exact ⟨(s, r1 ++ q), decUtf8Raw_ext _ _ _ _ h1, rfl⟩

section helpers
variable (rd : Bytes → R (Val × Bytes))
  (hext : ∀ p v r q, rd p = .ok (v, r) → rd (p ++ q) = .ok (v, r ++ q))
include hext

theorem items_ext : ∀ n p xs r q, readItemsWith rd n p = .ok (xs, r) →
    readItemsWith rd n (p ++ q) = .ok (xs, r ++ q) := by
  intro n
  induction n with
  | zero =>
    intro p xs r q h
    simp only [readItemsWith, pure_ok_iff, Prod.mk.injEq] at h ⊢
    obtain ⟨rfl, rfl⟩ := h; exact ⟨rfl, rfl⟩
  | succ n ih =>
    intro p xs r q h
    simp only [readItemsWith, bind_ok_iff, pure_ok_iff] at h ⊢
    obtain ⟨⟨x, r1⟩, h1, ⟨ys, r2⟩, h2, h3⟩ := h
    simp only [Prod.mk.injEq] at h3; obtain ⟨rfl, rfl⟩ := h3
    exact ⟨(x, r1 ++ q), hext _ _ _ _ h1, (ys, r2 ++ q), ih _ _ _ _ h2, rfl⟩

theorem blockCount_ext (c : Int) (p : Bytes) (n : Nat) (r q : Bytes) (h : blockCount c p = .ok (n, r)) :
    blockCount c (p ++ q) = .ok (n, r ++ q) := by
  unfold blockCount at h ⊢
  split
  · rename_i hc
    simp only [hc, ↓reduceIte, bind_ok_iff, pure_ok_iff] at h ⊢
    obtain ⟨⟨sz, r1⟩, h1, h2⟩ := h
    simp only [Prod.mk.injEq] at h2; obtain ⟨rfl, rfl⟩ := h2
    exact ⟨(sz, r1 ++ q), decodeLong_ext _ _ _ _ h1, rfl⟩
  · rename_i hc
    simp only [hc, ↓reduceIte, pure_ok_iff, Prod.mk.injEq] at h ⊢
    obtain ⟨rfl, rfl⟩ := h; exact ⟨rfl, rfl⟩

theorem blocks_ext : ∀ k c p xs r q, readBlocksWith rd k c p = .ok (xs, r) →
    ∀ k', k ≤ k' → readBlocksWith rd k' c (p ++ q) = .ok (xs, r ++ q) := by
  intro k
  induction k with
  | zero => intro c p xs r q h; simp [readBlocksWith] at h
  | succ k ih =>
    intro c p xs r q h k' hk
    cases k' with
    | zero => omega
    | succ k' =>
      simp only [readBlocksWith] at h ⊢
      split
      · rename_i hc
        simp only [hc, ↓reduceIte, pure_ok_iff, Prod.mk.injEq] at h ⊢
        obtain ⟨rfl, rfl⟩ := h; exact ⟨rfl, rfl⟩
      · rename_i hc
        simp only [hc, Bool.false_eq_true, ↓reduceIte, bind_ok_iff, pure_ok_iff] at h ⊢
        obtain ⟨⟨n, b1⟩, h1, ⟨ys, b2⟩, h2, ⟨c', b3⟩, h3, ⟨zs, b4⟩, h4, h5⟩ := h
        simp only [Prod.mk.injEq] at h5; obtain ⟨rfl, rfl⟩ := h5
        exact ⟨(n, b1 ++ q), blockCount_ext rd hext _ _ _ _ _ h1, (ys, b2 ++ q), items_ext rd hext _ _ _ _ _ h2,
          (c', b3 ++ q), decodeLong_ext _ _ _ _ h3, (zs, b4 ++ q), ih _ _ _ _ _ h4 k' (by omega), rfl⟩

theorem entries_ext : ∀ n p acc kv r q, readEntriesWith rd n p acc = .ok (kv, r) →
    readEntriesWith rd n (p ++ q) acc = .ok (kv, r ++ q) := by
  intro n
  induction n with
  | zero =>
    intro p acc kv r q h
    simp only [readEntriesWith, pure_ok_iff, Prod.mk.injEq] at h ⊢
    obtain ⟨rfl, rfl⟩ := h; exact ⟨rfl, rfl⟩
  | succ n ih =>
    intro p acc kv r q h
    simp only [readEntriesWith, bind_ok_iff] at h ⊢
    obtain ⟨⟨k, r1⟩, h1, ⟨x, r2⟩, h2, h3⟩ := h
    exact ⟨(k, r1 ++ q), decUtf8Raw_ext _ _ _ _ h1, (x, r2 ++ q), hext _ _ _ _ h2, ih _ _ _ _ _ h3⟩

theorem mapblocks_ext : ∀ k c p acc kv r q, readMapBlocksWith rd k c p acc = .ok (kv, r) →
    ∀ k', k ≤ k' → readMapBlocksWith rd k' c (p ++ q) acc = .ok (kv, r ++ q) := by
  intro k
  induction k with
  | zero => intro c p acc kv r q h; simp [readMapBlocksWith] at h
  | succ k ih =>
    intro c p acc kv r q h k' hk
    cases k' with
    | zero => omega
    | succ k' =>
      simp only [readMapBlocksWith] at h ⊢
      split
      · rename_i hc
        simp only [hc, ↓reduceIte, pure_ok_iff, Prod.mk.injEq] at h ⊢
        obtain ⟨rfl, rfl⟩ := h; exact ⟨rfl, rfl⟩
      · rename_i hc
        simp only [hc, Bool.false_eq_true, ↓reduceIte, bind_ok_iff] at h ⊢
        obtain ⟨⟨n, b1⟩, h1, ⟨acc', b2⟩, h2, ⟨c', b3⟩, h3, h4⟩ := h
        exact ⟨(n, b1 ++ q), blockCount_ext rd hext _ _ _ _ _ h1, (acc', b2 ++ q), entries_ext rd hext _ _ _ _ _ _ h2,
          (c', b3 ++ q), decodeLong_ext _ _ _ _ h3, ih _ _ _ _ _ _ h4 k' (by omega)⟩

end helpers

theorem fields_ext (rd : Schema → Bytes → R (Val × Bytes))
    (hext : ∀ s p v r q, rd s p = .ok (v, r) → rd s (p ++ q) = .ok (v, r ++ q)) :
    ∀ fs p acc kv r q, readFieldsWith rd fs p acc = .ok (kv, r) →
      readFieldsWith rd fs (p ++ q) acc = .ok (kv, r ++ q) := by
  intro fs
  induction fs with
  | nil =>
    intro p acc kv r q h
    simp only [readFieldsWith, pure_ok_iff, Prod.mk.injEq] at h ⊢
    obtain ⟨rfl, rfl⟩ := h; exact ⟨rfl, rfl⟩
  | cons f rest ih =>
    intro p acc kv r q h
    simp only [readFieldsWith, bind_ok_iff] at h ⊢
    obtain ⟨⟨x, r1⟩, h1, h2⟩ := h
    exact ⟨(x, r1 ++ q), hext _ _ _ _ _ h1, ih _ _ _ _ _ h2⟩

/-- **extension lemma**: a successful read of `p` is also a successful read of `p ++ q`, with the
    same value, and leaves `q` behind -/
theorem readData_ext (env : Env) (ro : ROpts) (f : Nat) :
    ∀ s p v r q, readData f env ro s p = .ok (v, r) → readData f env ro s (p ++ q) = .ok (v, r ++ q) := by
  induction f with
  | zero => intro s p v r q h; simp [readData] at h
  | succ f ih =>
    intro s p v r q h
    cases s with
    | prim pr df lt =>
      simp only [readData, bind_ok_iff] at h ⊢
      obtain ⟨⟨x, r1⟩, h1, h2⟩ := h
      refine ⟨(x, r1 ++ q), readPrim_ext _ _ _ _ _ h1, ?_⟩
      simp only at h2 ⊢
      split
      · rename_i hd
        simp only [hd, ↓reduceIte, bind_ok_iff, pure_ok_iff] at h2 ⊢
        obtain ⟨y, h3, h4⟩ := h2
        simp only [Prod.mk.injEq] at h4; obtain ⟨rfl, rfl⟩ := h4
        exact ⟨y, h3, rfl⟩
      · rename_i hd
        simp only [hd, Bool.false_eq_true, ↓reduceIte, pure_ok_iff, Prod.mk.injEq] at h2 ⊢
        obtain ⟨rfl, rfl⟩ := h2; exact ⟨rfl, rfl⟩
    | fixed n sz lt al =>
      simp only [readData, bind_ok_iff, pure_ok_iff] at h ⊢
      obtain ⟨⟨x, r1⟩, h1, y, h3, h4⟩ := h
      simp only [Prod.mk.injEq] at h4; obtain ⟨rfl, rfl⟩ := h4
      exact ⟨(x, r1 ++ q), decFixed_ext _ _ _ _ _ h1, y, h3, rfl⟩
    | enum n syms d al =>
      simp only [readData, bind_ok_iff] at h ⊢
      obtain ⟨⟨i, r1⟩, h1, h2⟩ := h
      refine ⟨(i, r1 ++ q), decodeLong_ext _ _ _ _ h1, ?_⟩
      simp only at h2 ⊢
      cases hi : indexChecked syms i with
      | none => simp [hi, throw_ne_ok] at h2
      | some sym =>
        simp only [hi, pure_ok_iff, Prod.mk.injEq] at h2 ⊢
        obtain ⟨rfl, rfl⟩ := h2; exact ⟨rfl, rfl⟩
    | array items =>
      simp only [readData, bind_ok_iff, pure_ok_iff] at h ⊢
      obtain ⟨⟨c, r1⟩, h1, ⟨xs, r2⟩, h2, h3⟩ := h
      simp only [Prod.mk.injEq] at h3; obtain ⟨rfl, rfl⟩ := h3
      refine ⟨(c, r1 ++ q), decodeLong_ext _ _ _ _ h1, (xs, r2 ++ q), ?_, rfl⟩
      exact blocks_ext _ (fun p v r q hh => ih items p v r q hh) _ _ _ _ _ _ h2 _ (by simp)
    | map values =>
      simp only [readData, bind_ok_iff, pure_ok_iff] at h ⊢
      obtain ⟨⟨c, r1⟩, h1, ⟨xs, r2⟩, h2, h3⟩ := h
      simp only [Prod.mk.injEq] at h3; obtain ⟨rfl, rfl⟩ := h3
      refine ⟨(c, r1 ++ q), decodeLong_ext _ _ _ _ h1, (xs, r2 ++ q), ?_, rfl⟩
      exact mapblocks_ext _ (fun p v r q hh => ih values p v r q hh) _ _ _ _ _ _ _ h2 _ (by simp)
    | union branches =>
      simp only [readData, bind_ok_iff] at h ⊢
      obtain ⟨⟨i, r1⟩, h1, h2⟩ := h
      refine ⟨(i, r1 ++ q), decodeLong_ext _ _ _ _ h1, ?_⟩
      simp only at h2 ⊢
      cases hb : indexChecked branches i with
      | none => simp [hb, throw_ne_ok] at h2
      | some b =>
        simp only [hb, bind_ok_iff, pure_ok_iff] at h2 ⊢
        obtain ⟨⟨x, r2⟩, h3, y, h4, h5⟩ := h2
        simp only [Prod.mk.injEq] at h5; obtain ⟨rfl, rfl⟩ := h5
        exact ⟨(x, r2 ++ q), ih b _ _ _ _ h3, y, h4, rfl⟩
    | record n fields al =>
      simp only [readData, bind_ok_iff, pure_ok_iff] at h ⊢
      obtain ⟨⟨kv, r1⟩, h1, h2⟩ := h
      simp only [Prod.mk.injEq] at h2; obtain ⟨rfl, rfl⟩ := h2
      exact ⟨(kv, r1 ++ q), fields_ext _ (fun s p v r q hh => ih s p v r q hh) _ _ _ _ _ _ h1, rfl⟩
    | ref n =>
      simp only [readData] at h ⊢
      cases hg : env.get? n with
      | none => simp [hg, throw_ne_ok] at h
      | some s' => simp only [hg] at h ⊢; exact ih s' _ _ _ _ h

end ExtendProofs
