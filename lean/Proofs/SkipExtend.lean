/-
  Proofs/SkipExtend.lean — skipping is length-checked like reading: a successful skip of `p` is a successful
  skip of `p ++ q` that leaves `q` behind (so no proper prefix of a valid encoding can be skipped).
-/
import Proofs.Extend

namespace SkipExtendProofs
open Binary ExtendProofs MonoProofs

theorem blockCount_ext' (c : Int) (p : Bytes) (n : Nat) (r q : Bytes) (h : blockCount c p = .ok (n, r)) :
    blockCount c (p ++ q) = .ok (n, r ++ q) := by
  unfold blockCount at h ⊢
  split
  · rename_i hc
    simp only [hc, ↓reduceIte, bind_ok_iff, pure_ok_iff] at h ⊢
    obtain ⟨⟨sz, r1⟩, h1, h2⟩ := h
    simp only [Prod.mk.injEq] at h2; obtain ⟨rfl, rfl⟩ := h2
    exact ⟨(sz, r1 ++ q), decodeLong_ext _ _ _ _ h1, rfl⟩
  · rename_i hc
    simp only [hc, ↓reduceIte, pure_ok_iff, Prod.mk.injEq] at h ⊢
    obtain ⟨rfl, rfl⟩ := h; exact ⟨rfl, rfl⟩

section helpers
variable (sk : Bytes → R Bytes)
  (hext : ∀ p r q, sk p = .ok r → sk (p ++ q) = .ok (r ++ q))
include hext

theorem skipItems_ext (isMap : Bool) : ∀ n p r q, skipItemsWith sk isMap n p = .ok r →
    skipItemsWith sk isMap n (p ++ q) = .ok (r ++ q) := by
  intro n
  induction n with
  | zero =>
    intro p r q h
    simp only [skipItemsWith, pure_ok_iff] at h ⊢
    subst h; rfl
  | succ n ih =>
    intro p r q h
    cases isMap with
    | false =>
      simp only [skipItemsWith, Bool.false_eq_true, ↓reduceIte, bind_ok_iff, pure_ok_iff] at h ⊢
      obtain ⟨b0, h0, b1, h1, h2⟩ := h
      subst h0
      exact ⟨p ++ q, rfl, b1 ++ q, hext _ _ _ h1, ih _ _ _ h2⟩
    | true =>
      simp only [skipItemsWith, ↓reduceIte, bind_ok_iff, pure_ok_iff] at h ⊢
      obtain ⟨b0, ⟨⟨s, r0⟩, hk, hb0⟩, b1, h1, h2⟩ := h
      simp only at hb0
      subst hb0
      exact ⟨r0 ++ q, ⟨(s, r0 ++ q), decUtf8Raw_ext _ _ _ _ hk, rfl⟩, b1 ++ q, hext _ _ _ h1, ih _ _ _ h2⟩

theorem skipBlocks_ext (isMap : Bool) : ∀ k c p r q, skipBlocksWith sk isMap k c p = .ok r →
    ∀ k', k ≤ k' → skipBlocksWith sk isMap k' c (p ++ q) = .ok (r ++ q) := by
  intro k
  induction k with
  | zero => intro c p r q h; simp [skipBlocksWith] at h
  | succ k ih =>
    intro c p r q h k' hk
    cases k' with
    | zero => omega
    | succ k' =>
      simp only [skipBlocksWith] at h ⊢
      split
      · rename_i hc
        simp only [hc, ↓reduceIte, pure_ok_iff] at h ⊢
        subst h; rfl
      · rename_i hc
        simp only [hc, Bool.false_eq_true, ↓reduceIte, bind_ok_iff] at h ⊢
        obtain ⟨⟨n, b1⟩, h1, b2, h2, ⟨c', b3⟩, h3, h4⟩ := h
        exact ⟨(n, b1 ++ q), blockCount_ext' _ _ _ _ _ h1,
          b2 ++ q, skipItems_ext sk hext isMap _ _ _ _ h2, (c', b3 ++ q), decodeLong_ext _ _ _ _ h3, ih _ _ _ _ h4 k' (by omega)⟩

end helpers

theorem skipFields_ext (sk : Schema → Bytes → R Bytes)
    (hext : ∀ s p r q, sk s p = .ok r → sk s (p ++ q) = .ok (r ++ q)) :
    ∀ fs p r q, skipFieldsWith sk fs p = .ok r → skipFieldsWith sk fs (p ++ q) = .ok (r ++ q) := by
  intro fs
  induction fs with
  | nil =>
    intro p r q h
    simp only [skipFieldsWith, pure_ok_iff] at h ⊢
    subst h; rfl
  | cons f rest ih =>
    intro p r q h
    simp only [skipFieldsWith, bind_ok_iff] at h ⊢
    obtain ⟨b1, h1, h2⟩ := h
    exact ⟨b1 ++ q, hext _ _ _ _ h1, ih _ _ _ h2⟩

theorem skipPrim_ext (pr : Prim) (p r q : Bytes) (h : skipPrim pr p = .ok r) : skipPrim pr (p ++ q) = .ok (r ++ q) := by
  cases pr <;> simp only [skipPrim, bind_ok_iff, pure_ok_iff] at h ⊢
  · subst h; rfl
  · obtain ⟨⟨v, r1⟩, h1, h2⟩ := h; simp only at h2; subst h2; exact ⟨(v, r1 ++ q), decBool_ext _ _ _ _ h1, rfl⟩
  · obtain ⟨⟨v, r1⟩, h1, h2⟩ := h; simp only at h2; subst h2; exact ⟨(v, r1 ++ q), decodeLong_ext _ _ _ _ h1, rfl⟩
  · obtain ⟨⟨v, r1⟩, h1, h2⟩ := h; simp only at h2; subst h2; exact ⟨(v, r1 ++ q), decodeLong_ext _ _ _ _ h1, rfl⟩
  · obtain ⟨⟨v, r1⟩, h1, h2⟩ := h; simp only at h2; subst h2; exact ⟨(v, r1 ++ q), decFloat_ext _ _ _ _ h1, rfl⟩
  · obtain ⟨⟨v, r1⟩, h1, h2⟩ := h; simp only at h2; subst h2; exact ⟨(v, r1 ++ q), decDouble_ext _ _ _ _ h1, rfl⟩
  · obtain ⟨⟨v, r1⟩, h1, h2⟩ := h; simp only at h2; subst h2; exact ⟨(v, r1 ++ q), decBytesRaw_ext _ _ _ _ h1, rfl⟩
  · obtain ⟨⟨v, r1⟩, h1, h2⟩ := h; simp only at h2; subst h2; exact ⟨(v, r1 ++ q), decUtf8Raw_ext _ _ _ _ h1, rfl⟩

/-- **extension lemma for skipping** -/
theorem skipData_ext (env : Env) (f : Nat) :
    ∀ s p r q, skipData f env s p = .ok r → skipData f env s (p ++ q) = .ok (r ++ q) := by
  induction f with
  | zero => intro s p r q h; simp [skipData] at h
  | succ f ih =>
    intro s p r q h
    cases s with
    | prim pr df lt => simp only [skipData] at h ⊢; exact skipPrim_ext pr p r q h
    | fixed n sz lt al =>
      simp only [skipData, bind_ok_iff, pure_ok_iff] at h ⊢
      obtain ⟨⟨v, r1⟩, h1, h2⟩ := h; simp only at h2; subst h2
      exact ⟨(v, r1 ++ q), decFixed_ext _ _ _ _ _ h1, rfl⟩
    | enum n syms d al =>
      simp only [skipData, bind_ok_iff, pure_ok_iff] at h ⊢
      obtain ⟨⟨v, r1⟩, h1, h2⟩ := h; simp only at h2; subst h2
      exact ⟨(v, r1 ++ q), decodeLong_ext _ _ _ _ h1, rfl⟩
    | array items =>
      simp only [skipData, bind_ok_iff] at h ⊢
      obtain ⟨⟨c, r1⟩, h1, h2⟩ := h
      refine ⟨(c, r1 ++ q), decodeLong_ext _ _ _ _ h1, ?_⟩
      exact skipBlocks_ext _ (fun p r q hh => ih items p r q hh) false _ _ _ _ _ h2 _ (by simp)
    | map values =>
      simp only [skipData, bind_ok_iff] at h ⊢
      obtain ⟨⟨c, r1⟩, h1, h2⟩ := h
      refine ⟨(c, r1 ++ q), decodeLong_ext _ _ _ _ h1, ?_⟩
      exact skipBlocks_ext _ (fun p r q hh => ih values p r q hh) true _ _ _ _ _ h2 _ (by simp)
    | union branches =>
      simp only [skipData, bind_ok_iff] at h ⊢
      obtain ⟨⟨i, r1⟩, h1, h2⟩ := h
      refine ⟨(i, r1 ++ q), decodeLong_ext _ _ _ _ h1, ?_⟩
      simp only at h2 ⊢
      cases hb : indexChecked branches i with
      | none => simp [hb, throw_ne_ok] at h2
      | some b => simp only [hb] at h2 ⊢; exact ih b _ _ _ h2
    | record n fields al =>
      simp only [skipData] at h ⊢
      exact skipFields_ext _ (fun s p r q hh => ih s p r q hh) _ _ _ _ h
    | ref n =>
      simp only [skipData] at h ⊢
      cases hg : env.get? n with
      | none => simp [hg, throw_ne_ok] at h
      | some s' => simp only [hg] at h ⊢; exact ih s' _ _ _ h

end SkipExtendProofs
