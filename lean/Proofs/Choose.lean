/-
  Proofs/Choose.lean — C09: the scan of `write_union` implements the documented choice rule.
-/
import Model.Binary
import Spec.Choose
import Proofs.Validate

namespace ChooseProofs
open Binary MonoProofs

/-- the scan with `_validate` replaced by a Boolean function -/
def stepP (cf : Schema → Bool) (env : Env) (v : Val) (st : Scan) (idx : Nat) (c : Schema) : Scan :=
  if st.done then st else
  if st.couldBeFloat then
    if c.typeName == "double" then { st with best := some idx, done := true } else st
  else
    if !cf c then st else scanUpdate env v st idx c

def scanP (cf : Schema → Bool) (env : Env) (v : Val) : Scan → Nat → List Schema → Scan
  | st, _, [] => st
  | st, idx, c :: rest => scanP cf env v (stepP cf env v st idx c) (idx + 1) rest

theorem scan_pure (fuel : Nat) (env : Env) (o : WOpts) (v : Val) (cf : Schema → Bool) (bs : List Schema)
    (hval : ∀ b ∈ bs, Validate.validate fuel env o.toV false "" b (some v) = .ok (cf b)) :
    ∀ st idx, scan fuel env o v st idx bs = .ok (scanP cf env v st idx bs) := by
  induction bs with
  | nil => intro st idx; rfl
  | cons c rest ih =>
    intro st idx
    have hstep : scanStep fuel env o v st idx c = .ok (stepP cf env v st idx c) := by
      unfold scanStep stepP
      split
      · rfl
      · split
        · split <;> rfl
        · simp only [hval c (by simp), bind, Except.bind]
          cases hcf : cf c <;> rfl
    simp only [scan, hstep, bind, Except.bind, scanP]
    exact ih (fun b hb => hval b (by simp [hb])) _ _

theorem scanP_done (cf : Schema → Bool) (env : Env) (v : Val) (st : Scan) (h : st.done = true) (i : Nat) (bs : List Schema) :
    scanP cf env v st i bs = st := by
  induction bs generalizing i with
  | nil => rfl
  | cons c cs ih => simp [scanP, stepP, h, ih]

theorem scanP_cbf (cf : Schema → Bool) (env : Env) (v : Val) (st : Scan) (hd : st.done = false) (hc : st.couldBeFloat = true)
    (i : Nat) (bs : List Schema) :
    (scanP cf env v st i bs).best =
      match Spec.firstFrom (fun d => d.typeName == "double") i bs with
      | some k => some k
      | none => st.best := by
  induction bs generalizing i with
  | nil => simp [scanP, Spec.firstFrom]
  | cons c cs ih =>
    simp only [scanP, Spec.firstFrom]
    by_cases hk : (c.typeName == "double") = true
    · have : stepP cf env v st i c = { st with best := some i, done := true } := by simp [stepP, hd, hc, hk]
      rw [this, scanP_done _ _ _ _ rfl]; simp [hk]
    · have : stepP cf env v st i c = st := by simp [stepP, hd, hc, hk]
      rw [this, ih]; simp [hk]

theorem scanUpdate_record (env : Env) (v : Val) (st : Scan) (i : Nat) (c : Schema) {n fs al}
    (hu : unwrapRef env c = Schema.record n fs al) :
    scanUpdate env v st i c =
      if sharedCount fs v > st.most then { st with best := some i, most := sharedCount fs v } else st := by
  unfold scanUpdate; rw [hu]

theorem scanUpdate_other (env : Env) (v : Val) (st : Scan) (i : Nat) (c : Schema)
    (hu : ∀ n fs al, unwrapRef env c ≠ Schema.record n fs al) :
    scanUpdate env v st i c =
      if (unwrapRef env c).typeName == "float" then { st with best := some i, couldBeFloat := true }
      else { st with best := some i, done := true } := by
  unfold scanUpdate
  split
  · rename_i n fs al heq; exact absurd heq (hu n fs al)
  · rfl

theorem scanP_spec (cf : Schema → Bool) (env : Env) (v : Val) (st : Scan) (hd : st.done = false) (hc : st.couldBeFloat = false)
    (i : Nat) (bs : List Schema) :
    (scanP cf env v st i bs).best = Spec.chooseFrom cf env v st.best st.most i bs := by
  induction bs generalizing st i with
  | nil => simp [scanP, Spec.chooseFrom]
  | cons c cs ih =>
    simp only [scanP, Spec.chooseFrom]
    cases hcf : cf c
    · have : stepP cf env v st i c = st := by simp [stepP, hd, hc, hcf]
      rw [this]; simp only [Bool.false_and, Bool.false_eq_true, ↓reduceIte]
      exact ih st hd hc _
    · simp only [Bool.true_and]
      by_cases hrec : Spec.isRecordBranch env c = true
      · -- a conforming record branch
        simp only [hrec, Bool.not_true, Bool.false_eq_true, ↓reduceIte]
        have ⟨n, fs, al, hu⟩ : ∃ n fs al, unwrapRef env c = Schema.record n fs al := by
          unfold Spec.isRecordBranch at hrec
          cases hu : unwrapRef env c <;> simp [hu] at hrec
          exact ⟨_, _, _, rfl⟩
        have hsh : Spec.sharedWith env c v = sharedCount fs v := by simp only [Spec.sharedWith, hu]
        have hstep : stepP cf env v st i c =
            if sharedCount fs v > st.most then { st with best := some i, most := sharedCount fs v } else st := by
          simp only [stepP, hd, hc, hcf, Bool.false_eq_true, ↓reduceIte, Bool.not_true, scanUpdate_record env v st i c hu]
        rw [hstep, hsh]
        by_cases hg : sharedCount fs v > st.most
        · simp only [hg, ↓reduceIte, decide_true]
          exact ih { st with best := some i, most := sharedCount fs v } hd hc _
        · simp only [hg, ↓reduceIte, decide_false, Bool.false_eq_true]
          exact ih st hd hc _
      · -- the first conforming non-record branch decides
        have hrec' : Spec.isRecordBranch env c = false := by simpa using hrec
        simp only [hrec', Bool.not_false, ↓reduceIte]
        have hu : ∀ n fs al, unwrapRef env c ≠ Schema.record n fs al := by
          intro n fs al heq
          simp [Spec.isRecordBranch, heq] at hrec'
        have hstep : stepP cf env v st i c =
            if (unwrapRef env c).typeName == "float" then { st with best := some i, couldBeFloat := true }
            else { st with best := some i, done := true } := by
          simp only [stepP, hd, hc, hcf, Bool.false_eq_true, ↓reduceIte, Bool.not_true, scanUpdate_other env v st i c hu]
        rw [hstep]
        by_cases hf : ((unwrapRef env c).typeName == "float") = true
        · simp only [hf, ↓reduceIte]
          rw [scanP_cbf _ _ _ _ (by simpa using hd) rfl]
          cases Spec.firstFrom (fun d => d.typeName == "double") (i + 1) cs <;> rfl
        · simp only [hf, Bool.false_eq_true, ↓reduceIte]
          rw [scanP_done _ _ _ _ rfl]

/-- **C09 (choice rule).** whenever every branch validation returns a Boolean (`cf`) — no exception —
    the un-hinted scan of `write_union` ends with exactly the branch the documented rule prescribes -/
theorem scan_eq_spec (fuel : Nat) (env : Env) (o : WOpts) (v : Val) (cf : Schema → Bool) (bs : List Schema)
    (hval : ∀ b ∈ bs, Validate.validate fuel env o.toV false "" b (some v) = .ok (cf b)) :
    ∃ st, scan fuel env o v {} 0 bs = .ok st ∧ st.best = Spec.chooseFrom cf env v none (-1) 0 bs := by
  refine ⟨_, scan_pure fuel env o v cf bs hval {} 0, ?_⟩
  exact scanP_spec cf env v {} rfl rfl 0 bs

end ChooseProofs
