/-
  Proofs/Mono.lean — more nesting budget never changes a successful read / skip: monotonicity of
  `readData` / `skipData` in the fuel, and of the block loops in their block budget.
-/
import Model.Binary

namespace MonoProofs
open Binary

theorem bind_ok_iff {α β} (x : R α) (f : α → R β) (r : β) :
    (x >>= f) = .ok r ↔ ∃ a, x = .ok a ∧ f a = .ok r := by
  cases x with
  | error e => simp [bind, Except.bind]
  | ok a => simp [bind, Except.bind]

theorem pure_ok_iff {α} (a r : α) : (pure a : R α) = .ok r ↔ a = r := by
  simp [pure, Except.pure]

theorem throw_ne_ok {α} (e : Err) (r : α) : (throw e : R α) = .ok r ↔ False := by
  simp [throw, throwThe, MonadExceptOf.throw]

section helpers
variable (rd rd' : Bytes → R (Val × Bytes)) (h : ∀ bs r, rd bs = .ok r → rd' bs = .ok r)
include h

theorem readItemsWith_mono : ∀ n bs r, readItemsWith rd n bs = .ok r → readItemsWith rd' n bs = .ok r := by
  intro n
  induction n with
  | zero => intro bs r hr; simpa [readItemsWith] using hr
  | succ n ih =>
    intro bs r hr
    simp only [readItemsWith, bind_ok_iff, pure_ok_iff] at hr ⊢
    obtain ⟨⟨x, b1⟩, h1, ⟨xs, b2⟩, h2, h3⟩ := hr
    exact ⟨(x, b1), h _ _ h1, (xs, b2), ih _ _ h2, h3⟩

theorem readBlocksWith_mono : ∀ k c bs r, readBlocksWith rd k c bs = .ok r →
    ∀ k', k ≤ k' → readBlocksWith rd' k' c bs = .ok r := by
  intro k
  induction k with
  | zero => intro c bs r hr; simp [readBlocksWith] at hr
  | succ k ih =>
    intro c bs r hr k' hk
    cases k' with
    | zero => omega
    | succ k' =>
      simp only [readBlocksWith] at hr ⊢
      split
      · rename_i hc; simp only [hc, ↓reduceIte] at hr; exact hr
      · rename_i hc
        simp only [hc, Bool.false_eq_true, ↓reduceIte, bind_ok_iff, pure_ok_iff] at hr ⊢
        obtain ⟨⟨n, b1⟩, h1, ⟨xs, b2⟩, h2, ⟨c', b3⟩, h3, ⟨ys, b4⟩, h4, h5⟩ := hr
        exact ⟨(n, b1), h1, (xs, b2), readItemsWith_mono rd rd' h _ _ _ h2, (c', b3), h3, (ys, b4),
          ih _ _ _ h4 k' (by omega), h5⟩

theorem readEntriesWith_mono : ∀ n bs acc r, readEntriesWith rd n bs acc = .ok r →
    readEntriesWith rd' n bs acc = .ok r := by
  intro n
  induction n with
  | zero => intro bs acc r hr; simpa [readEntriesWith] using hr
  | succ n ih =>
    intro bs acc r hr
    simp only [readEntriesWith, bind_ok_iff] at hr ⊢
    obtain ⟨⟨k, b1⟩, h1, ⟨x, b2⟩, h2, h3⟩ := hr
    exact ⟨(k, b1), h1, (x, b2), h _ _ h2, ih _ _ _ h3⟩

theorem readMapBlocksWith_mono : ∀ k c bs acc r, readMapBlocksWith rd k c bs acc = .ok r →
    ∀ k', k ≤ k' → readMapBlocksWith rd' k' c bs acc = .ok r := by
  intro k
  induction k with
  | zero => intro c bs acc r hr; simp [readMapBlocksWith] at hr
  | succ k ih =>
    intro c bs acc r hr k' hk
    cases k' with
    | zero => omega
    | succ k' =>
      simp only [readMapBlocksWith] at hr ⊢
      split
      · rename_i hc; simp only [hc, ↓reduceIte] at hr; exact hr
      · rename_i hc
        simp only [hc, Bool.false_eq_true, ↓reduceIte, bind_ok_iff] at hr ⊢
        obtain ⟨⟨n, b1⟩, h1, ⟨acc', b2⟩, h2, ⟨c', b3⟩, h3, h4⟩ := hr
        exact ⟨(n, b1), h1, (acc', b2), readEntriesWith_mono rd rd' h _ _ _ _ h2, (c', b3), h3,
          ih _ _ _ _ h4 k' (by omega)⟩

end helpers

theorem readFieldsWith_mono (rd rd' : Schema → Bytes → R (Val × Bytes))
    (h : ∀ s bs r, rd s bs = .ok r → rd' s bs = .ok r) :
    ∀ fs bs acc r, readFieldsWith rd fs bs acc = .ok r → readFieldsWith rd' fs bs acc = .ok r := by
  intro fs
  induction fs with
  | nil => intro bs acc r hr; simpa [readFieldsWith] using hr
  | cons f rest ih =>
    intro bs acc r hr
    simp only [readFieldsWith, bind_ok_iff] at hr ⊢
    obtain ⟨⟨x, b1⟩, h1, h2⟩ := hr
    exact ⟨(x, b1), h _ _ _ h1, ih _ _ _ h2⟩

theorem readData_mono (env : Env) (ro : ROpts) (f : Nat) :
    ∀ s bs r, readData f env ro s bs = .ok r → readData (f + 1) env ro s bs = .ok r := by
  induction f with
  | zero => intro s bs r hr; simp [readData] at hr
  | succ f ih =>
    intro s bs r hr
    cases s with
    | prim p df lt => simpa [readData] using hr
    | fixed n sz lt al => simpa [readData] using hr
    | enum n syms d al => simpa [readData] using hr
    | array items =>
      simp only [readData, bind_ok_iff, pure_ok_iff] at hr ⊢
      obtain ⟨⟨c, b1⟩, h1, ⟨xs, b2⟩, h2, h3⟩ := hr
      exact ⟨(c, b1), h1, (xs, b2),
        readBlocksWith_mono _ _ (fun bs r hh => ih items bs r hh) _ _ _ _ h2 _ (Nat.le_refl _), h3⟩
    | map values =>
      simp only [readData, bind_ok_iff, pure_ok_iff] at hr ⊢
      obtain ⟨⟨c, b1⟩, h1, ⟨xs, b2⟩, h2, h3⟩ := hr
      exact ⟨(c, b1), h1, (xs, b2),
        readMapBlocksWith_mono _ _ (fun bs r hh => ih values bs r hh) _ _ _ _ _ h2 _ (Nat.le_refl _), h3⟩
    | union branches =>
      simp only [readData, bind_ok_iff] at hr ⊢
      obtain ⟨⟨i, b1⟩, h1, h2⟩ := hr
      refine ⟨(i, b1), h1, ?_⟩
      cases hb : indexChecked branches i with
      | none => simp [hb, throw_ne_ok] at h2
      | some b =>
        simp only [hb, bind_ok_iff, pure_ok_iff] at h2 ⊢
        obtain ⟨⟨v, b2⟩, h3, v', h4, h5⟩ := h2
        exact ⟨(v, b2), ih b _ _ h3, v', h4, h5⟩
    | record n fields al =>
      simp only [readData, bind_ok_iff, pure_ok_iff] at hr ⊢
      obtain ⟨⟨kv, b1⟩, h1, h2⟩ := hr
      exact ⟨(kv, b1), readFieldsWith_mono _ _ (fun s bs r hh => ih s bs r hh) _ _ _ _ h1, h2⟩
    | ref n =>
      simp only [readData] at hr ⊢
      cases hg : env.get? n with
      | none => simp [hg, throw_ne_ok] at hr
      | some s' => simp only [hg] at hr ⊢; exact ih s' bs r hr

theorem readData_mono_le (env : Env) (ro : ROpts) {f g : Nat} (hfg : f ≤ g) :
    ∀ s bs r, readData f env ro s bs = .ok r → readData g env ro s bs = .ok r := by
  induction hfg with
  | refl => intro s bs r h; exact h
  | step _ ih => intro s bs r h; exact readData_mono env ro _ s bs r (ih s bs r h)

/-! ### the same for skipping -/

section skiphelpers
variable (sk sk' : Bytes → R Bytes) (h : ∀ bs r, sk bs = .ok r → sk' bs = .ok r)
include h

theorem skipItemsWith_mono (isMap : Bool) : ∀ n bs r, skipItemsWith sk isMap n bs = .ok r →
    skipItemsWith sk' isMap n bs = .ok r := by
  intro n
  induction n with
  | zero => intro bs r hr; simpa [skipItemsWith] using hr
  | succ n ih =>
    intro bs r hr
    simp only [skipItemsWith, bind_ok_iff] at hr ⊢
    obtain ⟨b1, h1, b2, h2, h3⟩ := hr
    exact ⟨b1, h1, b2, h _ _ h2, ih _ _ h3⟩

theorem skipBlocksWith_mono (isMap : Bool) : ∀ k c bs r, skipBlocksWith sk isMap k c bs = .ok r →
    ∀ k', k ≤ k' → skipBlocksWith sk' isMap k' c bs = .ok r := by
  intro k
  induction k with
  | zero => intro c bs r hr; simp [skipBlocksWith] at hr
  | succ k ih =>
    intro c bs r hr k' hk
    cases k' with
    | zero => omega
    | succ k' =>
      simp only [skipBlocksWith] at hr ⊢
      split
      · rename_i hc; simp only [hc, ↓reduceIte] at hr; exact hr
      · rename_i hc
        simp only [hc, Bool.false_eq_true, ↓reduceIte, bind_ok_iff] at hr ⊢
        obtain ⟨⟨n, b1⟩, h1, b2, h2, ⟨c', b3⟩, h3, h4⟩ := hr
        exact ⟨(n, b1), h1, b2, skipItemsWith_mono sk sk' h isMap _ _ _ h2, (c', b3), h3,
          ih _ _ _ h4 k' (by omega)⟩

end skiphelpers

theorem skipFieldsWith_mono (sk sk' : Schema → Bytes → R Bytes)
    (h : ∀ s bs r, sk s bs = .ok r → sk' s bs = .ok r) :
    ∀ fs bs r, skipFieldsWith sk fs bs = .ok r → skipFieldsWith sk' fs bs = .ok r := by
  intro fs
  induction fs with
  | nil => intro bs r hr; simpa [skipFieldsWith] using hr
  | cons f rest ih =>
    intro bs r hr
    simp only [skipFieldsWith, bind_ok_iff] at hr ⊢
    obtain ⟨b1, h1, h2⟩ := hr
    exact ⟨b1, h _ _ _ h1, ih _ _ h2⟩

theorem skipData_mono (env : Env) (f : Nat) :
    ∀ s bs r, skipData f env s bs = .ok r → skipData (f + 1) env s bs = .ok r := by
  induction f with
  | zero => intro s bs r hr; simp [skipData] at hr
  | succ f ih =>
    intro s bs r hr
    cases s with
    | prim p df lt => simpa [skipData] using hr
    | fixed n sz lt al => simpa [skipData] using hr
    | enum n syms d al => simpa [skipData] using hr
    | array items =>
      simp only [skipData, bind_ok_iff] at hr ⊢
      obtain ⟨⟨c, b1⟩, h1, h2⟩ := hr
      exact ⟨(c, b1), h1, skipBlocksWith_mono _ _ (fun bs r hh => ih items bs r hh) _ _ _ _ _ h2 _ (Nat.le_refl _)⟩
    | map values =>
      simp only [skipData, bind_ok_iff] at hr ⊢
      obtain ⟨⟨c, b1⟩, h1, h2⟩ := hr
      exact ⟨(c, b1), h1, skipBlocksWith_mono _ _ (fun bs r hh => ih values bs r hh) _ _ _ _ _ h2 _ (Nat.le_refl _)⟩
    | union branches =>
      simp only [skipData, bind_ok_iff] at hr ⊢
      obtain ⟨⟨i, b1⟩, h1, h2⟩ := hr
      refine ⟨(i, b1), h1, ?_⟩
      cases hb : indexChecked branches i with
      | none => simp [hb, throw_ne_ok] at h2
      | some b => simp only [hb] at h2 ⊢; exact ih b _ _ h2
    | record n fields al =>
      simp only [skipData] at hr ⊢
      exact skipFieldsWith_mono _ _ (fun s bs r hh => ih s bs r hh) _ _ _ hr
    | ref n =>
      simp only [skipData] at hr ⊢
      cases hg : env.get? n with
      | none => simp [hg, throw_ne_ok] at hr
      | some s' => simp only [hg] at hr ⊢; exact ih s' bs r hr

theorem skipData_mono_le (env : Env) {f g : Nat} (hfg : f ≤ g) :
    ∀ s bs r, skipData f env s bs = .ok r → skipData g env s bs = .ok r := by
  induction hfg with
  | refl => intro s bs r h; exact h
  | step _ ih => intro s bs r h; exact skipData_mono env _ s bs r (ih s bs r h)

end MonoProofs
