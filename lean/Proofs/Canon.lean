/-
  Proofs/Canon.lean — C13/C11: whatever `parse_schema` accepts, the canonical form of the parsed
  schema is the specification's transformation of the *raw* schema (`Spec.pcf`); in particular every
  named type carries the full name the specification's namespace rules give it and every reference
  is spelled with the full name of its target.
-/
import Model.Parse
import Model.Canon
import Spec.Pcf
import Proofs.Mono

namespace CanonProofs
open Parse MonoProofs

/-! hand-stated equations of `Canon.canon` (the generated ones are expensive to derive) -/
theorem canon_prim (p d l) : Canon.canon (.prim p d l) = Canon.q p.name := by rfl
theorem canon_ref (n) : Canon.canon (.ref n) = Canon.q n := by rfl
theorem canon_union (bs) : Canon.canon (.union bs) = "[" ++ Canon.canonList bs ++ "]" := by rfl
theorem canon_array (i) : Canon.canon (.array i) = "{\"type\":\"array\",\"items\":" ++ Canon.canon i ++ "}" := by rfl
theorem canon_map (i) : Canon.canon (.map i) = "{\"type\":\"map\",\"values\":" ++ Canon.canon i ++ "}" := by rfl
theorem canon_enum (n sy d a) : Canon.canon (.enum n sy d a) =
    "{\"name\":" ++ Canon.q n ++ ",\"type\":\"enum\",\"symbols\":[" ++ ",".intercalate (sy.map Canon.q) ++ "]}" := by rfl
theorem canon_fixed (n sz l a) : Canon.canon (.fixed n sz l a) =
    "{\"name\":" ++ Canon.q n ++ ",\"type\":\"fixed\",\"size\":" ++ toString sz ++ "}" := by rfl
theorem canon_record (a b c) : Canon.canon (.record a b c) =
    "{\"name\":" ++ Canon.q a ++ ",\"type\":\"record\",\"fields\":[" ++ Canon.canonFields b ++ "]}" := by rfl

theorem commaSep_eq (l : List String) : Spec.commaSep l = ",".intercalate l := by
  induction l with
  | nil => rfl
  | cons a as ih =>
    cases as with
    | nil => simp [Spec.commaSep]
    | cons b bs => rw [String.intercalate_cons_cons, ← ih]; rfl

theorem ofName_some {name : String} {p : Prim} (h : Prim.ofName? name = some p) :
    Spec.PRIMS.contains name = true ∧ p.name = name := by
  unfold Prim.ofName? at h
  split at h <;> simp only [Option.some.injEq, reduceCtorEq] at h <;> subst h <;> exact ⟨by decide, rfl⟩

theorem ofName_none {name : String} (h : Prim.ofName? name = none) : Spec.PRIMS.contains name = false := by
  cases hc : Spec.PRIMS.contains name with
  | false => rfl
  | true =>
    simp only [Spec.PRIMS, List.contains_cons, List.contains_nil, Bool.or_false, Bool.or_eq_true, beq_iff_eq] at hc
    rcases hc with rfl | rfl | rfl | rfl | rfl | rfl | rfl | rfl <;> simp [Prim.ofName?] at h

theorem canonList_eq (bs : List Schema) : Canon.canonList bs = Spec.commaSep (bs.map Canon.canon) := by
  induction bs with
  | nil => rfl
  | cons b bs ih =>
    cases bs with
    | nil => rfl
    | cons c cs => simp only [Canon.canonList, List.map_cons, Spec.commaSep, ih]

def fieldText (f : Field) : String := "{\"name\":" ++ Canon.q f.name ++ ",\"type\":" ++ Canon.canon f.type ++ "}"

theorem canonFields_eq (fs : List Field) : Canon.canonFields fs = Spec.commaSep (fs.map fieldText) := by
  induction fs with
  | nil => rfl
  | cons f fs ih =>
    obtain ⟨n, t, d, a⟩ := f
    cases fs with
    | nil => rfl
    | cons g gs =>
      obtain ⟨n2, t2, d2, a2⟩ := g
      simp only [Canon.canonFields, List.map_cons, Spec.commaSep, fieldText, Field.name, Field.type] at ih ⊢
      rw [ih]
      have e : "}," = "}" ++ "," := by decide
      simp only [String.append_assoc, e]

theorem schemaName_full (kv : List (Val × Val)) (ns : String) (r : String × String)
    (h : schemaName kv ns = .ok r) : Spec.fullNameOf kv ns = some r := by
  unfold schemaName at h
  unfold Spec.fullNameOf
  cases hn : dictGetV kv "name" with
  | none => simp [hn] at h
  | some nv =>
    cases nv <;> simp only [hn, reduceCtorEq] at h
    rename_i name
    simp only
    cases hns : dictGetV kv "namespace" with
    | none =>
      simp only [hns] at h ⊢
      split at h <;> split <;> (try split) <;> (try split at h) <;> simp_all
    | some nsv =>
      cases nsv <;> simp only [hns] at h ⊢ <;> (try (simp at h; done))
      all_goals (split at h <;> split <;> (try split) <;> (try split at h) <;> simp_all)

theorem list_lockstep (p : Val → St → R (Schema × St)) (f : Val → Option String) (xs : List Val) :
    ∀ st bs st', parseListWith p xs st = .ok (bs, st') →
      (∀ x ∈ xs, ∀ st s st', p x st = .ok (s, st') → f x = some (Canon.canon s)) →
      Spec.mapM? f xs = some (bs.map Canon.canon) := by
  induction xs with
  | nil =>
    intro st bs st' h _
    simp only [parseListWith, Except.ok.injEq, Prod.mk.injEq] at h
    obtain ⟨rfl, _⟩ := h; rfl
  | cons x xs ih =>
    intro st bs st' h hf
    simp only [parseListWith, bind_ok_iff, pure_ok_iff] at h
    obtain ⟨⟨s, st1⟩, h1, ⟨ss, st2⟩, h2, h3⟩ := h
    simp only [Prod.mk.injEq] at h3
    obtain ⟨rfl, _⟩ := h3
    simp only [Spec.mapM?, hf x (by simp) st s st1 h1, Option.bind_eq_bind, Option.bind_some,
      ih st1 ss st2 h2 (fun y hy => hf y (by simp [hy])), List.map_cons]

theorem fieldHeader_ok (kv : List (Val × Val)) (al : List String) (d : Option Val) (name : String) (ty : Val)
    (h : fieldHeader kv = .ok (al, d, name, ty)) :
    dictGetV kv "name" = some (.str name) ∧ dictGetV kv "type" = some ty ∧ d = dictGetV kv "default" := by
  have key : ∀ al', fieldHeader.fieldHeader2 kv al' = .ok (al, d, name, ty) →
      dictGetV kv "name" = some (.str name) ∧ dictGetV kv "type" = some ty ∧ d = dictGetV kv "default" := by
    intro al' h'
    unfold fieldHeader.fieldHeader2 at h'
    split at h' <;> simp only [Except.ok.injEq, Prod.mk.injEq, reduceCtorEq] at h'
    rename_i n ty' hn ht
    obtain ⟨_, rfl, rfl, rfl⟩ := h'
    exact ⟨hn, ht, rfl⟩
  unfold fieldHeader at h
  split at h
  · exact key _ h
  · simp at h
  · exact key _ h

theorem fields_lockstep (p : Val → St → Option Val → R (Schema × St)) (f : Val → Option String) (xs : List Val) :
    ∀ st fs st', parseFieldsWith p xs st = .ok (fs, st') →
      (∀ kv ty st d s st', (Val.dict kv) ∈ xs → dictGetV kv "type" = some ty → p ty st d = .ok (s, st') →
          f ty = some (Canon.canon s)) →
      Spec.mapM? (Spec.fieldTextWith f) xs = some (fs.map fieldText) := by
  induction xs with
  | nil =>
    intro st fs st' h _
    simp only [parseFieldsWith, Except.ok.injEq, Prod.mk.injEq] at h
    obtain ⟨rfl, _⟩ := h; rfl
  | cons x xs ih =>
    intro st fs st' h hf
    cases x <;> simp only [parseFieldsWith, reduceCtorEq] at h
    rename_i kv
    simp only [bind_ok_iff, pure_ok_iff] at h
    obtain ⟨⟨aliases, dflt, name, ty⟩, hh, ⟨s, st1⟩, h1, ⟨rest, st2⟩, h2, h3⟩ := h
    simp only [Prod.mk.injEq] at h3
    obtain ⟨rfl, _⟩ := h3
    obtain ⟨hn, ht, hd⟩ := fieldHeader_ok kv _ _ _ _ hh
    subst hd
    have hfx := hf kv ty st (dictGetV kv "default") s st1 (by simp) ht h1
    have hrest := ih st1 rest st2 h2 (fun kv' ty' st d s st' hm => hf kv' ty' st d s st' (by simp [hm]))
    simp only [Spec.mapM?, Spec.fieldTextWith, hn, ht, hfx, Option.bind_eq_bind, Option.bind_some, List.map_cons, fieldText,
      Field.name, Field.type]
    rw [hrest]
    rfl

theorem getKey_ok (kv : List (Val × Val)) (k : String) (v : Val) (h : getKey kv k = .ok v) : dictGetV kv k = some v := by
  unfold getKey at h
  cases hd : dictGetV kv k with
  | none => simp [hd] at h
  | some x => simp only [hd, Except.ok.injEq] at h; rw [h]

theorem dictType_ok (kv : List (Val × Val)) (t : String) (h : dictType kv = .ok t) : dictGetV kv "type" = some (.str t) := by
  unfold dictType at h
  split at h <;> simp only [Except.ok.injEq, reduceCtorEq] at h
  rename_i t' heq; subst h; exact heq

theorem intToString (n : Int) (h : ¬ n < 0) : toString n = toString n.toNat := by
  cases n with
  | ofNat k => rfl
  | negSucc k => exact absurd (Int.negSucc_lt_zero k) h

theorem symbols_map (symsL : List Val)
    (hall : symsL.all symValOk = true) :
    Spec.mapM? Spec.symText symsL = some ((symNames symsL).map Canon.q) := by
  induction symsL with
  | nil => rfl
  | cons x xs ih =>
    simp only [List.all_cons, Bool.and_eq_true] at hall
    cases x <;> simp only [symValOk, reduceCtorEq, Bool.false_eq_true, false_and] at hall
    rename_i t
    simp only [symNames] at ih ⊢
    simp only [Spec.mapM?, Spec.symText, Option.bind_eq_bind, Option.bind_some, List.filterMap_cons, strOf?, List.map_cons, ih hall.2]
    rfl

theorem enumSymbols_ok (kv : List (Val × Val)) (syms : List String) (d : Option Val) (h : enumSymbols kv = .ok (syms, d)) :
    ∃ symsL, dictGetV kv "symbols" = some (.list symsL) ∧
      Spec.mapM? Spec.symText symsL = some (syms.map Canon.q) := by
  unfold enumSymbols at h
  simp only [bind_ok_iff] at h
  obtain ⟨sv, h1, h2⟩ := h
  have hk := getKey_ok kv "symbols" sv h1
  cases sv <;> simp only [reduceCtorEq] at h2
  rename_i symsL
  refine ⟨symsL, hk, ?_⟩
  split at h2
  · simp at h2
  · rename_i hall
    simp only [Bool.not_eq_true, Bool.not_eq_false'] at hall
    split at h2
    · simp at h2
    · have hs : syms = symsL.filterMap fun v => match v with | .str s => some s | _ => none := by
        split at h2
        · split at h2 <;> simp only [Except.ok.injEq, Prod.mk.injEq, reduceCtorEq] at h2; exact h2.1.symm
        · simp at h2
        · simp only [Except.ok.injEq, Prod.mk.injEq] at h2; exact h2.1.symm
      subst hs
      exact symbols_map symsL hall

theorem prim_array : Spec.PRIMS.contains "array" = false := by decide +kernel
theorem prim_map : Spec.PRIMS.contains "map" = false := by decide +kernel
theorem prim_enum : Spec.PRIMS.contains "enum" = false := by decide +kernel
theorem prim_fixed : Spec.PRIMS.contains "fixed" = false := by decide +kernel
theorem prim_record : Spec.PRIMS.contains "record" = false := by decide +kernel

theorem fixedSize_ok (kv : List (Val × Val)) (n : Nat) (h : fixedSize kv = .ok n) :
    ∃ z : Int, dictGetV kv "size" = some (.int z) ∧ toString z = toString n := by
  unfold fixedSize at h
  split at h
  · rename_i z hz
    split at h
    · simp at h
    · rename_i hneg
      simp only [Except.ok.injEq] at h
      exact ⟨z, hz, by rw [← h]; exact intToString z hneg⟩
  · simp at h
  · simp at h

theorem parseName_shape (name ns : String) (st : St) (dflt : Option Val) (ign : Bool) (s : Schema) (st' : St)
    (h : parseName name ns st dflt ign = .ok (s, st')) :
    (∃ p, Prim.ofName? name = some p ∧ s = .prim p false none) ∨
    (Prim.ofName? name = none ∧ s = .ref (Spec.refName name ns)) := by
  unfold parseName at h
  generalize hp : Prim.ofName? name = o at h
  cases o with
  | some p =>
    simp only [bind_ok_iff, pure_ok_iff, Prod.mk.injEq] at h
    obtain ⟨_, _, rfl, _⟩ := h
    exact .inl ⟨p, rfl, rfl⟩
  | none =>
    simp only at h
    refine .inr ⟨rfl, ?_⟩
    unfold Spec.refName
    split at h <;> rename_i hc <;> split at h <;> simp only [Except.ok.injEq, Prod.mk.injEq, reduceCtorEq] at h
    · rw [if_pos hc]; exact h.1.symm
    · rw [if_neg hc]; exact h.1.symm

theorem parsePrimDict_shape (ty : String) (st : St) (dflt : Option Val) (ign : Bool) (lt : Option LogT) (s : Schema) (st' : St)
    (h : parsePrimDict ty st dflt ign lt = .ok (s, st')) :
    ∃ p, Prim.ofName? ty = some p ∧ s = .prim p true lt := by
  unfold parsePrimDict at h
  generalize hp : Prim.ofName? ty = o at h
  cases o with
  | some p =>
    simp only [bind_ok_iff, pure_ok_iff, Prod.mk.injEq] at h
    obtain ⟨_, _, rfl, _⟩ := h
    exact ⟨p, rfl, rfl⟩
  | none =>
    simp only at h
    split at h <;> simp at h

theorem parseName_pcf (fuel : Nat) (name ns : String) (st : St) (dflt : Option Val) (ign : Bool) (s : Schema) (st' : St)
    (h : parseName name ns st dflt ign = .ok (s, st')) :
    Spec.pcf (fuel+1) (.str name) ns = some (Canon.canon s) := by
  refine (parseName_shape name ns st dflt ign s st' h).elim (fun ⟨p, hp, hs⟩ => ?_) (fun ⟨hp, hs⟩ => ?_)
  · have hc := (ofName_some hp).1
    have hn := (ofName_some hp).2
    simp only [Spec.pcf, hc, if_true, hs, canon_prim, Canon.q, Spec.q, hn]
  · simp only [Spec.pcf, ofName_none hp, Bool.false_eq_true, if_false, hs, canon_ref, Canon.q, Spec.q]

/-- **lockstep**: whatever `_parse_schema` accepts, the canonical form of its result is the
    specification's transformation of the raw schema in the same namespace -/
theorem parse_pcf (fuel : Nat) :
    ∀ raw ns st dflt ign s st', parse fuel raw ns st dflt ign = .ok (s, st') →
      Spec.pcf fuel raw ns = some (Canon.canon s) := by
  induction fuel with
  | zero => intro raw ns st dflt ign s st' h; simp [parse] at h
  | succ fuel ih =>
    intro raw ns st dflt ign s st' h
    cases raw <;> simp only [parse, reduceCtorEq] at h
    case str name => exact parseName_pcf fuel name ns st dflt ign s st' h
    case list xs =>
      simp only [bind_ok_iff, pure_ok_iff, Prod.mk.injEq] at h
      obtain ⟨⟨bs, st1⟩, h1, _, _, rfl, _⟩ := h
      have := list_lockstep _ (fun b => Spec.pcf fuel b ns) xs st bs st1 h1
        (fun x _ st s st' hx => ih x ns st none ign s st' hx)
      simp only [Spec.pcf, this, Option.bind_eq_bind, Option.bind_some, canon_union, canonList_eq]
    case dict kv =>
      simp only [bind_ok_iff] at h
      obtain ⟨ty, hty, lt, _, h⟩ := h
      have htype := dictType_ok kv ty hty
      simp only [Spec.pcf, htype]
      split at h
      · -- array
        rename_i hty'
        have : ty = "array" := by simpa using hty'
        subst this
        simp only [parseArray, bind_ok_iff, pure_ok_iff, Prod.mk.injEq] at h
        obtain ⟨items, hi, ⟨s1, st1⟩, h1, _, _, rfl, _⟩ := h
        simp only [prim_array, Bool.false_eq_true, if_false, BEq.rfl, if_true, getKey_ok kv "items" items hi,
          ih items ns st none ign s1 st1 h1, Option.bind_eq_bind, Option.bind_some, canon_array]
      · split at h
        · -- map
          rename_i _ hty'
          have : ty = "map" := by simpa using hty'
          subst this
          simp only [parseMap, bind_ok_iff, pure_ok_iff, Prod.mk.injEq] at h
          obtain ⟨values, hi, ⟨s1, st1⟩, h1, _, _, rfl, _⟩ := h
          have e1 : ("map" == "array") = false := by decide
          simp only [prim_map, Bool.false_eq_true, if_false, e1, BEq.rfl, if_true, getKey_ok kv "values" values hi,
            ih values ns st none ign s1 st1 h1, Option.bind_eq_bind, Option.bind_some, canon_map]
        · split at h
          · -- enum
            rename_i _ _ hty'
            have : ty = "enum" := by simpa using hty'
            subst this
            simp only [parseEnum, bind_ok_iff] at h
            obtain ⟨⟨ns', full⟩, hname, h⟩ := h
            split at h
            · simp at h
            · simp only [bind_ok_iff, pure_ok_iff, Prod.mk.injEq] at h
              obtain ⟨⟨syms, edef⟩, hsyms, _, _, rfl, _⟩ := h
              obtain ⟨symsL, hk, hm⟩ := enumSymbols_ok kv syms edef hsyms
              have e1 : ("enum" == "array") = false := by decide
              have e2 : ("enum" == "map") = false := by decide
              simp only [prim_enum, Bool.false_eq_true, if_false, e1, e2, BEq.rfl, if_true, schemaName_full kv ns _ hname, hk, hm,
                Option.bind_eq_bind, Option.bind_some, canon_enum]
              simp only [commaSep_eq, Spec.q, Canon.q]
          · split at h
            · -- fixed
              rename_i _ _ _ hty'
              have : ty = "fixed" := by simpa using hty'
              subst this
              simp only [parseFixed, bind_ok_iff] at h
              obtain ⟨⟨ns', full⟩, hname, h⟩ := h
              split at h
              · simp at h
              · simp only [bind_ok_iff, pure_ok_iff, Prod.mk.injEq] at h
                obtain ⟨_, _, size, hsize, rfl, _⟩ := h
                obtain ⟨z, hz, hzs⟩ := fixedSize_ok kv size hsize
                have e1 : ("fixed" == "array") = false := by decide
                have e2 : ("fixed" == "map") = false := by decide
                have e3 : ("fixed" == "enum") = false := by decide
                simp only [prim_fixed, Bool.false_eq_true, if_false, e1, e2, e3, BEq.rfl, if_true, schemaName_full kv ns _ hname,
                  hz, Option.bind_eq_bind, Option.bind_some]
                rw [hzs, canon_fixed]
                rfl
            · split at h
              · -- record
                rename_i _ _ _ _ hty'
                have : ty = "record" := by simpa using hty'
                subst this
                simp only [parseRecord, bind_ok_iff] at h
                obtain ⟨⟨ns', full⟩, hname, h⟩ := h
                split at h
                · simp at h
                · simp only [bind_ok_iff, pure_ok_iff, Prod.mk.injEq] at h
                  obtain ⟨_, _, ⟨fs, st2⟩, hfs, rfl, _⟩ := h
                  have e1 : ("record" == "array") = false := by decide
                  have e2 : ("record" == "map") = false := by decide
                  have e3 : ("record" == "enum") = false := by decide
                  have e4 : ("record" == "fixed") = false := by decide
                  have hl := fields_lockstep _ (fun ty => Spec.pcf fuel ty ns') _ _ fs st2 hfs
                    (fun kv' ty st d s st' _ _ hp => ih ty ns' st d ign s st' hp)
                  simp only [prim_record, Bool.false_eq_true, if_false, e1, e2, e3, e4, BEq.rfl, Bool.true_or, if_true,
                    schemaName_full kv ns _ hname, hl, Option.bind_eq_bind, Option.bind_some, canon_record, canonFields_eq]
                  rfl
              · -- primitive in dict form
                obtain ⟨p, hp, hs⟩ := parsePrimDict_shape ty st dflt ign lt s st' h
                have hc := (ofName_some hp).1
                have hn := (ofName_some hp).2
                rw [if_pos hc, hs, canon_prim, hn]
                rfl

theorem mapM_mono {α β} (f g : α → Option β) (xs : List α) :
    ∀ ys, (∀ x ∈ xs, ∀ y, f x = some y → g x = some y) → Spec.mapM? f xs = some ys → Spec.mapM? g xs = some ys := by
  induction xs with
  | nil => intro ys _ h; exact h
  | cons x xs ih =>
    intro ys hfg h
    simp only [Spec.mapM?, Option.bind_eq_bind, Option.bind_eq_some_iff] at h ⊢
    obtain ⟨y, hy, zs, hzs, he⟩ := h
    exact ⟨y, hfg x (by simp) y hy, zs, ih zs (fun a ha => hfg a (by simp [ha])) hzs, he⟩

theorem fieldText_mono (f g : Val → Option String) (x : Val) (hfg : ∀ v y, f v = some y → g v = some y) :
    ∀ y, Spec.fieldTextWith f x = some y → Spec.fieldTextWith g x = some y := by
  intro y h
  cases x <;> simp only [Spec.fieldTextWith, reduceCtorEq] at h ⊢
  simp only [Option.bind_eq_bind, Option.bind_eq_some_iff] at h ⊢
  obtain ⟨a, ha, b, hb, c, hc, he⟩ := h
  exact ⟨a, ha, b, hb, c, hfg b c hc, he⟩

/-- more fuel never changes a result the specification's transformation already gives -/
theorem pcf_mono (fuel : Nat) : ∀ raw ns t, Spec.pcf fuel raw ns = some t → Spec.pcf (fuel+1) raw ns = some t := by
  induction fuel with
  | zero => intro raw ns t h; simp [Spec.pcf] at h
  | succ fuel ih =>
    intro raw ns t h
    cases raw <;> simp only [Spec.pcf, reduceCtorEq] at h
    case str name => simpa only [Spec.pcf] using h
    case list xs =>
      simp only [Option.bind_eq_bind, Option.bind_eq_some_iff] at h
      obtain ⟨parts, hp, he⟩ := h
      have := mapM_mono (fun b => Spec.pcf fuel b ns) (fun b => Spec.pcf (fuel+1) b ns) xs parts
        (fun x _ y hy => ih x ns y hy) hp
      rw [Spec.pcf]
      simp only [this, Option.bind_eq_bind, Option.bind_some, he]
    case dict kv =>
      rw [Spec.pcf]
      cases hty : dictGetV kv "type" with
      | none => simp [hty] at h
      | some tv =>
        cases tv <;> simp only [hty, reduceCtorEq] at h
        rename_i ty
        simp only
        by_cases c0 : Spec.PRIMS.contains ty = true
        · simpa only [c0, if_true] using h
        · simp only [c0, Bool.false_eq_true, if_false] at h ⊢
          by_cases c1 : (ty == "array") = true
          · simp only [c1, if_true, Option.bind_eq_bind, Option.bind_eq_some_iff] at h ⊢
            obtain ⟨items, hi, i, hi2, he⟩ := h
            exact ⟨items, hi, i, ih items ns i hi2, he⟩
          · simp only [c1, Bool.false_eq_true, if_false] at h ⊢
            by_cases c2 : (ty == "map") = true
            · simp only [c2, if_true, Option.bind_eq_bind, Option.bind_eq_some_iff] at h ⊢
              obtain ⟨items, hi, i, hi2, he⟩ := h
              exact ⟨items, hi, i, ih items ns i hi2, he⟩
            · simp only [c2, Bool.false_eq_true, if_false] at h ⊢
              by_cases c3 : (ty == "enum") = true
              · simpa only [c3, if_true] using h
              · simp only [c3, Bool.false_eq_true, if_false] at h ⊢
                by_cases c4 : (ty == "fixed") = true
                · simpa only [c4, if_true] using h
                · simp only [c4, Bool.false_eq_true, if_false] at h ⊢
                  by_cases c5 : (ty == "record" || ty == "error") = true
                  · simp only [c5, if_true, Option.bind_eq_bind, Option.bind_eq_some_iff] at h ⊢
                    obtain ⟨nf, hnf, parts, hp, he⟩ := h
                    refine ⟨nf, hnf, parts, ?_, he⟩
                    exact mapM_mono _ _ _ parts (fun x _ y hy =>
                      fieldText_mono _ _ x (fun v y hv => ih v nf.1 y hv) y hy) hp
                  · simp only [c5, Bool.false_eq_true, if_false, reduceCtorEq] at h

theorem top_go (fuel : Nat) (ign : Bool) (xs : List Val) :
    ∀ env ss env', parseTop.go fuel ign xs env = .ok (ss, env') →
      Spec.mapM? (fun b => Spec.pcf fuel b "") xs = some (ss.map Canon.canon) := by
  induction xs with
  | nil =>
    intro env ss env' h
    simp only [parseTop.go, pure_ok_iff, Prod.mk.injEq] at h
    obtain ⟨rfl, _⟩ := h; rfl
  | cons x xs ih =>
    intro env ss env' h
    simp only [parseTop.go, bind_ok_iff, pure_ok_iff, Prod.mk.injEq] at h
    obtain ⟨⟨s, st1⟩, h1, ⟨rest, env2⟩, h2, rfl, _⟩ := h
    simp only [Spec.mapM?, parse_pcf fuel x "" _ none ign s st1 h1, ih _ rest env2 h2, Option.bind_eq_bind,
      Option.bind_some, List.map_cons]

/-- `parse_schema` on a raw schema followed by `to_parsing_canonical_form` is the specification's
    transformation of the raw schema (top-level lists included) -/
theorem parseTop_pcf (fuel : Nat) (raw : Val) (env env' : Env) (ign : Bool) (s : Schema)
    (h : parseTop fuel raw env ign = .ok (s, env')) :
    Spec.pcf (fuel+1) raw "" = some (Canon.canon s) := by
  have other : ∀ st', parse fuel raw "" { names := [], env := env } none ign = .ok (s, st') →
      Spec.pcf (fuel+1) raw "" = some (Canon.canon s) :=
    fun st' hp => pcf_mono fuel raw "" _ (parse_pcf fuel raw "" _ none ign s st' hp)
  cases raw
  case list xs =>
    simp only [parseTop, bind_ok_iff, pure_ok_iff, Prod.mk.injEq] at h
    obtain ⟨⟨ss, env2⟩, hgo, rfl, _⟩ := h
    rw [Spec.pcf]
    simp only [top_go fuel ign xs env ss env2 hgo, Option.bind_eq_bind, Option.bind_some, canon_union, canonList_eq]
  all_goals
    simp only [parseTop, bind_ok_iff, pure_ok_iff, Prod.mk.injEq] at h
    obtain ⟨⟨s1, st1⟩, hp, rfl, _⟩ := h
    exact other st1 hp

end CanonProofs
