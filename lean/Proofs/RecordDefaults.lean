/-
  Proofs/RecordDefaults.lean — C08: `read_record`'s default filling is the specification's rule.
-/
import Batteries.Data.List.Perm
import Proofs.Resolve
import Spec.Resolve

namespace RecDef
open Binary Resolve ResolveProofs RejectLike

theorem nodup_map_inj {α β} (f : α → β) : ∀ (l : List α), (l.map f).Nodup → ∀ a ∈ l, ∀ b ∈ l, f a = f b → a = b := by
  intro l
  induction l with
  | nil => intro _ a ha; cases ha
  | cons x xs ih =>
    intro h a ha b hb hab
    simp only [List.map_cons, List.nodup_cons, List.mem_map, not_exists, not_and] at h
    rcases List.mem_cons.1 ha with h1 | h1 <;> rcases List.mem_cons.1 hb with h2 | h2
    · rw [h1, h2]
    · subst h1; exact absurd hab.symm (h.1 b h2)
    · subst h2; exact absurd hab (h.1 a h1)
    · exact ih h.2 a h1 b h2 hab

/-- the string-keyed dict a record is accumulated in -/
def enc (l : List (String × Val)) : List (Val × Val) := l.map fun p => (Val.str p.1, p.2)

def setS : List (String × Val) → String → Val → List (String × Val)
  | [], k, v => [(k, v)]
  | (k', v') :: rest, k, v => if k' == k then (k', v) :: rest else (k', v') :: setS rest k v

def keys (l : List (String × Val)) : List String := l.map Prod.fst

theorem set_enc (l : List (String × Val)) (k : String) (v : Val) : valDictSet (enc l) k v = enc (setS l k v) := by
  induction l with
  | nil => rfl
  | cons e rest ih =>
    obtain ⟨k', v'⟩ := e
    simp only [enc, List.map_cons, valDictSet, setS]
    split
    · rfl
    · simp only [List.map_cons]; congr 1

theorem get_enc (l : List (String × Val)) (n : String) : (dictGetV (enc l) n).isSome = (keys l).contains n := by
  induction l with
  | nil => rfl
  | cons e rest ih =>
    obtain ⟨k', v'⟩ := e
    simp only [enc, List.map_cons, dictGetV, keys, List.contains_cons]
    by_cases hk : k' = n
    · subst hk; simp
    · have : (k' == n) = false := by simpa using hk
      have h2 : (n == k') = false := by simpa using (fun h => hk h.symm)
      simp only [this, h2, Bool.false_or]
      exact ih

theorem keys_set (l : List (String × Val)) (k : String) (v : Val) (n : String) :
    n ∈ keys (setS l k v) ↔ n ∈ keys l ∨ n = k := by
  induction l with
  | nil => simp [setS, keys]
  | cons e rest ih =>
    obtain ⟨k', v'⟩ := e
    simp only [setS]
    split
    · rename_i hk; simp only [beq_iff_eq] at hk; subst hk
      simp only [keys, List.map_cons, List.mem_cons]
      constructor
      · intro h; exact Or.inl h
      · rintro (h | h)
        · exact h
        · exact Or.inl h
    · simp only [keys, List.map_cons, List.mem_cons] at ih ⊢
      rw [ih, or_assoc]

theorem nodup_set (l : List (String × Val)) (k : String) (v : Val) (h : (keys l).Nodup) : (keys (setS l k v)).Nodup := by
  induction l with
  | nil => simp [setS, keys]
  | cons e rest ih =>
    obtain ⟨k', v'⟩ := e
    simp only [setS]
    split
    · exact h
    · rename_i hk
      simp only [keys, List.map_cons, List.nodup_cons] at h ⊢
      refine ⟨?_, ih h.2⟩
      intro hmem
      have := (keys_set rest k v k').1 hmem
      rcases this with h1 | h1
      · exact h.1 h1
      · subst h1; simp at hk

/-- some writer field is matched with the reader field of name `n` -/
def M (rfs wfs : List Field) (n : String) : Prop :=
  ∃ wf ∈ wfs, ∃ rf, Spec.readerFieldFor rfs wf.name = some rf ∧ rf.name = n

theorem readerFieldFor_mem (rfs : List Field) (x : String) (rf : Field) (h : Spec.readerFieldFor rfs x = some rf) : rf ∈ rfs := by
  unfold Spec.readerFieldFor at h
  split at h
  · rename_i f hf; cases h; exact List.mem_of_find?_eq_some hf
  · exact List.mem_of_find?_eq_some h

theorem fw_inv (rd : Schema → Schema → Bytes → R (Val × Bytes)) (sk : Schema → Bytes → R Bytes) (rfs : List Field) (wfs : List Field) :
    ∀ bs l acc' rest, Spec.fieldsWith rd sk rfs wfs bs (enc l) = .ok (acc', rest) →
      ∃ l', acc' = enc l' ∧ ((keys l).Nodup → (keys l').Nodup) ∧ (∀ n, n ∈ keys l' ↔ n ∈ keys l ∨ M rfs wfs n) := by
  induction wfs with
  | nil =>
    intro bs l acc' rest h
    simp only [Spec.fieldsWith, pure, Except.pure, Except.ok.injEq, Prod.mk.injEq] at h
    refine ⟨l, h.1.symm, id, fun n => ?_⟩
    simp [M]
  | cons f more ih =>
    intro bs l acc' rest h
    simp only [Spec.fieldsWith] at h
    cases hf : Spec.readerFieldFor rfs f.name with
    | none =>
      simp only [hf] at h
      cases hx : sk f.type bs with
      | error e => simp [hx, bind, Except.bind] at h
      | ok b1 =>
        simp only [hx, ok_bind] at h
        obtain ⟨l', e1, e2, e3⟩ := ih b1 l acc' rest h
        refine ⟨l', e1, e2, fun n => ?_⟩
        rw [e3 n]
        constructor
        · rintro (h1 | ⟨wf, hwf, rf, h2, h3⟩)
          · exact Or.inl h1
          · exact Or.inr ⟨wf, List.mem_cons_of_mem _ hwf, rf, h2, h3⟩
        · rintro (h1 | ⟨wf, hwf, rf, h2, h3⟩)
          · exact Or.inl h1
          · rcases List.mem_cons.1 hwf with h4 | h4
            · subst h4; rw [hf] at h2; cases h2
            · exact Or.inr ⟨wf, h4, rf, h2, h3⟩
    | some rf =>
      simp only [hf] at h
      cases hx : rd f.type rf.type bs with
      | error e => simp [hx, bind, Except.bind] at h
      | ok r =>
        obtain ⟨x, b1⟩ := r
        simp only [hx, ok_bind, set_enc] at h
        obtain ⟨l', e1, e2, e3⟩ := ih b1 _ acc' rest h
        refine ⟨l', e1, fun hn => e2 (nodup_set l rf.name x hn), fun n => ?_⟩
        rw [e3 n, keys_set]
        constructor
        · rintro ((h1 | h1) | ⟨wf, hwf, rf', h2, h3⟩)
          · exact Or.inl h1
          · exact Or.inr ⟨f, List.mem_cons_self, rf, hf, h1.symm⟩
          · exact Or.inr ⟨wf, List.mem_cons_of_mem _ hwf, rf', h2, h3⟩
        · rintro (h1 | ⟨wf, hwf, rf', h2, h3⟩)
          · exact Or.inl (Or.inl h1)
          · rcases List.mem_cons.1 hwf with h4 | h4
            · subst h4; rw [hf] at h2; cases h2; exact Or.inl (Or.inr h3.symm)
            · exact Or.inr ⟨wf, h4, rf', h2, h3⟩

/-- the specification's test "some writer field is matched with this reader field" -/
theorem any_iff_M (rfs wfs : List Field) (n : String) :
    (wfs.any fun wf => (Spec.readerFieldFor rfs wf.name).map Field.name == some n) = true ↔ M rfs wfs n := by
  simp only [List.any_eq_true, M]
  constructor
  · rintro ⟨wf, hwf, h⟩
    cases hr : Spec.readerFieldFor rfs wf.name with
    | none => simp [hr] at h
    | some rf => simp [hr] at h; exact ⟨wf, hwf, rf, hr, h⟩
  · rintro ⟨wf, hwf, rf, h1, h2⟩
    exact ⟨wf, hwf, by simp [h1, h2]⟩

/-- a reader field whose name is a writer field's name is matched -/
theorem name_matched (rfs wfs : List Field) (rf : Field) (hrf : rf ∈ rfs) (h : (wfs.map Field.name).contains rf.name = true) :
    M rfs wfs rf.name := by
  simp only [List.contains_iff_mem, List.mem_map] at h
  obtain ⟨wf, hwf, hn⟩ := h
  refine ⟨wf, hwf, ?_⟩
  unfold Spec.readerFieldFor
  cases hfind : rfs.find? (fun f => f.name == wf.name) with
  | none =>
    have := List.find?_eq_none.1 hfind rf hrf
    simp [hn] at this
  | some rf' =>
    have := List.find?_some hfind
    simp only [beq_iff_eq] at this
    exact ⟨rf', rfl, by rw [this, hn]⟩

theorem fill_eq (rfs wfs : List Field) :
    ∀ (rest : List Field) (l : List (String × Val)),
      (∀ rf ∈ rest, rf ∈ rfs) → (rest.map Field.name).Nodup →
      (∀ rf ∈ rest, (rf.name ∈ keys l ↔ M rfs wfs rf.name)) →
      fillDefaults (wfs.map Field.name) rest (enc l) = Spec.defaultsFor wfs rfs rest (enc l) := by
  intro rest
  induction rest with
  | nil => intro l _ _ _; rfl
  | cons rf more ih =>
    intro l hsub hnd hk
    have hk0 := hk rf List.mem_cons_self
    simp only [List.map_cons, List.nodup_cons] at hnd
    simp only [fillDefaults, Spec.defaultsFor]
    by_cases hm : M rfs wfs rf.name
    · have h1 : (wfs.any fun wf => (Spec.readerFieldFor rfs wf.name).map Field.name == some rf.name) = true := (any_iff_M _ _ _).2 hm
      have h2 : (dictGetV (enc l) rf.name).isNone = false := by
        have := get_enc l rf.name
        rw [List.contains_iff_mem.2 (hk0.2 hm)] at this
        cases hh : dictGetV (enc l) rf.name <;> simp [hh] at this ⊢
      simp only [h1, h2, Bool.and_false, Bool.false_eq_true, if_false, if_true]
      exact ih l (fun r hr => hsub r (List.mem_cons_of_mem _ hr)) hnd.2 (fun r hr => hk r (List.mem_cons_of_mem _ hr))
    · have h1 : (wfs.any fun wf => (Spec.readerFieldFor rfs wf.name).map Field.name == some rf.name) = false := by
        cases hh : (wfs.any fun wf => (Spec.readerFieldFor rfs wf.name).map Field.name == some rf.name) with
        | false => rfl
        | true => exact absurd ((any_iff_M _ _ _).1 hh) hm
      have h3 : (wfs.map Field.name).contains rf.name = false := by
        cases hh : (wfs.map Field.name).contains rf.name with
        | false => rfl
        | true => exact absurd (name_matched rfs wfs rf (hsub rf List.mem_cons_self) hh) hm
      have h2 : (dictGetV (enc l) rf.name).isNone = true := by
        have := get_enc l rf.name
        have hc : (keys l).contains rf.name = false := by
          cases hh : (keys l).contains rf.name with
          | false => rfl
          | true => exact absurd (hk0.1 (List.contains_iff_mem.1 hh)) hm
        rw [hc] at this
        cases hh : dictGetV (enc l) rf.name <;> simp [hh] at this ⊢
      simp only [h1, h2, h3, Bool.not_false, Bool.and_self, if_true, Bool.false_eq_true, if_false]
      cases rf.default with
      | none => rfl
      | some d =>
        simp only [set_enc]
        refine ih _ (fun r hr => hsub r (List.mem_cons_of_mem _ hr)) hnd.2 (fun r hr => ?_)
        rw [keys_set, hk r (List.mem_cons_of_mem _ hr)]
        constructor
        · rintro (h | h)
          · exact h
          · exact absurd (h ▸ List.mem_map_of_mem (f := Field.name) hr) hnd.1
        · exact Or.inl

theorem defaults_none (rfs wfs : List Field) (acc : List (Val × Val)) :
    ∀ rest : List Field, (∀ rf ∈ rest, M rfs wfs rf.name) → Spec.defaultsFor wfs rfs rest acc = pure acc := by
  intro rest
  induction rest with
  | nil => intro _; rfl
  | cons rf more ih =>
    intro h
    simp only [Spec.defaultsFor, (any_iff_M _ _ _).2 (h rf List.mem_cons_self), if_true]
    exact ih fun r hr => h r (List.mem_cons_of_mem _ hr)

theorem eraseDups_nodup (l : List String) (h : l.Nodup) : l.eraseDups = l := by
  induction l with
  | nil => rfl
  | cons a as ih =>
    simp only [List.nodup_cons] at h
    rw [List.eraseDups_cons]
    have : as.filter (fun b => !b == a) = as := by
      apply List.filter_eq_self.2
      intro b hb
      simp only [Bool.not_eq_true', beq_eq_false_iff_ne, ne_eq]
      intro hba; subst hba; exact h.1 hb
    rw [this, ih h.2]

theorem items_self (rfs : List Field) (h : (rfs.map Field.name).Nodup) : readerFieldItems rfs = rfs := by
  unfold readerFieldItems
  rw [eraseDups_nodup _ h]
  have huniq : ∀ a ∈ rfs, ∀ b ∈ rfs, a.name = b.name → a = b := by
    intro a ha b hb hab
    exact nodup_map_inj Field.name rfs h a ha b hb hab
  have key : ∀ l : List Field, (∀ a ∈ l, a ∈ rfs) →
      (l.map Field.name).filterMap (fun n => rfs.reverse.find? fun f => f.name == n) = l := by
    intro l
    induction l with
    | nil => intro _; rfl
    | cons a as ih =>
      intro hsub
      have ha := hsub a List.mem_cons_self
      have hfind : rfs.reverse.find? (fun f => f.name == a.name) = some a := by
        rw [find_reverse_unique (fun f => f.name == a.name) rfs
              (fun x hx y hy px py => huniq x hx y hy (by simp only [beq_iff_eq] at px py; rw [px, py]))]
        cases hf : rfs.find? (fun f => f.name == a.name) with
        | none => have := List.find?_eq_none.1 hf a ha; simp at this
        | some b =>
          have h1 := List.find?_some hf
          simp only [beq_iff_eq] at h1
          rw [huniq b (List.mem_of_find?_eq_some hf) a ha h1]
      simp only [List.map_cons, List.filterMap_cons, hfind]
      rw [ih fun x hx => hsub x (List.mem_cons_of_mem _ hx)]
  exact key rfs fun _ h => h

/-- **`read_record`'s "fill in default values" is the specification's rule**: after the writer's
    fields have been read, the reader fields nothing was matched with take their defaults -/
theorem record_defaults (rd : Schema → Schema → Bytes → R (Val × Bytes)) (sk : Schema → Bytes → R Bytes)
    (rfs wfs : List Field) (hN : (rfs.map Field.name).Nodup) (bs : Bytes) (acc : List (Val × Val)) (rest : Bytes)
    (h : Spec.fieldsWith rd sk rfs wfs bs [] = .ok (acc, rest)) :
    (if distinctNames rfs > acc.length then fillDefaults (wfs.map Field.name) (readerFieldItems rfs) acc else pure acc)
      = Spec.defaultsFor wfs rfs rfs acc := by
  obtain ⟨l, e1, e2, e3⟩ := fw_inv rd sk rfs wfs bs [] acc rest h
  subst e1
  have hnd : (keys l).Nodup := e2 (by simp [keys])
  have hk : ∀ rf ∈ rfs, (rf.name ∈ keys l ↔ M rfs wfs rf.name) := by
    intro rf _; rw [e3]; simp [keys]
  rw [items_self rfs hN]
  split
  · exact fill_eq rfs wfs rfs l (fun _ h => h) hN hk
  · rename_i hlen
    have hsub : keys l ⊆ rfs.map Field.name := by
      intro n hn
      rcases (e3 n).1 hn with h1 | ⟨wf, _, rf, h2, h3⟩
      · simp [keys] at h1
      · exact h3 ▸ List.mem_map_of_mem (readerFieldFor_mem rfs _ rf h2)
    have hlen' : (rfs.map Field.name).length ≤ (keys l).length := by
      simp only [distinctNames, eraseDups_nodup _ hN, enc, List.length_map, gt_iff_lt, Nat.not_lt] at hlen
      simpa [keys] using hlen
    have hperm := (List.subperm_of_subset hnd hsub).perm_of_length_le hlen'
    rw [defaults_none rfs wfs (enc l) rfs]
    intro rf hrf
    exact (hk rf hrf).1 (hperm.symm.subset (List.mem_map_of_mem hrf))

end RecDef
