import Spec.Resolve
import Proofs.NonFuel

namespace SpecMono
open Binary NonFuel

theorem fieldsWith_ref (rd rd' : Schema → Schema → Bytes → R (Val × Bytes)) (sk sk' : Schema → Bytes → R Bytes)
    (hr : ∀ a b, Refines (rd a b) (rd' a b)) (hs : ∀ s, Refines (sk s) (sk' s)) (rfs : List Field) (wfs : List Field) :
    ∀ bs acc, Def (Spec.fieldsWith rd sk rfs wfs bs acc) →
      Spec.fieldsWith rd' sk' rfs wfs bs acc = Spec.fieldsWith rd sk rfs wfs bs acc := by
  induction wfs with
  | nil => intro bs acc _; rfl
  | cons f rest ih =>
    intro bs acc hd
    simp only [Spec.fieldsWith] at hd ⊢
    cases hf : Spec.readerFieldFor rfs f.name with
    | none =>
      simp only [hf] at hd ⊢
      have h1 : Def (sk f.type bs) := bind_def _ _ hd
      rw [hs f.type bs h1]
      cases hx : sk f.type bs with
      | error e => rfl
      | ok b1 => exact ih b1 acc (bind_def_k b1 _ _ hx hd)
    | some rf =>
      simp only [hf] at hd ⊢
      have h1 : Def (rd f.type rf.type bs) := bind_def _ _ hd
      rw [hr f.type rf.type bs h1]
      cases hx : rd f.type rf.type bs with
      | error e => rfl
      | ok r =>
        obtain ⟨x, b1⟩ := r
        exact ih b1 _ (bind_def_k (x, b1) _ _ hx hd)

theorem def_idx {α β} (o : Option α) (e : R β) (f g : α → R β) (h : ∀ a, o = some a → Def (f a) → g a = f a)
    (hd : Def (match o with | none => e | some a => f a)) :
    (match o with | none => e | some a => g a) = (match o with | none => e | some a => f a) := by
  cases o with
  | none => rfl
  | some a => exact h a rfl hd

theorem def_bind {α β} (x : R α) (f g : α → R β) (h : ∀ a, x = .ok a → Def (f a) → g a = f a) (hd : Def (x >>= f)) :
    (x >>= g) = (x >>= f) := by
  cases hx : x with
  | error e => rfl
  | ok a => exact h a hx (by rw [hx] at hd; exact hd)

/-- **more fuel never changes a definite result of the specification reader** -/
theorem resolveRead_def (wenv renv : Env) (F : Nat) :
    ∀ w r, Refines (Spec.resolveRead F wenv renv w r) (Spec.resolveRead (F+1) wenv renv w r) := by
  induction F with
  | zero => intro w r bs hd; exact absurd rfl hd
  | succ F ih =>
    intro w r bs hd
    unfold Spec.resolveRead
    unfold Spec.resolveRead at hd
    by_cases hm : (!Spec.matchesS wenv renv w r) = true
    · simp only [hm, if_true]
    · simp only [hm, if_false] at hd ⊢
      cases hdw : Spec.deref wenv w with
      | none => simp only [hdw]
      | some wd =>
        cases hdr : Spec.deref renv r with
        | none => simp only [hdw, hdr]
        | some rd =>
          simp only [hdw, hdr] at hd ⊢
          have hunion : ∀ (wbs : List Schema) (r' : Schema),
              Def (decodeLong bs >>= fun x => match indexChecked wbs x.1 with
                    | none => (throw Err.index : R (Val × Bytes)) | some b => Spec.resolveRead F wenv renv b r' x.2) →
              (decodeLong bs >>= fun x => match indexChecked wbs x.1 with
                    | none => (throw Err.index : R (Val × Bytes)) | some b => Spec.resolveRead (F+1) wenv renv b r' x.2) =
              (decodeLong bs >>= fun x => match indexChecked wbs x.1 with
                    | none => (throw Err.index : R (Val × Bytes)) | some b => Spec.resolveRead F wenv renv b r' x.2) := by
            intro wbs r' hd'
            refine def_bind _ _ _ (fun x _ hdx => ?_) hd'
            cases hb : indexChecked wbs x.1 with
            | none => rfl
            | some b => simp only [hb] at hdx ⊢; exact ih b r' x.2 hdx
          have hpick : ∀ (w' : Schema) (rbs : List Schema),
              Def (match Spec.pickBranch wenv renv w' rbs with
                    | some b => Spec.resolveRead F wenv renv w' b bs | none => (throw Err.resolution : R (Val × Bytes))) →
              (match Spec.pickBranch wenv renv w' rbs with
                    | some b => Spec.resolveRead (F+1) wenv renv w' b bs | none => (throw Err.resolution : R (Val × Bytes))) =
              (match Spec.pickBranch wenv renv w' rbs with
                    | some b => Spec.resolveRead F wenv renv w' b bs | none => (throw Err.resolution : R (Val × Bytes))) := by
            intro w' rbs hd'
            cases hp : Spec.pickBranch wenv renv w' rbs with
            | none => rfl
            | some b => simp only [hp] at hd' ⊢; exact ih w' b bs hd'
          cases wd <;> cases rd <;> try (first | rfl | exact hunion _ _ hd | exact hpick _ _ hd)
          case array.array wi ri =>
            refine def_bind _ _ _ (fun x _ hdx => ?_) hd
            obtain ⟨c, rest⟩ := x
            have hb : Def (readBlocksWith (Spec.resolveRead F wenv renv wi ri) (rest.length + 1) c rest) := bind_def _ _ hdx
            show (readBlocksWith (Spec.resolveRead (F+1) wenv renv wi ri) (rest.length + 1) c rest >>= _) = _
            rw [blocks _ _ (ih wi ri) _ c rest hb]
          case map.map wv rv =>
            refine def_bind _ _ _ (fun x _ hdx => ?_) hd
            obtain ⟨c, rest⟩ := x
            have hb : Def (readMapBlocksWith (Spec.resolveRead F wenv renv wv rv) (rest.length + 1) c rest []) := bind_def _ _ hdx
            show (readMapBlocksWith (Spec.resolveRead (F+1) wenv renv wv rv) (rest.length + 1) c rest [] >>= _) = _
            rw [mapBlocks _ _ (ih wv rv) _ c rest [] hb]
          case record.record wn wfs wal rn rfs ral =>
            have hf : Def (Spec.fieldsWith (Spec.resolveRead F wenv renv) (skipData F wenv) rfs wfs bs []) := bind_def _ _ hd
            show (Spec.fieldsWith (Spec.resolveRead (F+1) wenv renv) (skipData (F+1) wenv) rfs wfs bs [] >>= _) = _
            rw [fieldsWith_ref _ _ _ _ (fun a b => ih a b) (fun s => skipData_def wenv F s) rfs wfs bs [] hf]; rfl

end SpecMono
