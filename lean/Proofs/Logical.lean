/-
  Proofs/Logical.lean — C16: the logical-type conversions store the specification's representation
  and read back the value (truncated to the type's precision) over the whole domain.
-/
import Model.Logical

namespace LogicalProofs
open Logical

theorem fdiv_pos (a : Int) {b : Int} (h : 0 ≤ b) : a.fdiv b = a / b := Int.fdiv_eq_ediv_of_nonneg a h
theorem fmod_pos (a : Int) {b : Int} (h : 0 ≤ b) : a.fmod b = a % b := Int.fmod_eq_emod_of_nonneg a h

/-! ### date -/

theorem date_roundtrip (o : Int) (h : 1 ≤ o ∧ o ≤ 3652059) :
    prepareDate (.date o) = .ok (.int (o - 719163)) ∧
    readDate (o - 719163) = .ok (.date o) ∧
    (-2147483648 ≤ o - 719163 ∧ o - 719163 ≤ 2147483647) := by
  refine ⟨rfl, ?_, by omega⟩
  unfold readDate DAYS_SHIFT MAXORDINAL
  have e : o - 719163 + 719163 = o := by omega
  simp only [e]
  have h1 : ¬ (o < 1) := by omega
  have h2 : ¬ (o > 3652059) := by omega
  simp [h1, h2]

/-! ### time of day -/

theorem time_millis (us : Nat) (h : us < 86400000000) :
    prepareTimeMillis (.time us) = .ok (.int ((us / 1000 : Nat) : Int)) ∧
    readTimeMillis ((us / 1000 : Nat) : Int) = .ok (.time (us / 1000 * 1000)) := by
  constructor
  · unfold prepareTimeMillis truncDiv MLS_PER_HOUR MLS_PER_MINUTE MLS_PER_SECOND
    simp only
    have h0 : (0:Int) ≤ (us : Int) % 1000000 := Int.emod_nonneg _ (by decide)
    rw [Int.tdiv_eq_ediv_of_nonneg h0]
    congr 2
    omega
  · unfold readTimeMillis truncDiv MLS_PER_HOUR MLS_PER_MINUTE MLS_PER_SECOND
    have hn : (0:Int) ≤ ((us / 1000 : Nat) : Int) := Int.natCast_nonneg _
    simp only [Int.tdiv_eq_ediv_of_nonneg hn, fmod_pos _ (show (0:Int) ≤ 60 by decide),
      fmod_pos _ (show (0:Int) ≤ 1000 by decide)]
    have h1 : ¬ (((us / 1000 : Nat) : Int) / 3600000 < 0) := by omega
    have h2 : ¬ (((us / 1000 : Nat) : Int) / 3600000 > 23) := by omega
    simp only [h1, h2, decide_false, Bool.or_self, Bool.false_eq_true, ↓reduceIte, Except.ok.injEq, Val.time.injEq]
    omega

theorem time_micros (us : Nat) (h : us < 86400000000) :
    prepareTimeMicros (.time us) = .ok (.int (us : Int)) ∧
    readTimeMicros (us : Int) = .ok (.time us) := by
  constructor
  · unfold prepareTimeMicros MCS_PER_HOUR MCS_PER_MINUTE MCS_PER_SECOND
    simp only
    congr 2
    omega
  · unfold readTimeMicros truncDiv MCS_PER_HOUR MCS_PER_MINUTE MCS_PER_SECOND
    have hn : (0:Int) ≤ (us : Int) := Int.natCast_nonneg _
    simp only [Int.tdiv_eq_ediv_of_nonneg hn, fmod_pos _ (show (0:Int) ≤ 60 by decide),
      fmod_pos _ (show (0:Int) ≤ 1000000 by decide)]
    have h1 : ¬ ((us : Int) / 3600000000 < 0) := by omega
    have h2 : ¬ ((us : Int) / 3600000000 > 23) := by omega
    simp only [h1, h2, decide_false, Bool.or_self, Bool.false_eq_true, ↓reduceIte, Except.ok.injEq, Val.time.injEq]
    omega

/-! ### instants -/

/-- `timestamp-millis`: stored as ⌊µs / 1000⌋ from the UTC epoch — floor also before the epoch —
    and read back as that millisecond -/
theorem timestamp_millis (us : Int) (aware : Bool) (h : DT_MIN_US ≤ us ∧ us ≤ DT_MAX_US) :
    prepareTimestampMillis (.datetime us aware) = .ok (.int (us / 1000)) ∧
    readTimestamp aware (us / 1000 * 1000) = .ok (.datetime (us / 1000 * 1000) aware) ∧
    us - 999 ≤ us / 1000 * 1000 ∧ us / 1000 * 1000 ≤ us := by
  unfold DT_MIN_US DT_MAX_US at h
  refine ⟨?_, ?_, by omega, by omega⟩
  · unfold prepareTimestampMillis tdNorm truncDiv MLS_PER_SECOND
    simp only [fdiv_pos _ (show (0:Int) ≤ 86400000000 by decide), fmod_pos _ (show (0:Int) ≤ 86400000000 by decide),
      fdiv_pos _ (show (0:Int) ≤ 1000000 by decide), fmod_pos _ (show (0:Int) ≤ 1000000 by decide)]
    have h0 : (0:Int) ≤ us % 86400000000 % 1000000 := Int.emod_nonneg _ (by decide)
    rw [Int.tdiv_eq_ediv_of_nonneg h0]
    congr 2
    omega
  · unfold readTimestamp DT_MIN_US DT_MAX_US
    have h1 : ¬ (us / 1000 * 1000 < -62135596800000000) := by omega
    have h2 : ¬ (us / 1000 * 1000 > 253402300799999999) := by omega
    simp [h1, h2]

theorem timestamp_micros (us : Int) (aware : Bool) (h : DT_MIN_US ≤ us ∧ us ≤ DT_MAX_US) :
    prepareTimestampMicros (.datetime us aware) = .ok (.int us) ∧
    readTimestamp aware us = .ok (.datetime us aware) := by
  unfold DT_MIN_US DT_MAX_US at h
  constructor
  · unfold prepareTimestampMicros tdNorm MCS_PER_SECOND
    simp only [fdiv_pos _ (show (0:Int) ≤ 86400000000 by decide), fmod_pos _ (show (0:Int) ≤ 86400000000 by decide),
      fdiv_pos _ (show (0:Int) ≤ 1000000 by decide), fmod_pos _ (show (0:Int) ≤ 1000000 by decide)]
    congr 2
    omega
  · unfold readTimestamp DT_MIN_US DT_MAX_US
    have h1 : ¬ (us < -62135596800000000) := by omega
    have h2 : ¬ (us > 253402300799999999) := by omega
    simp [h1, h2]

/-! ### big-endian two's complement (`int.to_bytes` / `int.from_bytes`, signed) -/

theorem toBytesBE_length (len n : Nat) : (Py.toBytesBE len n).length = len := by
  induction len with
  | zero => rfl
  | succ k ih => simp [Py.toBytesBE, ih]

theorem foldl_toBytesBE (len n acc : Nat) :
    (Py.toBytesBE len n).foldl (fun a x => a * 256 + x.toNat) acc = acc * 256 ^ len + n % 256 ^ len := by
  induction len generalizing acc with
  | zero => simp [Py.toBytesBE, Nat.mod_one]
  | succ k ih =>
    have e : 2 ^ (8 * k) = 256 ^ k := by rw [Nat.pow_mul]
    have hb : (UInt8.ofNat (n >>> (8 * k) % 256)).toNat = n / 256 ^ k % 256 := by
      rw [Nat.shiftRight_eq_div_pow, e]; simp
    simp only [Py.toBytesBE, List.foldl_cons, ih, hb]
    have h2 : n % 256 ^ (k + 1) = n % 256 ^ k + 256 ^ k * (n / 256 ^ k % 256) := by
      rw [Nat.pow_succ]; exact Nat.mod_mul
    rw [h2, Nat.pow_succ]
    generalize 256 ^ k = p
    generalize n / p % 256 = d
    generalize n % p = m
    rw [Nat.add_mul, Nat.mul_assoc, Nat.mul_comm 256 p, Nat.mul_comm d p]
    omega

theorem fromBytesBE_toBytesBE (len n : Nat) : Py.fromBytesBE (Py.toBytesBE len n) = n % 256 ^ len := by
  unfold Py.fromBytesBE; rw [foldl_toBytesBE]; simp

theorem fromBytesBE_zeros (k : Nat) (b : Bytes) : Py.fromBytesBE (List.replicate k 0 ++ b) = Py.fromBytesBE b := by
  unfold Py.fromBytesBE
  induction k with
  | zero => rfl
  | succ k ih => simp [List.replicate_succ, ih]

/-- `int.from_bytes(n.to_bytes(len, 'big', signed=True), 'big', signed=True) == n` -/
theorem twos_complement_roundtrip (len : Nat) (n : Int) (b : Bytes) (h : Py.toBytesBESigned len n = some b) :
    Py.fromBytesBESigned b = n ∧ b.length = len := by
  unfold Py.toBytesBESigned at h
  by_cases hl : len = 0
  · subst hl
    simp only [↓reduceIte] at h
    split at h
    · rename_i hn; simp only [Option.some.injEq] at h; subst h; subst hn; exact ⟨rfl, rfl⟩
    · simp at h
  · simp only [hl, ↓reduceIte] at h
    have hpow : (256 : Nat) ^ len = 2 ^ (8 * len) := by rw [Nat.pow_mul]
    have hsplit : 2 ^ (8 * len) = 2 * 2 ^ (8 * len - 1) := by
      rw [← Nat.pow_succ']; congr 1; omega
    split at h
    · rename_i hn
      split at h
      · rename_i hlt
        simp only [Option.some.injEq] at h; subst h
        refine ⟨?_, toBytesBE_length _ _⟩
        unfold Py.fromBytesBESigned
        simp only [fromBytesBE_toBytesBE, toBytesBE_length]
        have hmod : n.toNat % 256 ^ len = n.toNat := Nat.mod_eq_of_lt (by rw [hpow, hsplit]; omega)
        have h8 : ¬ (8 * len = 0) := by omega
        simp only [hmod, h8, ↓reduceIte, hlt]
        omega
      · simp at h
    · rename_i hn
      split at h
      · rename_i hle
        simp only [Option.some.injEq] at h; subst h
        refine ⟨?_, toBytesBE_length _ _⟩
        unfold Py.fromBytesBESigned
        simp only [fromBytesBE_toBytesBE, toBytesBE_length]
        have hpos : 0 < (-n).toNat := by omega
        have hmod : (2 ^ (8 * len) - (-n).toNat) % 256 ^ len = 2 ^ (8 * len) - (-n).toNat := by
          apply Nat.mod_eq_of_lt; rw [hpow]; omega
        have h8 : ¬ (8 * len = 0) := by omega
        have hge : ¬ (2 ^ (8 * len) - (-n).toNat < 2 ^ (8 * len - 1)) := by rw [hsplit]; omega
        simp only [hmod, h8, ↓reduceIte, hge]
        have : (-n).toNat ≤ 2 ^ (8 * len) := by rw [hsplit]; omega
        omega
      · simp at h

/-! ### decimals -/

theorem digitsToNat_append_zeros (ds : List Nat) (k : Nat) :
    digitsToNat (ds ++ List.replicate k 0) = digitsToNat ds * 10 ^ k := by
  unfold digitsToNat
  rw [List.foldl_append]
  generalize List.foldl (fun acc d => acc * 10 + d) 0 ds = a
  induction k generalizing a with
  | zero => simp
  | succ k ih =>
    simp only [List.replicate_succ, List.foldl_cons, Nat.add_zero, ih, Nat.pow_succ]
    rw [Nat.mul_assoc, Nat.mul_comm 10]

def signedUnscaled (sign : Bool) (u : Nat) : Int := if sign then -(u : Int) else (u : Int)

/-- **bytes decimal**: whenever the writer accepts a decimal, the stored bytes are a big-endian
    two's-complement representation of exactly the unscaled integer `±digits·10^(exp+scale)` —
    never of another number — and the digit count / scale guards held -/
theorem bytes_decimal (lt : LogT) (sign : Bool) (digits : List Nat) (exp : Int) (v : Val)
    (h : prepareBytesDecimal lt (.decimal sign digits exp) = .ok v) :
    ∃ b p, v = .bytes b ∧ lt.precision = some p ∧ (digits.length : Int) ≤ p ∧ 0 ≤ exp + lt.scale ∧
      Py.fromBytesBESigned b = signedUnscaled sign (10 ^ (exp + lt.scale).toNat * digitsToNat digits) := by
  unfold prepareBytesDecimal at h
  cases hp : lt.precision with
  | none => simp [hp, bind, Except.bind, throw, throwThe, MonadExceptOf.throw] at h
  | some p =>
    simp only [hp, bind, Except.bind, pure, Except.pure] at h
    by_cases h1 : (digits.length : Int) > p
    · simp [h1, throw, throwThe, MonadExceptOf.throw] at h
    · simp only [h1, ↓reduceIte] at h
      by_cases h2 : exp + lt.scale < 0
      · simp [h2, throw, throwThe, MonadExceptOf.throw] at h
      · simp only [h2, ↓reduceIte] at h
        split at h
        · rename_i b hb
          simp only [Except.ok.injEq] at h
          refine ⟨b, p, h.symm, rfl, by omega, by omega, ?_⟩
          have := (twos_complement_roundtrip _ _ _ hb).1
          rw [this]
          unfold signedUnscaled
          cases sign <;> simp
        · simp [throw, throwThe, MonadExceptOf.throw] at h

theorem xor_low_mask (S b : Nat) (h : b ≤ S) : (2^S - 1) ^^^ (2^b - 1) = 2^b * (2^(S-b) - 1) := by
  apply Nat.eq_of_testBit_eq
  intro i
  rw [Nat.testBit_xor, Nat.testBit_two_pow_sub_one, Nat.testBit_two_pow_sub_one, Nat.testBit_two_pow_mul,
      Nat.testBit_two_pow_sub_one]
  by_cases h1 : i < b
  · have : i < S := by omega
    simp [h1, this]; omega
  · have h1' : b ≤ i := by omega
    by_cases h2 : i < S
    · have : i - b < S - b := by omega
      simp [h1, h1', h2, this]
    · have : ¬ (i - b < S - b) := by omega
      simp [h1, h1', h2, this]

theorem fixed_neg_value (S b u : Nat) (hb : b ≤ S) (hu0 : 0 < u) (hu : u < 2^b) :
    (((2^S - 1) ^^^ (2^b - 1)) ||| (2^b - u)) = 2^S - u := by
  rw [xor_low_mask S b hb, ← Nat.two_pow_add_eq_or_of_lt (by omega : 2^b - u < 2^b)]
  have hpow : 2^S = 2^b * 2^(S-b) := by rw [← Nat.pow_add]; congr 1; omega
  have hpos : 0 < 2^(S-b) := Nat.two_pow_pos _
  rw [hpow, Nat.mul_sub, Nat.mul_one]
  have : 2^b ≤ 2^b * 2^(S-b) := Nat.le_mul_of_pos_right _ hpos
  omega

theorem bitLength_bounds (u : Nat) (h : u ≠ 0) : 2 ^ (Py.bitLength u - 1) ≤ u ∧ u < 2 ^ Py.bitLength u := by
  unfold Py.bitLength
  simp only [h, ↓reduceIte, Nat.add_sub_cancel]
  exact ⟨Nat.log2_self_le h, Nat.lt_log2_self⟩

/-- the edge case `u = 2^(S-1)` (the most negative value), where `bits_req = S + 1` -/
theorem fixed_neg_edge (S : Nat) (hS : 0 < S) :
    (((2^S - 1) ^^^ (2^(S+1) - 1)) ||| (2^(S+1) - 2^(S-1))) % 2^S = 2^S - 2^(S-1) := by
  have hx : (2^S - 1) ^^^ (2^(S+1) - 1) = 2^S := by
    apply Nat.eq_of_testBit_eq
    intro i
    rw [Nat.testBit_xor, Nat.testBit_two_pow_sub_one, Nat.testBit_two_pow_sub_one, Nat.testBit_two_pow]
    by_cases h1 : i < S
    · have : i < S + 1 := by omega
      have : S ≠ i := by omega
      simp [h1, *]
    · by_cases h2 : i = S
      · subst h2; simp
      · have : ¬ i < S + 1 := by omega
        have : S ≠ i := by omega
        simp [h1, *]
  rw [hx]
  have e1 : 2^(S+1) = 2 * 2^S := by rw [Nat.pow_succ]; omega
  have e2 : 2^S = 2 * 2^(S-1) := by rw [← Nat.pow_succ']; congr 1; omega
  have hq : 0 < 2^(S-1) := Nat.two_pow_pos _
  have e3 : 2^(S+1) - 2^(S-1) = 2^S * 1 + 2^(S-1) := by omega
  rw [e3, Nat.two_pow_add_eq_or_of_lt (by omega : 2^(S-1) < 2^S), ← Nat.or_assoc]
  have e4 : 2^S ||| 2^S * 1 = 2^S := by simp
  rw [e4, ← Nat.mul_one (2^S), ← Nat.two_pow_add_eq_or_of_lt (by omega : 2^(S-1) < 2^S)]
  rw [Nat.mul_one, Nat.add_mod, Nat.mod_self, Nat.zero_add, Nat.mod_mod, Nat.mod_eq_of_lt (by omega)]
  omega

/-- the digits after padding with `exp + scale` zeros (`prepare_fixed_decimal`) -/
def paddedDigits (digits : List Nat) (exp scale : Int) : List Nat :=
  if exp + scale > 0 then digits ++ List.replicate (exp + scale).toNat 0 else digits

/-- **fixed decimal**: whenever the writer accepts a decimal, the result has exactly the declared
    size and is the big-endian two's complement (sign-extended) of exactly the unscaled integer —
    never of another number; negative zero is stored as zero -/
theorem fixed_decimal (lt : LogT) (size : Nat) (sign : Bool) (digits : List Nat) (exp : Int) (v : Val)
    (h : prepareFixedDecimal lt size (.decimal sign digits exp) = .ok v) :
    ∃ b p, v = .bytes b ∧ b.length = size ∧ lt.precision = some p ∧ (digits.length : Int) ≤ p ∧
      -exp ≤ lt.scale ∧
      Py.fromBytesBESigned b = signedUnscaled sign (digitsToNat (paddedDigits digits exp lt.scale)) := by
  unfold prepareFixedDecimal at h
  cases hp : lt.precision with
  | none => simp [hp, bind, Except.bind, throw, throwThe, MonadExceptOf.throw] at h
  | some p =>
    simp only [hp, bind, Except.bind, pure, Except.pure] at h
    by_cases h1 : (digits.length : Int) > p
    · simp [h1, throw, throwThe, MonadExceptOf.throw] at h
    · simp only [h1, ↓reduceIte] at h
      by_cases h2 : -exp > lt.scale
      · simp [h2, throw, throwThe, MonadExceptOf.throw] at h
      · simp only [h2, ↓reduceIte] at h
        by_cases h3 : size * 8 = 0
        · simp [h3, throw, throwThe, MonadExceptOf.throw] at h
        · simp only [h3, ↓reduceIte] at h
          have hpad : (if exp + lt.scale > 0 then digits ++ List.replicate (exp + lt.scale).toNat 0 else digits) =
              paddedDigits digits exp lt.scale := rfl
          simp only [hpad] at h
          generalize hu : digitsToNat (paddedDigits digits exp lt.scale) = u at h
          have hS : 0 < size * 8 := by omega
          have hsplit : 2 ^ (size * 8) = 2 * 2 ^ (size * 8 - 1) := by
            rw [← Nat.pow_succ']; congr 1; omega
          have hq : 0 < 2 ^ (size * 8 - 1) := Nat.two_pow_pos _
          have h256 : (256 : Nat) ^ size = 2 ^ (size * 8) := by rw [Nat.mul_comm, Nat.pow_mul]
          have hcast : ((2 : Int) ^ (size * 8 - 1)) = ((2 ^ (size * 8 - 1) : Nat) : Int) := by simp
          by_cases hu0 : u = 0
          · -- zero (also negative zero): the non-negative branch writes zeros
            subst hu0
            simp only [↓reduceIte, Bool.false_eq_true] at h
            have hr0 : ¬ (((0 : Nat) : Int) > (2 : Int) ^ (size * 8 - 1) - 1) := by rw [hcast]; omega
            simp only [hr0, ↓reduceIte, Except.ok.injEq] at h
            have hbl0 : Py.bitLength 0 = 0 := rfl
            simp only [hbl0, Nat.zero_add, (by decide : (1:Nat) < 8), ↓reduceIte] at h
            refine ⟨_, p, h.symm, ?_, rfl, by omega, by omega, ?_⟩
            · simp only [List.length_append, List.length_replicate, toBytesBE_length]
              rw [Int.fdiv_eq_ediv_of_nonneg _ (by decide)]
              omega
            · unfold Py.fromBytesBESigned
              rw [fromBytesBE_zeros, fromBytesBE_toBytesBE]
              simp only [Nat.zero_mod, List.length_append, List.length_replicate, toBytesBE_length]
              unfold signedUnscaled
              have hlen : (((size * 8 : Nat) : Int) - ((1 : Nat) : Int)).fdiv 8 = ((size - 1 : Nat) : Int) := by
                rw [Int.fdiv_eq_ediv_of_nonneg _ (by decide)]; omega
              simp only [hlen, Int.toNat_natCast]
              have h8 : ¬ (8 * (size - 1 + 1) = 0) := by omega
              have hpos : 0 < 2 ^ (8 * (size - 1 + 1) - 1) := Nat.two_pow_pos _
              simp only [h8, ↓reduceIte, hpos]
              cases sign <;> simp
          · simp only [hu0, ↓reduceIte] at h
            by_cases hrange : ((u : Nat) : Int) > (2 : Int) ^ (size * 8 - 1) - (if sign = true then 0 else 1)
            · simp [hrange, throw, throwThe, MonadExceptOf.throw] at h
            · simp only [hrange, ↓reduceIte] at h
              rw [hcast] at hrange
              obtain ⟨hlo, hhi⟩ := bitLength_bounds u hu0
              have hbl : 0 < Py.bitLength u := by
                unfold Py.bitLength; simp [hu0]
              cases sign with
              | true =>
                simp only [↓reduceIte, Except.ok.injEq] at h
                simp only [↓reduceIte, Int.sub_zero] at hrange
                have hle : u ≤ 2 ^ (size * 8 - 1) := by omega
                refine ⟨_, p, h.symm, toBytesBE_length _ _, rfl, by omega, by omega, ?_⟩
                unfold Py.fromBytesBESigned signedUnscaled
                simp only [fromBytesBE_toBytesBE, toBytesBE_length, ↓reduceIte]
                have h8 : ¬ (8 * size = 0) := by omega
                have hS8 : 8 * size = size * 8 := Nat.mul_comm _ _
                simp only [h8, ↓reduceIte, hS8, h256]
                -- value of the masked word modulo 2^S
                have hval : (((2 ^ (size * 8) - 1) ^^^ (2 ^ (Py.bitLength u + 1) - 1)) |||
                    (2 ^ (Py.bitLength u + 1) - u)) % 2 ^ (size * 8) = 2 ^ (size * 8) - u := by
                  by_cases hb : Py.bitLength u + 1 ≤ size * 8
                  · rw [fixed_neg_value _ _ u hb (by omega) (by rw [Nat.pow_succ]; omega)]
                    exact Nat.mod_eq_of_lt (by omega)
                  · -- then u = 2^(S-1) exactly
                    have hbl2 : Py.bitLength u = size * 8 := by
                      have : Py.bitLength u - 1 < size * 8 := by
                        apply (Nat.pow_lt_pow_iff_right (show 1 < 2 by decide)).mp
                        rw [hsplit]; omega
                      omega
                    have hueq : u = 2 ^ (size * 8 - 1) := by
                      rw [hbl2] at hlo; omega
                    rw [hbl2, hueq]
                    exact fixed_neg_edge (size * 8) hS
                rw [hval]
                have hge : ¬ (2 ^ (size * 8) - u < 2 ^ (size * 8 - 1)) := by rw [hsplit]; omega
                simp only [hge, ↓reduceIte]
                have : u ≤ 2 ^ (size * 8) := by rw [hsplit]; omega
                omega
              | false =>
                simp only [Bool.false_eq_true, ↓reduceIte, Except.ok.injEq] at h
                simp only [Bool.false_eq_true, ↓reduceIte] at hrange
                have hlt : u < 2 ^ (size * 8 - 1) := by omega
                -- bits_req ≤ S
                have hb : Py.bitLength u + 1 ≤ size * 8 := by
                  have : Py.bitLength u - 1 < size * 8 - 1 := by
                    apply (Nat.pow_lt_pow_iff_right (show 1 < 2 by decide)).mp
                    omega
                  omega
                generalize hbr : Py.bitLength u + 1 = br at *
                generalize hbytes : (if br < 8 then 1 else if br % 8 != 0 then br / 8 + 1 else br / 8) = bytesReq at h
                have hbytes8 : br ≤ 8 * bytesReq ∧ (((size * 8 : Nat) : Int) - (br : Int)).fdiv 8 = ((size - bytesReq : Nat) : Int)
                    ∧ bytesReq ≤ size := by
                  rw [Int.fdiv_eq_ediv_of_nonneg _ (by decide)]
                  rw [← hbytes]
                  split
                  · omega
                  · split
                    · rename_i h8 hm; simp only [bne_iff_ne, ne_eq] at hm; omega
                    · rename_i h8 hm; simp only [bne_iff_ne, ne_eq, Decidable.not_not] at hm; omega
                refine ⟨_, p, h.symm, ?_, rfl, by omega, by omega, ?_⟩
                · simp only [List.length_append, List.length_replicate, toBytesBE_length, hbytes8.2.1, Int.toNat_natCast]
                  omega
                · unfold Py.fromBytesBESigned signedUnscaled
                  rw [fromBytesBE_zeros, fromBytesBE_toBytesBE]
                  simp only [List.length_append, List.length_replicate, toBytesBE_length, hbytes8.2.1, Int.toNat_natCast,
                    Bool.false_eq_true, ↓reduceIte]
                  have hlen : size - bytesReq + bytesReq = size := by omega
                  have h8 : ¬ (8 * size = 0) := by omega
                  have hS8 : 8 * size = size * 8 := Nat.mul_comm _ _
                  have hmod : u % 256 ^ bytesReq = u := by
                    apply Nat.mod_eq_of_lt
                    have : (256 : Nat) ^ bytesReq = 2 ^ (8 * bytesReq) := by rw [Nat.pow_mul]
                    rw [this]
                    calc u < 2 ^ (br - 1) := by rw [← hbr]; simpa using hhi
                      _ ≤ 2 ^ (8 * bytesReq) := Nat.pow_le_pow_right (by decide) (by omega)
                  simp only [hlen, h8, ↓reduceIte, hS8, hmod, hlt, h3]

end LogicalProofs
