/-
  Proofs/GenerateTerm.lean — termination of `gen_data` (model Generate.genData): on a schema that is a finite tree
  (no by-name reference) a budget of the schema's depth is enough, whatever the random source returns; on a type that
  refers to itself through an array no budget is (finding F6).
-/
import Proofs.Generate

namespace GenTerm
open Generate Binary

/-! ### termination -/

mutual
/-- no by-name reference, no logical annotation: the schema is a finite tree -/
def treeS : Schema → Bool
  | .prim _ _ lt => lt.isNone
  | .fixed _ _ lt _ => lt.isNone
  | .enum .. => true
  | .array i => treeS i
  | .map v => treeS v
  | .union bs => treeL bs
  | .record _ fs _ => treeF fs
  | .ref _ => false
def treeL : List Schema → Bool
  | [] => true
  | b :: bs => treeS b && treeL bs
def treeF : List Field → Bool
  | [] => true
  | .mk _ t _ _ :: fs => treeS t && treeF fs
end

mutual
def depthS : Schema → Nat
  | .array i => depthS i + 1
  | .map v => depthS v + 1
  | .union bs => depthL bs + 1
  | .record _ fs _ => depthF fs + 1
  | _ => 1
def depthL : List Schema → Nat
  | [] => 0
  | b :: bs => max (depthS b) (depthL bs)
def depthF : List Field → Nat
  | [] => 0
  | .mk _ t _ _ :: fs => max (depthS t) (depthF fs)
end

theorem randint_no_fuel (a b : Int) (ρ : Rand) (i : Nat) : randint a b ρ i ≠ .error .fuel := by
  unfold randint; split <;> simp

theorem items_no_fuel (g : Nat → R (Val × Nat)) (hg : ∀ i, g i ≠ .error .fuel) : ∀ n i, genItemsWith g n i ≠ .error .fuel := by
  intro n
  induction n with
  | zero => intro i; simp [genItemsWith, pure, Except.pure]
  | succ n ih =>
    intro i
    simp only [genItemsWith, bind, Except.bind]
    cases h : g i with
    | error e => intro hc; simp at hc; subst hc; exact hg i h
    | ok r =>
      obtain ⟨x, i1⟩ := r
      simp only
      cases h2 : genItemsWith g n i1 with
      | error e => intro hc; simp at hc; subst hc; exact ih i1 h2
      | ok r2 => simp [pure, Except.pure]

theorem entries_no_fuel (g : Nat → R (Val × Nat)) (ρ : Rand) (hg : ∀ i, g i ≠ .error .fuel) :
    ∀ n i acc, genEntriesWith g ρ n i acc ≠ .error .fuel := by
  intro n
  induction n with
  | zero => intro i acc; simp [genEntriesWith, pure, Except.pure]
  | succ n ih =>
    intro i acc
    simp only [genEntriesWith, bind, Except.bind]
    cases h : g (i + 10) with
    | error e => intro hc; simp at hc; subst hc; exact hg _ h
    | ok r => obtain ⟨x, i1⟩ := r; exact ih _ _

theorem fields_no_fuel (g : Schema → Nat → R (Val × Nat)) :
    ∀ (fs : List Field), (∀ f ∈ fs, ∀ i, g f.type i ≠ .error .fuel) → ∀ i acc, genFieldsWith g fs i acc ≠ .error .fuel := by
  intro fs
  induction fs with
  | nil => intro _ i acc; simp [genFieldsWith, pure, Except.pure]
  | cons f rest ih =>
    intro hg i acc
    simp only [genFieldsWith, bind, Except.bind]
    cases h : g f.type i with
    | error e => intro hc; simp at hc; subst hc; exact hg f (by simp) i h
    | ok r => obtain ⟨x, i1⟩ := r; exact ih (fun f' hf' => hg f' (by simp [hf'])) _ _

theorem treeL_mem : ∀ (bs : List Schema) (b : Schema), treeL bs = true → b ∈ bs → treeS b = true ∧ depthS b ≤ depthL bs := by
  intro bs
  induction bs with
  | nil => intro b _ h; cases h
  | cons b0 bs ih =>
    intro b ht hb
    simp only [treeL, Bool.and_eq_true] at ht
    simp only [List.mem_cons] at hb
    rcases hb with rfl | hb
    · exact ⟨ht.1, by simp only [depthL]; omega⟩
    · obtain ⟨h1, h2⟩ := ih b ht.2 hb
      exact ⟨h1, by simp only [depthL]; omega⟩

theorem treeF_mem : ∀ (fs : List Field) (f : Field), treeF fs = true → f ∈ fs → treeS f.type = true ∧ depthS f.type ≤ depthF fs := by
  intro fs
  induction fs with
  | nil => intro f _ h; cases h
  | cons f0 fs ih =>
    intro f ht hf
    obtain ⟨n0, t0, d0, a0⟩ := f0
    simp only [treeF, Bool.and_eq_true] at ht
    simp only [List.mem_cons] at hf
    rcases hf with rfl | hf
    · exact ⟨ht.1, by simp only [depthF, Field.type]; omega⟩
    · obtain ⟨h1, h2⟩ := ih f ht.2 hf
      exact ⟨h1, by simp only [depthF]; omega⟩

/-- on a schema without by-name references `gen_data` returns (a value or a
    ValueError for an empty enum / union), whatever the random source does: a budget of the schema's depth is enough -/
theorem terminates_tree (env : Env) (ρ : Rand) : ∀ (fuel : Nat) (s : Schema), treeS s = true → depthS s ≤ fuel →
    ∀ i, genData fuel env ρ s i ≠ .error .fuel := by
  intro fuel
  induction fuel with
  | zero =>
    intro s _ hd i
    cases s <;> simp [depthS] at hd
  | succ fuel ih =>
    intro s ht hd i
    cases s with
    | prim p df lt =>
      cases lt with
      | some l => simp [treeS] at ht
      | none =>
        simp only [genData]
        have hr : ∀ a b, randint a b ρ i ≠ .error .fuel := by
          intro a b; unfold randint; split <;> simp
        cases p <;> simp only [genPrim, bind, Except.bind, pure, Except.pure] <;> (try simp)
        all_goals
          first
          | (cases h : randint Validate.INT_MIN Validate.INT_MAX ρ i with
             | error e => intro hc; simp at hc; subst hc; exact hr _ _ h
             | ok n => simp)
          | (cases h : randint Validate.LONG_MIN Validate.LONG_MAX ρ i with
             | error e => intro hc; simp at hc; subst hc; exact hr _ _ h
             | ok n => simp)
          | (cases h : randint 0 1 ρ i with
             | error e => intro hc; simp at hc; subst hc; exact hr _ _ h
             | ok n => simp)
    | fixed n sz lt al =>
      cases lt with
      | some l => simp [treeS] at ht
      | none => simp [genData, pure, Except.pure]
    | enum n syms d al =>
      simp only [genData, bind, Except.bind]
      cases h : randint 0 ((syms.length : Int) - 1) ρ i with
      | error e => intro hc; simp at hc; subst hc; exact randint_no_fuel _ _ ρ i h
      | ok k =>
        simp only
        split <;> simp [pure, Except.pure, throw, throwThe, MonadExceptOf.throw]
    | array items =>
      simp only [treeS] at ht
      simp only [depthS] at hd
      simp only [genData, bind, Except.bind]
      have := items_no_fuel (genData fuel env ρ items) (fun j => ih items ht (by omega) j) 10 i
      cases h : genItemsWith (genData fuel env ρ items) 10 i with
      | error e => intro hc; simp at hc; subst hc; exact this h
      | ok r => simp [pure, Except.pure]
    | map values =>
      simp only [treeS] at ht
      simp only [depthS] at hd
      simp only [genData, bind, Except.bind]
      have := entries_no_fuel (genData fuel env ρ values) ρ (fun j => ih values ht (by omega) j) 10 i []
      cases h : genEntriesWith (genData fuel env ρ values) ρ 10 i [] with
      | error e => intro hc; simp at hc; subst hc; exact this h
      | ok r => simp [pure, Except.pure]
    | union bs =>
      simp only [treeS] at ht
      simp only [depthS] at hd
      simp only [genData, bind, Except.bind]
      cases h : randint 0 ((bs.length : Int) - 1) ρ i with
      | error e => intro hc; simp at hc; subst hc; exact randint_no_fuel _ _ ρ i h
      | ok k =>
        simp only
        split
        · rename_i b hb
          have hmem : b ∈ bs := List.mem_of_getElem? hb
          obtain ⟨h1, h2⟩ := treeL_mem bs b ht hmem
          exact ih b h1 (by omega) _
        · simp [throw, throwThe, MonadExceptOf.throw]
    | record n fs al =>
      simp only [treeS] at ht
      simp only [depthS] at hd
      simp only [genData, bind, Except.bind]
      have := fields_no_fuel (genData fuel env ρ) fs (fun f hf j => by
        obtain ⟨h1, h2⟩ := treeF_mem fs f ht hf
        exact ih f.type h1 (by omega) j) i []
      cases h : genFieldsWith (genData fuel env ρ) fs i [] with
      | error e => intro hc; simp at hc; subst hc; exact this h
      | ok r => simp [pure, Except.pure]
    | ref n => simp [treeS] at ht

/-! ### F6: a type that refers to itself through an array never returns -/
def c20node : Schema := .record "Node" [.mk "children" (.array (.ref "Node")) none []] []
def c20env : Env := [("Node", c20node)]

theorem never_returns (ρ : Rand) : ∀ (fuel : Nat) (i : Nat),
    genData fuel c20env ρ (.ref "Node") i = .error .fuel ∧ genData fuel c20env ρ c20node i = .error .fuel ∧
    genData fuel c20env ρ (.array (.ref "Node")) i = .error .fuel := by
  intro fuel
  induction fuel with
  | zero => intro i; simp [genData]
  | succ fuel ih =>
    intro i
    refine ⟨?_, ?_, ?_⟩
    · have : c20env.get? "Node" = some c20node := rfl
      simp only [genData, this]
      exact (ih i).2.1
    · simp only [c20node, genData, genFieldsWith, Field.type, bind, Except.bind]
      rw [(ih i).2.2]
    · simp only [genData, genItemsWith, bind, Except.bind]
      rw [(ih i).1]

end GenTerm
