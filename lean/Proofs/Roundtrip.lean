/-
  Proofs/Roundtrip.lean — reading what was written returns the normal form and leaves the rest of
  the stream untouched (property C01), for the whole recursive codec model.
-/
import Model.Binary
import Spec.Normalize
import Proofs.Basic

namespace RoundtripProofs
open Binary BasicProofs

/-! ### primitives -/

theorem int_bounds_64 {n : Int} (h : Validate.LONG_MIN ≤ n ∧ n ≤ Validate.LONG_MAX) :
    -(2:Int)^63 ≤ n ∧ n < 2^63 := by
  have e2 : (2:Int)^63 = 9223372036854775808 := by decide
  unfold Validate.LONG_MIN Validate.LONG_MAX at h
  omega

theorem int_bounds_32 {n : Int} (h : Validate.INT_MIN ≤ n ∧ n ≤ Validate.INT_MAX) :
    -(2:Int)^63 ≤ n ∧ n < 2^63 := by
  have e2 : (2:Int)^63 = 9223372036854775808 := by decide
  unfold Validate.INT_MIN Validate.INT_MAX at h
  omega

theorem limit_eq : Spec.LIMIT = 2 ^ 63 := rfl

theorem bytes_roundtrip (b bs rest : Bytes) (hl : b.length < 2 ^ 63)
    (h : (encodeLong (b.length : Int)).append (WR.ok b) = ⟨bs, none⟩) :
    decBytesRaw (bs ++ rest) = .ok (b, rest) := by
  rw [append_ok_iff] at h
  obtain ⟨b1, b2, h1, h2, rfl⟩ := h
  rw [ok_eq] at h2; injection h2 with h2 _; subst h2
  unfold decBytesRaw
  rw [List.append_assoc, encodeNat_ok_decode _ hl _ _ h1]
  simp only [bind, Except.bind]
  have : ¬ ((b.length : Int) < 0) := by omega
  simp only [this, ↓reduceIte, Int.toNat_natCast, takeN_append, pure, Except.pure]

theorem prim_roundtrip (p : Prim) (v nf : Val) (bs rest : Bytes)
    (hw : writePrim p v = ⟨bs, none⟩) (hn : Spec.normPrim p v = some nf) :
    readPrim p (bs ++ rest) = .ok (nf, rest) := by
  cases p <;> cases v <;> simp only [Spec.normPrim, reduceCtorEq] at hn
  -- null
  · simp only [Option.some.injEq] at hn; subst hn
    simp only [writePrim, ok_eq, WR.mk.injEq, and_true] at hw; subst hw
    simp [readPrim, pure, Except.pure]
  -- boolean
  · rename_i b
    simp only [Option.some.injEq] at hn; subst hn
    simp only [writePrim, encBool, ok_eq, WR.mk.injEq, and_true] at hw; subst hw
    cases b <;> simp [readPrim, decBool, Val.truthy]
  -- int
  · rename_i n
    split at hn
    · rename_i hb
      simp only [Option.some.injEq] at hn; subst hn
      simp only [writePrim, encInt] at hw
      obtain ⟨h1, h2⟩ := int_bounds_32 hb
      simp [readPrim, encodeLong_ok_decode n h1 h2 bs rest hw, bind, Except.bind, pure, Except.pure]
    · simp at hn
  -- long
  · rename_i n
    split at hn
    · rename_i hb
      simp only [Option.some.injEq] at hn; subst hn
      simp only [writePrim, encInt] at hw
      obtain ⟨h1, h2⟩ := int_bounds_64 hb
      simp [readPrim, encodeLong_ok_decode n h1 h2 bs rest hw, bind, Except.bind, pure, Except.pure]
    · simp at hn
  -- float, int datum
  · rename_i n
    simp only [writePrim, encFloat, toDouble?] at hw
    cases ho : Fl.ofInt n with
    | none => simp [ho] at hn
    | some d =>
      simp only [ho, Option.bind_some, Option.map_eq_some_iff] at hn
      obtain ⟨f, hf, rfl⟩ := hn
      simp only [ho, hf, ok_eq, WR.mk.injEq, and_true] at hw; subst hw
      simp [readPrim, decFloat_u32LE]
  -- float, float datum
  · rename_i b
    simp only [writePrim, encFloat, toDouble?] at hw
    simp only [Option.map_eq_some_iff] at hn
    obtain ⟨f, hf, rfl⟩ := hn
    simp only [hf, ok_eq, WR.mk.injEq, and_true] at hw; subst hw
    simp [readPrim, decFloat_u32LE]
  -- double, int datum
  · rename_i n
    simp only [writePrim, encDouble, toDouble?] at hw
    simp only [Option.map_eq_some_iff] at hn
    obtain ⟨d, hd, rfl⟩ := hn
    simp only [hd, ok_eq, WR.mk.injEq, and_true] at hw; subst hw
    simp [readPrim, decDouble_u64LE]
  -- double, float datum
  · rename_i b
    simp only [Option.some.injEq] at hn; subst hn
    simp only [writePrim, encDouble, toDouble?, ok_eq, WR.mk.injEq, and_true] at hw; subst hw
    simp [readPrim, decDouble_u64LE]
  -- bytes, bytes datum
  · rename_i b
    split at hn
    · rename_i hl
      simp only [Option.some.injEq] at hn; subst hn
      simp only [writePrim, encBytes] at hw
      simp [readPrim, decBytes, bytes_roundtrip b bs rest (by rw [limit_eq] at hl; exact hl) hw, bind, Except.bind,
        pure, Except.pure]
    · simp at hn
  -- bytes, bytearray datum
  · rename_i b
    split at hn
    · rename_i hl
      simp only [Option.some.injEq] at hn; subst hn
      simp only [writePrim, encBytes] at hw
      simp [readPrim, decBytes, bytes_roundtrip b bs rest (by rw [limit_eq] at hl; exact hl) hw, bind, Except.bind,
        pure, Except.pure]
    · simp at hn
  -- string
  · rename_i s
    split at hn
    · rename_i hl
      simp only [Option.some.injEq] at hn; subst hn
      simp only [writePrim, encUtf8] at hw
      simp [readPrim, decUtf8, decUtf8Raw,
        bytes_roundtrip (utf8Enc s) bs rest (by rw [limit_eq] at hl; exact hl) hw, bind, Except.bind,
        pure, Except.pure, utf8Dec_utf8Enc]
    · simp at hn

/-! ### sequences -/

theorem concat_cons_ok (w : WR) (ws : List WR) (bs : Bytes) :
    WR.concat (w :: ws) = ⟨bs, none⟩ ↔ ∃ b1 b2, w = ⟨b1, none⟩ ∧ WR.concat ws = ⟨b2, none⟩ ∧ bs = b1 ++ b2 := by
  simp only [WR.concat]; exact append_ok_iff _ _ _

theorem items_roundtrip (w : Val → WR) (rd : Bytes → R (Val × Bytes)) (nm : Val → Option Val)
    (xs : List Val) (nfs : List Val) (bs tail : Bytes)
    (hrt : ∀ x ∈ xs, ∀ b nf rest, w x = ⟨b, none⟩ → nm x = some nf → rd (b ++ rest) = .ok (nf, rest))
    (hw : WR.concat (xs.map w) = ⟨bs, none⟩) (hn : Spec.mapM' nm xs = some nfs) :
    readItemsWith rd xs.length (bs ++ tail) = .ok (nfs, tail) := by
  induction xs generalizing bs nfs with
  | nil =>
    simp only [List.map_nil, WR.concat, ok_eq, WR.mk.injEq, and_true] at hw; subst hw
    simp only [Spec.mapM', Option.some.injEq] at hn; subst hn
    simp [readItemsWith, pure, Except.pure]
  | cons x xs ih =>
    rw [List.map_cons, concat_cons_ok] at hw
    obtain ⟨b1, b2, h1, h2, rfl⟩ := hw
    simp only [Spec.mapM', Option.bind_eq_bind, Option.bind_eq_some_iff, Option.some.injEq] at hn
    obtain ⟨nf, hnf, nfs', hnfs, rfl⟩ := hn
    simp only [List.length_cons, readItemsWith, List.append_assoc]
    rw [hrt x (List.mem_cons_self) b1 nf _ h1 hnf]
    simp only [bind, Except.bind]
    rw [ih nfs' b2 (fun y hy => hrt y (List.mem_cons_of_mem _ hy)) h2 hnfs]
    simp [pure, Except.pure]

theorem valDictSet_new (acc : List (Val × Val)) (k : String) (x : Val) (h : k ∉ dictKeys acc) :
    valDictSet acc k x = acc ++ [(.str k, x)] := by
  induction acc with
  | nil => rfl
  | cons e rest ih =>
    obtain ⟨ek, ev⟩ := e
    cases ek with
    | str k' =>
      have hne : k' ≠ k := by
        intro heq; apply h; simp [dictKeys, heq]
      have hrest : k ∉ dictKeys rest := by
        intro hm; apply h; simp only [dictKeys, List.filterMap_cons]; exact List.mem_cons_of_mem _ hm
      simp only [valDictSet, beq_iff_eq, hne, ↓reduceIte, List.cons_append, ih hrest]
    | _ =>
      have hrest : k ∉ dictKeys rest := by
        intro hm; apply h; simpa [dictKeys] using hm
      simp only [valDictSet, List.cons_append, ih hrest]

theorem dictKeys_append (a b : List (Val × Val)) : dictKeys (a ++ b) = dictKeys a ++ dictKeys b := by
  simp [dictKeys]

theorem utf8_roundtrip (k : String) (bs rest : Bytes) (hl : (utf8Enc k).length < 2 ^ 63)
    (h : encUtf8 (.str k) = ⟨bs, none⟩) : decUtf8Raw (bs ++ rest) = .ok (k, rest) := by
  simp only [encUtf8] at h
  simp [decUtf8Raw, bytes_roundtrip (utf8Enc k) bs rest hl h, bind, Except.bind, pure, Except.pure,
    utf8Dec_utf8Enc]

/-- map entries: the reader rebuilds the dict in the order written when the keys are distinct -/
theorem entries_roundtrip (w : Val → WR) (rd : Bytes → R (Val × Bytes)) (nm : Val → Option Val)
    (kv nkv : List (Val × Val)) (bs tail : Bytes) (acc : List (Val × Val))
    (hrt : ∀ e ∈ kv, ∀ b nf rest, w e.2 = ⟨b, none⟩ → nm e.2 = some nf → rd (b ++ rest) = .ok (nf, rest))
    (hw : WR.concat (kv.map fun (k, x) => (encUtf8 k).append (w x)) = ⟨bs, none⟩)
    (hn : Spec.normEntriesWith nm kv = some nkv)
    (hstr : ∀ e ∈ kv, ∃ k, e.1 = .str k ∧ (utf8Enc k).length < 2 ^ 63)
    (hnd : (dictKeys kv).Nodup) (hdisj : ∀ k ∈ dictKeys kv, k ∉ dictKeys acc) :
    readEntriesWith rd kv.length (bs ++ tail) acc = .ok (acc ++ nkv, tail) := by
  induction kv generalizing bs nkv acc with
  | nil =>
    simp only [List.map_nil, WR.concat, ok_eq, WR.mk.injEq, and_true] at hw; subst hw
    simp only [Spec.normEntriesWith, Option.some.injEq] at hn; subst hn
    simp [readEntriesWith, pure, Except.pure]
  | cons e rest ih =>
    obtain ⟨kV, x⟩ := e
    obtain ⟨k, hk, hkl⟩ := hstr (kV, x) List.mem_cons_self
    simp only at hk; subst hk
    rw [List.map_cons, concat_cons_ok] at hw
    obtain ⟨b1, b2, h1, h2, rfl⟩ := hw
    simp only at h1
    rw [append_ok_iff] at h1
    obtain ⟨bk, bx, hbk, hbx, rfl⟩ := h1
    simp only [Spec.normEntriesWith, Option.bind_eq_bind, Option.bind_eq_some_iff, Option.some.injEq] at hn
    obtain ⟨nf, hnf, nrest, hnrest, rfl⟩ := hn
    simp only [List.length_cons, readEntriesWith, List.append_assoc]
    rw [utf8_roundtrip k bk _ hkl hbk]
    simp only [bind, Except.bind]
    rw [hrt (.str k, x) List.mem_cons_self bx nf _ hbx hnf]
    simp only
    have hknew : k ∉ dictKeys acc := hdisj k (by simp [dictKeys])
    rw [valDictSet_new acc k nf hknew]
    have hnd' : (dictKeys rest).Nodup ∧ k ∉ dictKeys rest := by
      simp only [dictKeys, List.filterMap_cons] at hnd
      have := List.nodup_cons.mp hnd
      exact ⟨this.2, this.1⟩
    have hdisj' : ∀ k' ∈ dictKeys rest, k' ∉ dictKeys (acc ++ [(Val.str k, nf)]) := by
      intro k' hk' hmem
      rw [dictKeys_append] at hmem
      rcases List.mem_append.mp hmem with hm | hm
      · exact hdisj k' (by simp only [dictKeys, List.filterMap_cons]; exact List.mem_cons_of_mem _ hk') hm
      · simp [dictKeys] at hm
        subst hm
        exact hnd'.2 hk'
    have hrec := ih nrest b2 (acc ++ [(Val.str k, nf)]) (fun e he => hrt e (List.mem_cons_of_mem _ he)) h2 hnrest
        (fun e he => hstr e (List.mem_cons_of_mem _ he)) hnd'.1 hdisj'
    rw [hrec]
    simp

/-- record fields: the reader rebuilds the dict in schema order when the field names are distinct -/
theorem fields_roundtrip (w : Schema → Val → WR) (rd : Schema → Bytes → R (Val × Bytes))
    (nm : Schema → Val → Option Val) (o : WOpts)
    (fs : List Field) (kv nkv : List (Val × Val)) (bs tail : Bytes) (acc : List (Val × Val))
    (hrt : ∀ f ∈ fs, ∀ v b nf rest, w f.type v = ⟨b, none⟩ → nm f.type v = some nf →
        rd f.type (b ++ rest) = .ok (nf, rest))
    (hco : ∀ f ∈ fs, ∀ dv dv' nf, fieldCoerce f.type dv = .ok dv' → nm f.type dv = some nf →
        nm f.type dv' = some nf)
    (hw : writeFieldsWith w o fs kv = ⟨bs, none⟩)
    (hn : Spec.normFieldsWith nm fs kv = some nkv)
    (hnd : (fs.map Field.name).Nodup) (hdisj : ∀ f ∈ fs, f.name ∉ dictKeys acc) :
    readFieldsWith rd fs (bs ++ tail) acc = .ok (acc ++ nkv, tail) := by
  induction fs generalizing bs nkv acc with
  | nil =>
    simp only [writeFieldsWith, ok_eq, WR.mk.injEq, and_true] at hw; subst hw
    simp only [Spec.normFieldsWith, Option.some.injEq] at hn; subst hn
    simp [readFieldsWith, pure, Except.pure]
  | cons f rest ih =>
    simp only [writeFieldsWith] at hw
    split at hw
    · simp at hw
    · split at hw
      · simp at hw
      · rename_i dv' hco'
        rw [append_ok_iff] at hw
        obtain ⟨b1, b2, h1, h2, rfl⟩ := hw
        simp only [Spec.normFieldsWith, Option.bind_eq_bind, Option.bind_eq_some_iff, Option.some.injEq] at hn
        obtain ⟨nf, hnf, nrest, hnrest, rfl⟩ := hn
        have hnf' := hco f List.mem_cons_self _ dv' nf hco' hnf
        simp only [readFieldsWith, List.append_assoc]
        rw [hrt f List.mem_cons_self dv' b1 nf _ h1 hnf']
        simp only [bind, Except.bind]
        have hknew : f.name ∉ dictKeys acc := hdisj f List.mem_cons_self
        rw [valDictSet_new acc f.name nf hknew]
        have hnd' : f.name ∉ rest.map Field.name ∧ (rest.map Field.name).Nodup := by
          rw [List.map_cons] at hnd; exact List.nodup_cons.mp hnd
        have hdisj' : ∀ g ∈ rest, g.name ∉ dictKeys (acc ++ [(Val.str f.name, nf)]) := by
          intro g hg hmem
          rw [dictKeys_append] at hmem
          rcases List.mem_append.mp hmem with hm | hm
          · exact hdisj g (List.mem_cons_of_mem _ hg) hm
          · simp [dictKeys] at hm
            apply hnd'.1
            rw [← hm]
            exact List.mem_map_of_mem hg
        have hrec := ih nrest b2 (acc ++ [(Val.str f.name, nf)])
          (fun g hg => hrt g (List.mem_cons_of_mem _ hg)) (fun g hg => hco g (List.mem_cons_of_mem _ hg))
          h2 hnrest hnd'.2 hdisj'
        rw [hrec]
        simp

theorem encodeLong_zero : encodeLong 0 = ⟨[0], none⟩ := by decide +kernel

theorem decodeLong_zero (rest : Bytes) : decodeLong ((0 : UInt8) :: rest) = .ok (0, rest) := by
  have := encodeNat_ok_decode 0 (by decide) [0] rest encodeLong_zero
  simpa using this

/-- one counted block followed by the terminator, as `write_array` emits it -/
theorem array_blocks (w : Val → WR) (rd : Bytes → R (Val × Bytes)) (nm : Val → Option Val)
    (xs nfs : List Val) (bs rest : Bytes) (hl : xs.length < 2 ^ 63)
    (hrt : ∀ x ∈ xs, ∀ b nf rest, w x = ⟨b, none⟩ → nm x = some nf → rd (b ++ rest) = .ok (nf, rest))
    (hw : (if xs.isEmpty then encodeLong 0
           else ((encodeLong xs.length).append (WR.concat (xs.map w))).append (encodeLong 0)) = ⟨bs, none⟩)
    (hn : Spec.mapM' nm xs = some nfs) :
    (do let (c, r) ← decodeLong (bs ++ rest)
        readBlocksWith rd (r.length + 1) c r) = .ok (nfs, rest) := by
  cases xs with
  | nil =>
    simp only [List.isEmpty_nil, ↓reduceIte, encodeLong_zero, WR.mk.injEq, and_true] at hw; subst hw
    simp only [Spec.mapM', Option.some.injEq] at hn; subst hn
    simp [decodeLong_zero, bind, Except.bind, readBlocksWith, pure, Except.pure]
  | cons x xs' =>
    simp only [List.isEmpty_cons, Bool.false_eq_true, ↓reduceIte] at hw
    rw [append_ok_iff] at hw
    obtain ⟨b12, b3, h12, h3, rfl⟩ := hw
    rw [append_ok_iff] at h12
    obtain ⟨b1, b2, h1, h2, rfl⟩ := h12
    rw [encodeLong_zero] at h3; injection h3 with h3 _; subst h3
    have hdec := encodeNat_ok_decode (x :: xs').length hl b1 (b2 ++ ([0] ++ rest)) h1
    simp only [List.append_assoc, hdec, bind, Except.bind]
    have hne : ((((x :: xs').length : Nat) : Int) == 0) = false := by
      simp only [List.length_cons, beq_eq_false_iff_ne, ne_eq]; omega
    have hitems := items_roundtrip w rd nm (x :: xs') nfs b2 ([0] ++ rest) hrt h2 hn
    simp only [List.length_append, List.length_cons, List.length_nil, readBlocksWith]
    have hlen : b2.length + (0 + 1 + rest.length) = (b2.length + rest.length) + 1 := by omega
    rw [hlen]
    simp only [readBlocksWith, List.length_cons] at hne ⊢
    simp only [hne, Bool.false_eq_true, ↓reduceIte, blockCount, bind, Except.bind]
    have hnn : ¬ (((xs'.length + 1 : Nat) : Int) < 0) := by omega
    simp only [hnn, ↓reduceIte, pure, Except.pure, Int.toNat_natCast]
    simp only [List.length_cons] at hitems
    rw [hitems]
    simp only [List.singleton_append, decodeLong_zero]
    cases hk : b2.length + rest.length with
    | zero => simp [readBlocksWith]
    | succ k => simp [readBlocksWith]

/-- one counted block of key/value pairs followed by the terminator, as `write_map` emits it -/
theorem map_blocks (w : Val → WR) (rd : Bytes → R (Val × Bytes)) (nm : Val → Option Val)
    (kv nkv : List (Val × Val)) (bs rest : Bytes) (hl : kv.length < 2 ^ 63)
    (hrt : ∀ e ∈ kv, ∀ b nf rest, w e.2 = ⟨b, none⟩ → nm e.2 = some nf → rd (b ++ rest) = .ok (nf, rest))
    (hstr : ∀ e ∈ kv, ∃ k, e.1 = .str k ∧ (utf8Enc k).length < 2 ^ 63)
    (hnd : (dictKeys kv).Nodup)
    (hw : (if kv.isEmpty then encodeLong 0
           else ((encodeLong kv.length).append
                  (WR.concat (kv.map fun (k, x) => (encUtf8 k).append (w x)))).append (encodeLong 0)) = ⟨bs, none⟩)
    (hn : Spec.normEntriesWith nm kv = some nkv) :
    (do let (c, r) ← decodeLong (bs ++ rest)
        readMapBlocksWith rd (r.length + 1) c r []) = .ok (nkv, rest) := by
  cases kv with
  | nil =>
    simp only [List.isEmpty_nil, ↓reduceIte, encodeLong_zero, WR.mk.injEq, and_true] at hw; subst hw
    simp only [Spec.normEntriesWith, Option.some.injEq] at hn; subst hn
    simp [decodeLong_zero, bind, Except.bind, readMapBlocksWith, pure, Except.pure]
  | cons e kv' =>
    simp only [List.isEmpty_cons, Bool.false_eq_true, ↓reduceIte] at hw
    rw [append_ok_iff] at hw
    obtain ⟨b12, b3, h12, h3, rfl⟩ := hw
    rw [append_ok_iff] at h12
    obtain ⟨b1, b2, h1, h2, rfl⟩ := h12
    rw [encodeLong_zero] at h3; injection h3 with h3 _; subst h3
    have hdec := encodeNat_ok_decode (e :: kv').length hl b1 (b2 ++ ([0] ++ rest)) h1
    simp only [List.append_assoc, hdec, bind, Except.bind]
    have hne : ((((e :: kv').length : Nat) : Int) == 0) = false := by
      simp only [List.length_cons, beq_eq_false_iff_ne, ne_eq]; omega
    have hitems := entries_roundtrip w rd nm (e :: kv') nkv b2 ([0] ++ rest) [] hrt h2 hn hstr hnd
      (by intro k _; simp [dictKeys])
    simp only [List.length_append, List.length_cons, List.length_nil, readMapBlocksWith]
    have hlen : b2.length + (0 + 1 + rest.length) = (b2.length + rest.length) + 1 := by omega
    rw [hlen]
    simp only [readMapBlocksWith, List.length_cons] at hne ⊢
    simp only [hne, Bool.false_eq_true, ↓reduceIte, blockCount, bind, Except.bind]
    have hnn : ¬ (((kv'.length + 1 : Nat) : Int) < 0) := by omega
    simp only [hnn, ↓reduceIte, pure, Except.pure, Int.toNat_natCast]
    simp only [List.length_cons, List.nil_append] at hitems
    rw [hitems]
    simp only [List.singleton_append, decodeLong_zero]
    cases hk : b2.length + rest.length with
    | zero => simp [readMapBlocksWith]
    | succ k => simp [readMapBlocksWith]

theorem coerce_norm (fuel : Nat) (env : Env) (o : WOpts) (t : Schema) (dv dv' nf : Val)
    (hc : fieldCoerce t dv = .ok dv') (hn : Spec.normalize fuel env o t dv = some nf) :
    Spec.normalize fuel env o t dv' = some nf := by
  unfold fieldCoerce at hc
  split at hc
  · -- bare float
    cases fuel with
    | zero => simp [Spec.normalize] at hn
    | succ fuel =>
      rename_i lt
      cases lt with
      | some l => simp [Spec.normalize] at hn
      | none =>
        simp only [Spec.normalize] at hn ⊢
        cases dv <;> simp only [pyFloat, reduceCtorEq] at hc <;> simp only [Spec.normPrim, reduceCtorEq] at hn
        · rename_i n
          cases ho : Fl.ofInt n with
          | none => simp [ho] at hc
          | some d =>
            simp only [ho, Except.ok.injEq] at hc; subst hc
            simpa [ho, Spec.normPrim] using hn
        · simp only [Except.ok.injEq] at hc; subst hc; simpa [Spec.normPrim] using hn
  · -- bare double
    cases fuel with
    | zero => simp [Spec.normalize] at hn
    | succ fuel =>
      rename_i lt
      cases lt with
      | some l => simp [Spec.normalize] at hn
      | none =>
        simp only [Spec.normalize] at hn ⊢
        cases dv <;> simp only [pyFloat, reduceCtorEq] at hc <;> simp only [Spec.normPrim, reduceCtorEq] at hn
        · rename_i n
          cases ho : Fl.ofInt n with
          | none => simp [ho] at hc
          | some d =>
            simp only [ho, Except.ok.injEq] at hc; subst hc
            simpa [ho, Spec.normPrim] using hn
        · simp only [Except.ok.injEq] at hc; subst hc; simpa [Spec.normPrim] using hn
  · simp only [Except.ok.injEq] at hc; subst hc; exact hn

theorem listIndex_nat {α} (xs : List α) (i : Nat) : indexChecked xs (i : Int) = xs[i]? := by
  unfold indexChecked
  have : ¬ ((i : Int) < 0) := by omega
  simp [this]

/-- **C01, main statement.** Whatever `write_data` emits for a datum whose normal form is defined is
    read back by `read_data` as exactly that normal form, and the reader stops exactly where the
    writer stopped (`rest` is returned untouched). All schemas: primitives, records with defaults,
    enums, fixed, arrays, maps, unions, by-name references including recursive ones. -/
theorem roundtrip (env : Env) (o : WOpts) (fuel : Nat) :
    ∀ (s : Schema) (v nf : Val) (bs rest : Bytes),
      writeData fuel env o s v = ⟨bs, none⟩ → Spec.normalize fuel env o s v = some nf →
      readData fuel env {} s (bs ++ rest) = .ok (nf, rest) := by
  induction fuel with
  | zero => intro s v nf bs rest hw; simp [writeData, WR.fail] at hw
  | succ fuel ih =>
    intro s v nf bs rest hw hn
    cases s with
    | prim p df lt =>
      cases lt with
      | some l => simp [Spec.normalize] at hn
      | none =>
        simp only [Spec.normalize] at hn
        simp only [writeData, Logical.prepare] at hw
        simp only [readData, prim_roundtrip p v nf bs rest hw hn, bind, Except.bind, Logical.readLogical,
          pure, Except.pure]
        cases df <;> rfl
    | fixed name size lt aliases =>
      cases lt with
      | some l => simp [Spec.normalize] at hn
      | none =>
        simp only [Spec.normalize] at hn
        cases v <;> simp only [reduceCtorEq] at hn
        rename_i b
        split at hn
        · rename_i hl
          simp only [Option.some.injEq] at hn; subst hn
          simp only [writeData, Logical.prepare, encFixed, hl, bne_self_eq_false, Bool.false_eq_true,
            ↓reduceIte, ok_eq, WR.mk.injEq, and_true] at hw
          subst hw
          simp [readData, decFixed, takeN_append' size b rest hl, bind, Except.bind, Logical.readLogical,
            pure, Except.pure]
        · simp at hn
    | enum name syms dflt aliases =>
      simp only [Spec.normalize] at hn
      cases v <;> simp only [reduceCtorEq] at hn
      rename_i x
      split at hn
      · rename_i hc
        simp only [Option.some.injEq] at hn; subst hn
        simp only [writeData, encEnum, indexOf?] at hw
        split at hw
        · rename_i i hi
          split at hi
          · rename_i hlt
            simp only [Option.some.injEq] at hi; subst hi
            have hi63 : List.findIdx (fun x_1 => x_1 == x) syms < 2 ^ 63 := by
              have := hc.2; rw [limit_eq] at this; omega
            simp only [readData, encodeNat_ok_decode _ hi63 bs rest hw, bind, Except.bind, listIndex_nat]
            have hget : syms[List.findIdx (fun x_1 => x_1 == x) syms]? = some x := by
              rw [List.getElem?_eq_getElem hlt]
              have := List.findIdx_getElem (p := fun x_1 => x_1 == x) (xs := syms) (w := hlt)
              simp only [beq_iff_eq] at this
              rw [this]
            simp [hget, pure, Except.pure]
          · simp at hi
        · simp at hw
      · simp at hn
    | array items =>
      simp only [Spec.normalize] at hn
      have key : ∀ xs : List Val, iterItems? v = some xs → xs.length < Spec.LIMIT →
          ∀ nfs, Spec.mapM' (Spec.normalize fuel env o items) xs = some nfs → nf = .list nfs →
          readData (fuel + 1) env {} (.array items) (bs ++ rest) = .ok (nf, rest) := by
        intro xs hit hl nfs hnfs hnf
        subst hnf
        simp only [writeData, hit] at hw
        have := array_blocks (writeData fuel env o items) (readData fuel env {} items)
          (Spec.normalize fuel env o items) xs nfs bs rest (by rw [limit_eq] at hl; exact hl)
          (fun x _ b nf' rest' h1 h2 => ih items x nf' b rest' h1 h2) hw hnfs
        simp only [readData]
        cases hd : decodeLong (bs ++ rest) with
        | error e => simp [hd, bind, Except.bind] at this
        | ok cr =>
          obtain ⟨c, r⟩ := cr
          simp only [hd, bind, Except.bind] at this ⊢
          rw [this]
          rfl
      cases v <;> simp only [reduceCtorEq] at hn
      · rename_i xs
        split at hn
        · rename_i hl
          simp only [Option.map_eq_some_iff] at hn
          obtain ⟨nfs, hnfs, rfl⟩ := hn
          exact key xs rfl hl nfs hnfs rfl
        · simp at hn
      · rename_i xs
        split at hn
        · rename_i hl
          simp only [Option.map_eq_some_iff] at hn
          obtain ⟨nfs, hnfs, rfl⟩ := hn
          exact key xs rfl hl nfs hnfs rfl
        · simp at hn
    | map values =>
      simp only [Spec.normalize] at hn
      cases v <;> simp only [reduceCtorEq] at hn
      rename_i kv
      split at hn
      · rename_i hg
        obtain ⟨hkeys, hl, hutf⟩ := hg
        simp only [Option.map_eq_some_iff] at hn
        obtain ⟨nkv, hnkv, rfl⟩ := hn
        simp only [writeData] at hw
        have hstr : ∀ e ∈ kv, ∃ k, e.1 = .str k ∧ (utf8Enc k).length < 2 ^ 63 := by
          intro e he
          have := List.all_eq_true.mp hutf e he
          obtain ⟨k, x⟩ := e
          cases k <;> simp at this
          rename_i k
          exact ⟨k, rfl, by rw [limit_eq] at this; exact this⟩
        have hnd : (dictKeys kv).Nodup := by
          simp only [Spec.keysOk, Bool.and_eq_true, decide_eq_true_eq] at hkeys
          exact hkeys.2
        have := map_blocks (writeData fuel env o values) (readData fuel env {} values)
          (Spec.normalize fuel env o values) kv nkv bs rest (by rw [limit_eq] at hl; exact hl)
          (fun e _ b nf' rest' h1 h2 => ih values e.2 nf' b rest' h1 h2) hstr hnd hw hnkv
        simp only [readData]
        cases hd : decodeLong (bs ++ rest) with
        | error e => simp [hd, bind, Except.bind] at this
        | ok cr =>
          obtain ⟨c, r⟩ := cr
          simp only [hd, bind, Except.bind] at this ⊢
          rw [this]
          rfl
      · simp at hn
    | union branches =>
      simp only [Spec.normalize] at hn
      simp only [writeData] at hw
      cases hc : choose fuel env o branches v with
      | error e => simp [hc] at hn
      | ok iv =>
        obtain ⟨i, v'⟩ := iv
        simp only [hc] at hn hw
        cases hb : branches[i]? with
        | none => simp [hb] at hn
        | some b =>
          simp only [hb] at hn hw
          split at hn
          · rename_i hl
            rw [append_ok_iff] at hw
            obtain ⟨b1, b2, h1, h2, rfl⟩ := hw
            have hi : i < 2 ^ 63 := by
              have := (List.getElem?_eq_some_iff.mp hb).1
              rw [limit_eq] at hl; omega
            simp only [readData, List.append_assoc, encodeNat_ok_decode i hi b1 _ h1, bind, Except.bind,
              listIndex_nat, hb, ih b v' nf b2 rest h2 hn]
            simp [wrapUnionResult, pure, Except.pure]
          · simp at hn
    | record name fields aliases =>
      simp only [Spec.normalize] at hn
      cases v <;> simp only [reduceCtorEq] at hn
      rename_i kv
      split at hn
      · rename_i hnd
        simp only [Option.map_eq_some_iff] at hn
        obtain ⟨nkv, hnkv, rfl⟩ := hn
        simp only [writeData] at hw
        split at hw
        · simp at hw
        · have := fields_roundtrip (writeData fuel env o) (readData fuel env {}) (Spec.normalize fuel env o) o
            fields kv nkv bs rest []
            (fun f _ v b nf' rest' h1 h2 => ih f.type v nf' b rest' h1 h2)
            (fun f _ dv dv' nf' hc hn' => coerce_norm fuel env o f.type dv dv' nf' hc hn')
            hw hnkv hnd (by intro f _; simp [dictKeys])
          simp only [readData, this, bind, Except.bind, List.nil_append, pure, Except.pure]
      · simp at hn
    | ref n =>
      simp only [Spec.normalize] at hn
      simp only [writeData] at hw
      cases hg : env.get? n with
      | none => simp [hg] at hn
      | some s' =>
        simp only [hg] at hn hw
        simp only [readData, hg]
        exact ih s' v nf bs rest hw hn

end RoundtripProofs
