/-
  Proofs/Effects.lean — C17: under the footprint condition `Safe` the result of a call does not
  depend on the history of earlier calls.  C18: threads that only read shared objects produce, under
  every interleaving, the results they produce alone.
-/
import Model.Effects

namespace Effects

/-- objects no call writes keep their initial value along every history -/
theorem exec_frame {A V Res} (calls : List (Call A V Res)) (g : Obj) (hg : ∀ c ∈ calls, g ∉ c.writes)
    (h : List (Call A V Res × A)) (hh : ∀ ca ∈ h, ca.1 ∈ calls) (σ : Obj → V) : exec σ h g = σ g := by
  induction h generalizing σ with
  | nil => rfl
  | cons ca rest ih =>
    obtain ⟨c, a⟩ := ca
    simp only [exec]
    rw [ih (fun x hx => hh x (by simp [hx]))]
    exact c.frame a σ g (hg c (hh (c, a) (by simp)))

/-- **history independence** -/
theorem history_independent {A V Res} (calls : List (Call A V Res)) (hs : Safe calls)
    (h : List (Call A V Res × A)) (hh : ∀ ca ∈ h, ca.1 ∈ calls) (σ₀ : Obj → V)
    (c : Call A V Res) (hc : c ∈ calls) (a : A) :
    (c.run a (exec σ₀ h)).1 = (c.run a σ₀).1 := by
  apply c.dep
  intro g hg
  exact exec_frame calls g (fun c' hc' => hs c hc g hg c' hc') h hh σ₀

/-- and the result is the same from any two stores that agree on the never-written objects
    (a fresh interpreter versus a used one) -/
theorem store_independent {A V Res} (calls : List (Call A V Res)) (hs : Safe calls)
    (h h' : List (Call A V Res × A)) (hh : ∀ ca ∈ h, ca.1 ∈ calls) (hh' : ∀ ca ∈ h', ca.1 ∈ calls) (σ₀ : Obj → V)
    (c : Call A V Res) (hc : c ∈ calls) (a : A) :
    (c.run a (exec σ₀ h)).1 = (c.run a (exec σ₀ h')).1 := by
  rw [history_independent calls hs h hh σ₀ c hc a, history_independent calls hs h' hh' σ₀ c hc a]

/-! ### threads -/

namespace Prog

theorem step_readOnly {V Res} (σ : Obj → V) (p : Prog V Res) (h : p.readOnly) :
    (step σ p).2 = σ ∧ (step σ p).1.readOnly := by
  cases p with
  | done r => exact ⟨rfl, h⟩
  | read g k => exact ⟨rfl, h (σ g)⟩
  | write g v k => exact absurd h (by simp [readOnly])

theorem runAlone_succ {V Res} (σ : Obj → V) (n : Nat) (p : Prog V Res) (h : p.readOnly) :
    (runAlone σ (n+1) p).1 = (step σ (runAlone σ n p).1).1 ∧ (runAlone σ n p).2 = σ ∧ (runAlone σ n p).1.readOnly := by
  induction n generalizing p with
  | zero => exact ⟨rfl, rfl, h⟩
  | succ n ih =>
    obtain ⟨h1, h2⟩ := step_readOnly σ p h
    have := ih (step σ p).1 h2
    simp only [runAlone, h1] at this ⊢
    exact this

end Prog

/-- how often thread `i` is scheduled -/
def count (i : Nat) (sched : List Nat) : Nat := (sched.filter (· == i)).length

/-- **C18 (abstract machine).** If every thread only reads the shared objects, then after *any*
    schedule the store is unchanged and thread `i` is exactly where it would be after running alone
    for as many steps as it was scheduled — so its result is the one it produces alone. -/
theorem interleaving_serializable {V Res} (threads : List (Prog V Res)) (σ : Obj → V)
    (hro : ∀ p ∈ threads, p.readOnly) (sched : List Nat) :
    let s := (Sys.mk threads σ).runSched sched
    s.store = σ ∧ s.threads.length = threads.length ∧
    ∀ i p, threads[i]? = some p → s.threads[i]? = some (Prog.runAlone σ (count i sched) p).1 := by
  induction sched generalizing threads with
  | nil =>
    refine ⟨rfl, rfl, ?_⟩
    intro i p hp
    simpa [Sys.runSched, count, Prog.runAlone] using hp
  | cons j rest ih =>
    simp only [Sys.runSched]
    cases hj : threads[j]? with
    | none =>
      have : (Sys.mk threads σ).stepAt j = Sys.mk threads σ := by simp [Sys.stepAt, hj]
      rw [this]
      obtain ⟨h1, h2, h3⟩ := ih threads hro
      refine ⟨h1, h2, ?_⟩
      intro i p hp
      have hij : (j == i) = false := by
        cases hb : (j == i) with
        | false => rfl
        | true => simp only [beq_iff_eq] at hb; subst hb; simp [hj] at hp
      simp only [count, List.filter_cons, hij, Bool.false_eq_true, if_false]
      exact h3 i p hp
    | some q =>
      have hq : q.readOnly := hro q (List.mem_of_getElem? hj)
      obtain ⟨hs1, hs2⟩ := Prog.step_readOnly σ q hq
      have hstep : (Sys.mk threads σ).stepAt j = Sys.mk (threads.set j (Prog.step σ q).1) σ := by
        simp [Sys.stepAt, hj, hs1]
      rw [hstep]
      have hro' : ∀ p ∈ threads.set j (Prog.step σ q).1, p.readOnly := by
        intro p hp
        rcases List.mem_or_eq_of_mem_set hp with hp | rfl
        · exact hro p hp
        · exact hs2
      obtain ⟨h1, h2, h3⟩ := ih (threads.set j (Prog.step σ q).1) hro'
      refine ⟨h1, by simpa using h2, ?_⟩
      intro i p hp
      by_cases hij : j = i
      · subst hij
        have hpq : p = q := by rw [hj] at hp; exact (Option.some.inj hp).symm
        subst hpq
        have hlt : j < threads.length := by
          rcases List.getElem?_eq_some_iff.mp hj with ⟨hl, _⟩; exact hl
        have hget : (threads.set j (Prog.step σ p).1)[j]? = some (Prog.step σ p).1 := by
          simp [List.getElem?_set, hlt]
        rw [h3 j _ hget]
        simp only [count, List.filter_cons, beq_self_eq_true, if_true, List.length_cons]
        -- running alone: one step first, then the rest
        simp only [Prog.runAlone, hs1]
      · have hne : (j == i) = false := by simpa using hij
        have hget : (threads.set j (Prog.step σ q).1)[i]? = some p := by
          rw [List.getElem?_set_ne hij]; exact hp
        rw [h3 i p hget]
        simp only [count, List.filter_cons, hne, Bool.false_eq_true, if_false]

end Effects
