/-
  Proofs/Container.lean — the block area of a container file: reading a well-formed sequence of
  blocks returns the records of the blocks in order whatever the grouping (C04/C05), cutting it
  anywhere yields whole blocks' worth of records and ends normally only on a boundary (C06), an altered
  sync marker is an error when its block is reached (C06), block infos tile the area (C05).
  Generic in the record decoder `dec` and the codec.
-/
import Model.Container
import Proofs.Basic
import Proofs.Extend

namespace ContainerProofs
open Binary Container BasicProofs MonoProofs

/-- a block as an independent writer or fastavro's `dump` lays it out -/
structure Blk where
  count : Nat
  payload : Bytes
  recs : List Val

def Blk.bytes (c : Codec) (sync : Bytes) (b : Blk) : Bytes := blockBytes c sync b.count b.payload

/-- the block's payload decodes to its `count` records (bytes after them inside the payload are ignored) -/
def Blk.Ok (dec : Bytes → R (Val × Bytes)) (c : Codec) (b : Blk) : Prop :=
  readRecords dec b.count b.payload = (b.recs, none) ∧ b.count < 2 ^ 63 ∧ (c.compress b.payload).length < 2 ^ 63

def flat (c : Codec) (sync : Bytes) (bs : List Blk) : Bytes := bs.flatMap (Blk.bytes c sync)

theorem lenBytes_decode (n : Nat) (h : n < 2 ^ 63) (rest : Bytes) :
    decodeLong (lenBytes (n : Int) ++ rest) = .ok ((n : Int), rest) := by
  obtain ⟨bs, h1, h2⟩ := decodeLong_encodeNat n h rest
  unfold lenBytes; rw [h1]; exact h2

theorem lenBytes_ne_nil (n : Nat) (h : n < 2 ^ 63) : lenBytes (n : Int) ≠ [] := by
  intro he
  have := lenBytes_decode n h []
  rw [he] at this
  simp [decodeLong] at this

theorem payload_decode (c : Codec) (hs : c.Sound) (p : Bytes) (hl : (c.compress p).length < 2 ^ 63) (rest : Bytes) :
    readPayload c (lenBytes ((c.compress p).length : Int) ++ (c.compress p ++ rest)) = .ok (p, rest) := by
  unfold readPayload decBytesRaw
  rw [lenBytes_decode _ hl]
  simp only [bind, Except.bind]
  have : ¬ (((c.compress p).length : Int) < 0) := by omega
  simp only [this, ↓reduceIte, Int.toNat_natCast, takeN_append, pure, Except.pure, hs p]

theorem take_sync (sync rest : Bytes) (h : sync.length = 16) :
    (sync ++ rest).take SYNC_SIZE = sync ∧ (sync ++ rest).drop SYNC_SIZE = rest := by
  unfold SYNC_SIZE; rw [← h]; simp

/-- **any grouping reads back**: the records of a well-formed block sequence are the concatenation of
    the blocks' records, and the reader ends normally -/
theorem read_flat (dec : Bytes → R (Val × Bytes)) (c : Codec) (hs : c.Sound) (sync : Bytes) (hsync : sync.length = 16)
    (bs : List Blk) (hok : ∀ b ∈ bs, b.Ok dec c) (k : Nat) (hk : bs.length < k) :
    readBlocks dec c sync k (flat c sync bs) = (bs.flatMap (·.recs), .eof) := by
  induction bs generalizing k with
  | nil =>
    cases k with
    | zero => omega
    | succ k => simp [flat, readBlocks, decodeLong]
  | cons b bs ih =>
    cases k with
    | zero => omega
    | succ k =>
      obtain ⟨hrec, hc, hl⟩ := hok b (by simp)
      simp only [flat, List.flatMap_cons, List.append_assoc, readBlocks]
      have hb : Blk.bytes c sync b = lenBytes ↑b.count ++ (lenBytes ↑(c.compress b.payload).length ++ (c.compress b.payload ++ sync)) := rfl
      rw [hb]; simp only [List.append_assoc]
      rw [lenBytes_decode _ hc]
      simp only []
      rw [payload_decode c hs b.payload hl]
      simp only [Int.toNat_natCast, hrec]
      obtain ⟨t1, t2⟩ := take_sync sync (List.flatMap (Blk.bytes c sync) bs) hsync
      simp only [t1, t2, bne_self_eq_false, Bool.false_eq_true, ↓reduceIte]
      have := ih (fun b' hb' => hok b' (by simp [hb'])) k (by simp at hk; omega)
      simp only [flat] at this
      rw [this]

/-! ### truncation -/

theorem loop_err (p : Bytes) (acc sh : Nat) (e : Err) (h : decodeVarintLoop acc sh p = .error e) : e = .type := by
  induction p generalizing acc sh with
  | nil => simp [decodeVarintLoop] at h; exact h.symm
  | cons b p ih =>
    simp only [decodeVarintLoop] at h
    split at h
    · exact ih _ _ h
    · simp at h

theorem decodeLong_err_nonempty (p : Bytes) (hp : p ≠ []) (e : Err) (h : decodeLong p = .error e) : e ≠ .eof := by
  cases p with
  | nil => exact absurd rfl hp
  | cons b p =>
    simp only [decodeLong] at h
    split at h
    · cases hl : decodeVarintLoop (b.toNat &&& 0x7F) 7 p with
      | error e' =>
        simp only [hl, bind, Except.bind] at h
        injection h with h; subst h
        rw [loop_err _ _ _ _ hl]; decide
      | ok x => simp [hl, bind, Except.bind, pure, Except.pure] at h
    · simp at h

/-- a proper prefix of a count / length varint is not decodable -/
theorem decodeLong_prefix (n : Nat) (hn : n < 2 ^ 63) (p t : Bytes) (hpt : p ++ t = lenBytes (n : Int)) (ht : t ≠ []) :
    ∃ e, decodeLong p = .error e ∧ (p ≠ [] → e ≠ .eof) := by
  cases hd : decodeLong p with
  | error e => exact ⟨e, rfl, fun hp => decodeLong_err_nonempty p hp e hd⟩
  | ok x =>
    obtain ⟨m, r⟩ := x
    have h1 := ExtendProofs.decodeLong_ext p m r t hd
    rw [hpt] at h1
    have h2 := lenBytes_decode n hn []
    rw [List.append_nil] at h2
    rw [h2] at h1
    simp only [Except.ok.injEq, Prod.mk.injEq] at h1
    have : t = [] := by
      have := congrArg List.length h1.2
      simp only [List.length_nil, List.length_append] at this
      exact List.eq_nil_of_length_eq_zero (by omega)
    exact absurd this ht

/-- a proper prefix of `length ++ compressed payload` is rejected by the length check of `read_bytes`
    before any decompression -/
theorem readPayload_prefix (c : Codec) (hs : c.Sound) (pl : Bytes) (hl : (c.compress pl).length < 2 ^ 63)
    (p t : Bytes) (hpt : p ++ t = lenBytes ((c.compress pl).length : Int) ++ c.compress pl) (ht : t ≠ []) :
    ∃ e, readPayload c p = .error e := by
  cases hd : decBytesRaw p with
  | error e => exact ⟨e, by simp [readPayload, hd, bind, Except.bind]⟩
  | ok x =>
    obtain ⟨b, r⟩ := x
    have h1 := ExtendProofs.decBytesRaw_ext p b r t hd
    rw [hpt] at h1
    have h2 : decBytesRaw (lenBytes ((c.compress pl).length : Int) ++ c.compress pl) = .ok (c.compress pl, []) := by
      have := lenBytes_decode _ hl (c.compress pl)
      unfold decBytesRaw
      rw [this]
      simp only [bind, Except.bind]
      have hneg : ¬ (((c.compress pl).length : Int) < 0) := by omega
      have ht := takeN_append (c.compress pl) []
      rw [List.append_nil] at ht
      simp only [hneg, ↓reduceIte, Int.toNat_natCast, ht, pure, Except.pure]
    rw [h2] at h1
    simp only [Except.ok.injEq, Prod.mk.injEq] at h1
    have : t = [] := by
      have := congrArg List.length h1.2
      simp only [List.length_nil, List.length_append] at this
      exact List.eq_nil_of_length_eq_zero (by omega)
    exact absurd this ht

theorem split_cases (p q a b : Bytes) (h : p ++ q = a ++ b) :
    (∃ t, p = a ++ t ∧ b = t ++ q) ∨ (∃ t, t ≠ [] ∧ a = p ++ t ∧ q = t ++ b) := by
  rcases List.append_eq_append_iff.mp h with ⟨a', h1, h2⟩ | ⟨c', h1, h2⟩
  · by_cases ha : a' = []
    · subst ha
      left; exact ⟨[], by simpa using h1.symm, by simpa using h2.symm⟩
    · right; exact ⟨a', ha, h1, h2⟩
  · left; exact ⟨c', h1, h2⟩

/-- reading one whole block `b` followed by `rest` -/
theorem read_one (dec : Bytes → R (Val × Bytes)) (c : Codec) (hs : c.Sound) (sync : Bytes) (hsync : sync.length = 16)
    (b : Blk) (hb : b.Ok dec c) (k : Nat) (rest : Bytes) :
    readBlocks dec c sync (k + 1) (lenBytes ↑b.count ++ (lenBytes ↑(c.compress b.payload).length ++
        (c.compress b.payload ++ (sync ++ rest)))) =
      (b.recs ++ (readBlocks dec c sync k rest).1, (readBlocks dec c sync k rest).2) := by
  obtain ⟨hrec, hc, hl⟩ := hb
  simp only [readBlocks]
  rw [lenBytes_decode _ hc]
  simp only []
  rw [payload_decode c hs b.payload hl]
  simp only [Int.toNat_natCast, hrec]
  obtain ⟨t1, t2⟩ := take_sync sync rest hsync
  simp only [t1, t2, bne_self_eq_false, Bool.false_eq_true, ↓reduceIte]

/-- reading a block whose trailing marker is cut short or altered: its records, then ValueError -/
theorem read_bad_sync (dec : Bytes → R (Val × Bytes)) (c : Codec) (hs : c.Sound) (sync : Bytes)
    (b : Blk) (hb : b.Ok dec c) (k : Nat) (tail : Bytes) (hbad : tail.take SYNC_SIZE ≠ sync) :
    readBlocks dec c sync (k + 1) (lenBytes ↑b.count ++ (lenBytes ↑(c.compress b.payload).length ++
        (c.compress b.payload ++ tail))) = (b.recs, .error .value) := by
  obtain ⟨hrec, hc, hl⟩ := hb
  simp only [readBlocks]
  rw [lenBytes_decode _ hc]
  simp only []
  rw [payload_decode c hs b.payload hl]
  simp only [Int.toNat_natCast, hrec]
  have : (List.take SYNC_SIZE tail != sync) = true := by simpa using hbad
  simp only [this, ↓reduceIte]

/-- **truncation**: whatever prefix `p` of a well-formed block area is read, the records yielded are
    exactly those of the first `j` blocks, in order, for some `j`; and the reader ends normally only
    when `p` is exactly those `j` blocks (the cut falls on a block boundary) -/
theorem read_prefix (dec : Bytes → R (Val × Bytes)) (c : Codec) (hs : c.Sound) (sync : Bytes) (hsync : sync.length = 16)
    (bs : List Blk) (hok : ∀ b ∈ bs, b.Ok dec c) :
    ∀ (k : Nat) (p q : Bytes), bs.length < k → p ++ q = flat c sync bs →
      ∃ j, j ≤ bs.length ∧ (readBlocks dec c sync k p).1 = (bs.take j).flatMap (·.recs) ∧
        ((readBlocks dec c sync k p).2 = .eof → p = flat c sync (bs.take j)) := by
  induction bs with
  | nil =>
    intro k p q hk hpq
    simp only [flat, List.flatMap_nil, List.append_eq_nil_iff] at hpq
    obtain ⟨rfl, rfl⟩ := hpq
    cases k with
    | zero => omega
    | succ k => exact ⟨0, by simp, by simp [readBlocks, decodeLong], fun _ => by simp [flat]⟩
  | cons b bs ih =>
    intro k p q hk hpq
    cases k with
    | zero => omega
    | succ k =>
    have hbok := hok b (by simp)
    obtain ⟨hrec, hc, hl⟩ := hbok
    have hk' : bs.length < k := by simp at hk; omega
    have hB : Blk.bytes c sync b = lenBytes ↑b.count ++ (lenBytes ↑(c.compress b.payload).length ++
        (c.compress b.payload ++ sync)) := rfl
    simp only [flat, List.flatMap_cons] at hpq
    rw [hB, List.append_assoc] at hpq
    rcases split_cases _ _ _ _ hpq with ⟨a1, hp1, hq1⟩ | ⟨c1, hc1, hv1, hq1⟩
    · -- p = count ++ a1
      subst hp1
      have hq1' : a1 ++ q = (lenBytes ↑(c.compress b.payload).length ++ c.compress b.payload) ++
          (sync ++ List.flatMap (Blk.bytes c sync) bs) := by
        rw [← hq1]; simp only [List.append_assoc]
      rcases split_cases _ _ _ _ hq1' with ⟨a2, hp2, hq2⟩ | ⟨c2, hc2, hv2, hq2⟩
      · -- a1 = (length ++ payload) ++ a2
        subst hp2
        rcases split_cases _ _ _ _ hq2.symm with ⟨a3, hp3, hq3⟩ | ⟨c3, hc3, hv3, hq3⟩
        · -- the whole block lies inside p: recurse
          subst hp3
          obtain ⟨j, hj, hr, he⟩ := ih (fun b' hb' => hok b' (by simp [hb'])) k a3 q hk' hq3.symm
          have h1 := read_one dec c hs sync hsync b (hok b (by simp)) k a3
          simp only [List.append_assoc]
          rw [h1]
          refine ⟨j + 1, by simp; omega, ?_, ?_⟩
          · simp only [List.take_succ_cons, List.flatMap_cons, hr]
          · intro hend
            have := he hend
            simp only [flat, List.take_succ_cons, List.flatMap_cons, hB, List.append_assoc]
            rw [this]; simp [flat]
        · -- the cut is inside the sync marker: the block's records are yielded, then ValueError
          have hlen : a2.length < 16 := by
            have := congrArg List.length hv3
            simp only [List.length_append] at this
            have : 0 < c3.length := List.length_pos_iff.mpr hc3
            omega
          have hbad : a2.take SYNC_SIZE ≠ sync := by
            intro heq
            have := congrArg List.length heq
            simp only [List.length_take, SYNC_SIZE] at this
            omega
          have h1 := read_bad_sync dec c hs sync b (hok b (by simp)) k a2 hbad
          simp only [List.append_assoc]
          rw [h1]
          exact ⟨1, by simp, by simp, by simp⟩
      · -- the cut is inside `length ++ payload`: rejected by the length check, nothing yielded
        obtain ⟨e, he⟩ := readPayload_prefix c hs b.payload hl a1 c2 hv2.symm hc2
        refine ⟨0, by simp, ?_, ?_⟩
        · simp only [readBlocks]
          rw [lenBytes_decode _ hc]
          simp [he]
        · simp only [readBlocks]
          rw [lenBytes_decode _ hc]
          simp [he]
    · -- the cut is inside (or just before) the count varint
      obtain ⟨e, he, hne⟩ := decodeLong_prefix b.count hc p c1 hv1.symm hc1
      by_cases hp : p = []
      · subst hp
        exact ⟨0, by simp, by simp [readBlocks, decodeLong], fun _ => by simp [flat]⟩
      · have hne' := hne hp
        refine ⟨0, by simp, ?_, ?_⟩
        · simp only [readBlocks, he]
          cases e <;> simp at hne' ⊢
        · simp only [readBlocks, he]
          cases e <;> simp at hne' ⊢

/-- **altered sync marker**: if the marker after block `b` is anything else than the file's marker,
    the records of the blocks up to and including `b` are yielded and then a ValueError is raised -/
theorem read_altered_sync (dec : Bytes → R (Val × Bytes)) (c : Codec) (hs : c.Sound) (sync : Bytes) (hsync : sync.length = 16)
    (pre : List Blk) (b : Blk) (hpre : ∀ x ∈ pre, x.Ok dec c) (hb : b.Ok dec c)
    (s' rest : Bytes) (hlen : s'.length = 16) (hne : s' ≠ sync) (k : Nat) (hk : pre.length < k) :
    readBlocks dec c sync k (flat c sync pre ++ (lenBytes ↑b.count ++ (lenBytes ↑(c.compress b.payload).length ++
        (c.compress b.payload ++ (s' ++ rest))))) = (pre.flatMap (·.recs) ++ b.recs, .error .value) := by
  induction pre generalizing k with
  | nil =>
    cases k with
    | zero => omega
    | succ k =>
      simp only [flat, List.flatMap_nil, List.nil_append]
      apply read_bad_sync dec c hs sync b hb k
      have : (s' ++ rest).take SYNC_SIZE = s' := by unfold SYNC_SIZE; rw [← hlen]; simp
      rw [this]; exact hne
  | cons x pre ih =>
    cases k with
    | zero => omega
    | succ k =>
      have hB : Blk.bytes c sync x = lenBytes ↑x.count ++ (lenBytes ↑(c.compress x.payload).length ++
          (c.compress x.payload ++ sync)) := rfl
      simp only [flat, List.flatMap_cons, hB, List.append_assoc]
      rw [read_one dec c hs sync hsync x (hpre x (by simp)) k]
      have := ih (fun y hy => hpre y (by simp [hy])) k (by simp at hk; omega)
      simp only [flat] at this
      rw [this]

/-! ### block infos tile the block area (`_iter_avro_blocks`) -/

theorem infos_flat (c : Codec) (hs : c.Sound) (sync : Bytes) (hsync : sync.length = 16)
    (dec : Bytes → R (Val × Bytes)) (bs : List Blk) (hok : ∀ b ∈ bs, b.Ok dec c) (k off : Nat) (hk : bs.length < k) :
    ∃ infos, readBlockInfos c sync k off (flat c sync bs) = (infos, .eof) ∧
      infos.map (·.numRecords) = bs.map (fun b => (b.count : Int)) ∧
      infos.map (·.payload) = bs.map (·.payload) ∧
      -- contiguous: each block starts where the previous one ended, the last one ends at the end
      (infos.foldl (fun (acc : Option Nat) i => acc.bind fun o => if i.offset = o then some (o + i.size) else none)
        (some off)) = some (off + (flat c sync bs).length) := by
  induction bs generalizing k off with
  | nil =>
    cases k with
    | zero => omega
    | succ k => exact ⟨[], by simp [flat, readBlockInfos, decodeLong], rfl, rfl, by simp [flat]⟩
  | cons b bs ih =>
    cases k with
    | zero => omega
    | succ k =>
      obtain ⟨hrec, hc, hl⟩ := hok b (by simp)
      have hB : Blk.bytes c sync b = lenBytes ↑b.count ++ (lenBytes ↑(c.compress b.payload).length ++
          (c.compress b.payload ++ sync)) := rfl
      obtain ⟨infos, h1, h2, h3, h4⟩ := ih (fun y hy => hok y (by simp [hy])) k
        (off + (Blk.bytes c sync b).length) (by simp at hk; omega)
      refine ⟨{ offset := off, size := (Blk.bytes c sync b).length, numRecords := b.count, payload := b.payload } :: infos,
        ?_, ?_, ?_, ?_⟩
      · simp only [flat, List.flatMap_cons, hB, List.append_assoc, readBlockInfos]
        rw [lenBytes_decode _ hc]
        simp only []
        rw [payload_decode c hs b.payload hl]
        obtain ⟨t1, t2⟩ := take_sync sync (List.flatMap (Blk.bytes c sync) bs) hsync
        simp only [t1, t2, bne_self_eq_false, Bool.false_eq_true, ↓reduceIte]
        have hsz : (lenBytes ↑b.count ++ (lenBytes ↑(c.compress b.payload).length ++ (c.compress b.payload ++
            (sync ++ List.flatMap (Blk.bytes c sync) bs)))).length - (List.flatMap (Blk.bytes c sync) bs).length =
            (Blk.bytes c sync b).length := by
          rw [hB]; simp only [List.length_append]; omega
        rw [hsz]
        simp only [flat] at h1
        rw [hB] at h1 ⊢
        rw [h1]
      · simp [h2]
      · simp [h3]
      · simp only [List.foldl_cons, Option.bind_some, ↓reduceIte]
        rw [h4]
        simp only [flat, List.flatMap_cons, List.length_append]
        congr 1; omega

end ContainerProofs
