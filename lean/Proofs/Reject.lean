/-
  Proofs/Reject.lean — C11: the rejection rules of `_parse_schema`, each at one level, and the
  propagation of an error from any position of a schema tree to the top (so that every rule fires at
  every depth).
-/
import Model.Parse
import Spec.Pcf
import Proofs.Mono

namespace RejectProofs
open Parse MonoProofs

theorem ok_bind {α β} (a : α) (f : α → R β) : ((Except.ok a : R α) >>= f) = f a := rfl
theorem error_bind {α β} (e : Err) (f : α → R β) : ((Except.error e : R α) >>= f) = .error e := rfl

/-! ## propagation through lists -/

theorem list_error (p : Val → St → R (Schema × St)) (x : Val) (post : List Val) (e : Err) (pre : List Val) :
    ∀ st bs st1, parseListWith p pre st = .ok (bs, st1) → p x st1 = .error e →
      parseListWith p (pre ++ x :: post) st = .error e := by
  induction pre with
  | nil =>
    intro st bs st1 h1 h2
    simp only [parseListWith, Except.ok.injEq, Prod.mk.injEq] at h1
    obtain ⟨_, rfl⟩ := h1
    simp only [List.nil_append, parseListWith, h2, error_bind]
  | cons y ys ih =>
    intro st bs st1 h1 h2
    simp only [parseListWith, bind_ok_iff, pure_ok_iff, Prod.mk.injEq] at h1
    obtain ⟨⟨s, st2⟩, hy, ⟨ss, st3⟩, hys, _, rfl⟩ := h1
    simp only [List.cons_append, parseListWith, hy, ok_bind, ih st2 ss st3 hys h2, error_bind]

theorem fields_error (p : Val → St → Option Val → R (Schema × St)) (kv : List (Val × Val)) (post : List Val) (e : Err)
    (al : List String) (d : Option Val) (name : String) (ty : Val) (hh : fieldHeader kv = .ok (al, d, name, ty)) (pre : List Val) :
    ∀ st fs st1, parseFieldsWith p pre st = .ok (fs, st1) → p ty st1 d = .error e →
      parseFieldsWith p (pre ++ .dict kv :: post) st = .error e := by
  induction pre with
  | nil =>
    intro st fs st1 h1 h2
    simp only [parseFieldsWith, Except.ok.injEq, Prod.mk.injEq] at h1
    obtain ⟨_, rfl⟩ := h1
    simp only [List.nil_append, parseFieldsWith, hh, ok_bind, h2, error_bind]
  | cons y ys ih =>
    intro st fs st1 h1 h2
    cases y <;> simp only [parseFieldsWith, reduceCtorEq] at h1
    rename_i ykv
    simp only [bind_ok_iff, pure_ok_iff, Prod.mk.injEq] at h1
    obtain ⟨⟨al', d', n', ty'⟩, hyh, ⟨s, st2⟩, hy, ⟨ss, st3⟩, hys, _, rfl⟩ := h1
    simp only [List.cons_append, parseFieldsWith, hyh, hy, ok_bind, ih st2 ss st3 hys h2, error_bind]

/-! ## one-level rejection rules -/

/-- a name that is neither a primitive nor defined (under the enclosing namespace) is rejected -/
theorem undefined_ref (name ns : String) (st : St) (dflt : Option Val) (ign : Bool)
    (hp : Prim.ofName? name = none) (hu : st.env.get? (Spec.refName name ns) = none) :
    parseName name ns st dflt ign = .error .unknownType := by
  unfold parseName
  generalize hq : Prim.ofName? name = o
  rw [hp] at hq; subst hq
  unfold Spec.refName at hu
  simp only [hu, Option.isNone_none, if_true]

/-- a by-name reference that is accepted denotes an entry of the named-schema table under the full
    name the specification gives it -/
theorem ref_defined (name ns : String) (st st' : St) (dflt : Option Val) (ign : Bool) (s : Schema)
    (hp : Prim.ofName? name = none) (h : parseName name ns st dflt ign = .ok (s, st')) :
    s = .ref (Spec.refName name ns) ∧ (st.env.get? (Spec.refName name ns)).isSome = true := by
  unfold parseName at h
  generalize hq : Prim.ofName? name = o at h
  rw [hp] at hq; subst hq
  unfold Spec.refName
  simp only at h
  generalize (if (!name.contains '.' && ns != "") = true then ns ++ "." ++ name else name) = full at h ⊢
  split at h
  · simp at h
  · rename_i hn
    simp only [Except.ok.injEq, Prod.mk.injEq] at h
    refine ⟨h.1.symm, ?_⟩
    cases hg : st.env.get? full with
    | none => simp [hg] at hn
    | some _ => rfl

theorem redefined_enum (kv : List (Val × Val)) (ns ns' full : String) (st : St) (dflt : Option Val) (ign : Bool)
    (hn : schemaName kv ns = .ok (ns', full)) (hd : st.names.contains full = true) :
    parseEnum kv ns st dflt ign = .error .parse := by
  simp only [parseEnum, hn, ok_bind, hd, if_true]

theorem redefined_fixed (kv : List (Val × Val)) (ns ns' full : String) (st : St) (dflt : Option Val) (ign : Bool) (lt : Option LogT)
    (hn : schemaName kv ns = .ok (ns', full)) (hd : st.names.contains full = true) :
    parseFixed kv ns st dflt ign lt = .error .parse := by
  simp only [parseFixed, hn, ok_bind, hd, if_true]

theorem redefined_record (pf) (kv : List (Val × Val)) (ns ns' full : String) (st : St) (dflt : Option Val) (ign : Bool)
    (hn : schemaName kv ns = .ok (ns', full)) (hd : st.names.contains full = true) :
    parseRecord pf kv ns st dflt ign = .error .parse := by
  simp only [parseRecord, hn, ok_bind, hd, if_true]

/-- a named type without a `name` attribute -/
theorem unnamed (kv : List (Val × Val)) (ns : String) (h : dictGetV kv "name" = none) :
    schemaName kv ns = .error .parse := by
  simp only [schemaName, h]

theorem unnamed_enum (kv ns st dflt ign) (h : dictGetV kv "name" = none) : parseEnum kv ns st dflt ign = .error .parse := by
  simp only [parseEnum, unnamed kv ns h, error_bind]
theorem unnamed_fixed (kv ns st dflt ign lt) (h : dictGetV kv "name" = none) : parseFixed kv ns st dflt ign lt = .error .parse := by
  simp only [parseFixed, unnamed kv ns h, error_bind]
theorem unnamed_record (pf kv ns st dflt ign) (h : dictGetV kv "name" = none) : parseRecord pf kv ns st dflt ign = .error .parse := by
  simp only [parseRecord, unnamed kv ns h, error_bind]

theorem bad_symbol (kv : List (Val × Val)) (symsL : List Val) (hs : dictGetV kv "symbols" = some (.list symsL))
    (x : Val) (hx : x ∈ symsL) (hbad : symValOk x = false) :
    enumSymbols kv = .error .parse := by
  have hall : symsL.all symValOk = false := by
    rw [List.all_eq_false]
    exact ⟨x, hx, by simp only [hbad, Bool.false_eq_true, not_false_eq_true]⟩
  simp only [enumSymbols, getKey, hs, ok_bind, hall, Bool.not_false, if_true]

theorem duplicate_symbol (kv : List (Val × Val)) (symsL : List Val) (hs : dictGetV kv "symbols" = some (.list symsL))
    (hdup : (symNames symsL).eraseDups.length ≠ (symNames symsL).length) :
    enumSymbols kv = .error .parse := by
  simp only [enumSymbols, getKey, hs, ok_bind]
  split
  · rfl
  · simp only [bne_iff_ne, ne_eq, hdup, not_false_eq_true, if_true]

theorem enum_default_outside (kv : List (Val × Val)) (symsL : List Val) (hs : dictGetV kv "symbols" = some (.list symsL))
    (d : Val) (hd : dictGetV kv "default" = some d)
    (hout : ∀ t, d = .str t → (symNames symsL).contains t = false) :
    enumSymbols kv = .error .parse := by
  simp only [enumSymbols, getKey, hs, ok_bind]
  split
  · rfl
  · split
    · rfl
    · rw [hd]
      cases d <;> simp only
      rename_i t
      simp only [hout t rfl, Bool.not_false, if_true]

theorem enum_error (kv : List (Val × Val)) (ns ns' full : String) (st : St) (dflt : Option Val) (ign : Bool) (e : Err)
    (hn : schemaName kv ns = .ok (ns', full)) (hd : st.names.contains full = false) (hs : enumSymbols kv = .error e) :
    parseEnum kv ns st dflt ign = .error e := by
  simp only [parseEnum, hn, ok_bind, hd, Bool.false_eq_true, if_false, hs, error_bind]

/-- a default of the wrong JSON type (defaults are checked unless `_ignore_default_error`) -/
theorem bad_default (d : Val) (ok : Val → Bool) (h : ok d = false) : checkDefault (some d) ok false = .error .parse := by
  simp only [checkDefault, h, Bool.not_false, Bool.and_self, if_true]

theorem bad_default_prim (name ns : String) (st : St) (p : Prim) (d : Val) (hp : Prim.ofName? name = some p)
    (hd : defaultMatches d (.prim p false none) = false) :
    parseName name ns st (some d) false = .error .parse := by
  unfold parseName
  generalize hq : Prim.ofName? name = o
  rw [hp] at hq; subst hq
  simp only [bad_default d (fun d => defaultMatches d (.prim p false none)) hd, error_bind]

theorem bad_default_primDict (ty : String) (st : St) (p : Prim) (d : Val) (lt : Option LogT) (hp : Prim.ofName? ty = some p)
    (hd : defaultMatches d (.prim p false none) = false) :
    parsePrimDict ty st (some d) false lt = .error .parse := by
  unfold parsePrimDict
  generalize hq : Prim.ofName? ty = o
  rw [hp] at hq; subst hq
  simp only [defaultMatchesDictPrim, bad_default d (fun d => defaultMatches d (.prim p false none)) hd, error_bind]

theorem bad_default_array (p) (kv : List (Val × Val)) (st st1 : St) (d items : Val) (s : Schema)
    (hi : getKey kv "items" = .ok items) (hp : p items st = .ok (s, st1)) (hd : isList d = false) :
    parseArray p kv st (some d) false = .error .parse := by
  simp only [parseArray, hi, ok_bind, hp, bad_default d _ hd, error_bind]

theorem bad_default_map (p) (kv : List (Val × Val)) (st st1 : St) (d values : Val) (s : Schema)
    (hi : getKey kv "values" = .ok values) (hp : p values st = .ok (s, st1)) (hd : isDict d = false) :
    parseMap p kv st (some d) false = .error .parse := by
  simp only [parseMap, hi, ok_bind, hp, bad_default d _ hd, error_bind]

theorem bad_default_enum (kv : List (Val × Val)) (ns ns' full : String) (st : St) (d : Val) (r)
    (hn : schemaName kv ns = .ok (ns', full)) (hc : st.names.contains full = false) (hs : enumSymbols kv = .ok r)
    (hd : isStr d = false) :
    parseEnum kv ns st (some d) false = .error .parse := by
  simp only [parseEnum, hn, ok_bind, hc, Bool.false_eq_true, if_false, hs, bad_default d _ hd, error_bind]

theorem bad_default_fixed (kv : List (Val × Val)) (ns ns' full : String) (st : St) (d : Val) (lt)
    (hn : schemaName kv ns = .ok (ns', full)) (hc : st.names.contains full = false) (hd : isStr d = false) :
    parseFixed kv ns st (some d) false lt = .error .parse := by
  simp only [parseFixed, hn, ok_bind, hc, Bool.false_eq_true, if_false, bad_default d _ hd, error_bind]

theorem bad_default_record (pf) (kv : List (Val × Val)) (ns ns' full : String) (st : St) (d : Val)
    (hn : schemaName kv ns = .ok (ns', full)) (hc : st.names.contains full = false) (hd : isDict d = false) :
    parseRecord pf kv ns st (some d) false = .error .parse := by
  simp only [parseRecord, hn, ok_bind, hc, Bool.false_eq_true, if_false, bad_default d _ hd, error_bind]

/-- union: a default that no branch matches -/
theorem bad_default_union (fuel : Nat) (xs : List Val) (ns : String) (st st1 : St) (d : Val) (bs : List Schema)
    (hp : parseListWith (fun x st => parse fuel x ns st none false) xs st = .ok (bs, st1))
    (hd : bs.any (defaultMatches d) = false) :
    parse (fuel+1) (.list xs) ns st (some d) false = .error .parse := by
  simp only [parse, hp, ok_bind, bad_default d (fun d => bs.any (defaultMatches d)) hd, error_bind]

/-! ## decimal annotations -/

/-- the scale passes its own check: absent, falsy (`0`, `None`) or a non-negative integer -/
def ScaleFine (scale : Option Val) : Prop := scaleCheck scale = .ok ()
def PrecisionFine (kv : List (Val × Val)) (precision : Option Val) (isFixed : Bool) : Prop :=
  precisionCheck kv precision isFixed = .ok ()

theorem decimal_stage (kv : List (Val × Val)) (isFixed : Bool)
    (hl : dictGetV kv "logicalType" = some (.str "decimal")) :
    parseLogical kv isFixed = (do
      scaleCheck (dictGetV kv "scale")
      precisionCheck kv (dictGetV kv "precision") isFixed
      crossCheck (dictGetV kv "scale") (dictGetV kv "precision")
      pure (some { name := "decimal", precision := (dictGetV kv "precision").bind asPyInt?,
                   scale := ((dictGetV kv "scale").bind asPyInt?).getD 0 })) := by
  unfold parseLogical
  simp only [hl, BEq.rfl, if_true]

/-- a scale that is neither falsy nor a non-negative integer -/
theorem decimal_bad_scale (kv : List (Val × Val)) (isFixed : Bool) (v : Val)
    (hl : dictGetV kv "logicalType" = some (.str "decimal")) (hs : dictGetV kv "scale" = some v)
    (ht : truthy v = true) (hbad : ∀ n, asPyInt? v = some n → n < 0) :
    parseLogical kv isFixed = .error .parse := by
  rw [decimal_stage kv isFixed hl, hs]
  have : scaleCheck (some v) = .error .parse := by
    simp only [scaleCheck, ht, if_true]
    cases hv : asPyInt? v with
    | none => rfl
    | some n => simp only [hbad n hv, if_true]
  rw [this]; rfl

/-- a precision that is neither falsy nor a positive integer -/
theorem decimal_bad_precision (kv : List (Val × Val)) (isFixed : Bool) (v : Val)
    (hl : dictGetV kv "logicalType" = some (.str "decimal")) (hsc : ScaleFine (dictGetV kv "scale"))
    (hp : dictGetV kv "precision" = some v)
    (ht : truthy v = true) (hbad : ∀ n, asPyInt? v = some n → n ≤ 0) :
    parseLogical kv isFixed = .error .parse := by
  rw [decimal_stage kv isFixed hl, hsc, hp, ok_bind]
  have : precisionCheck kv (some v) isFixed = .error .parse := by
    simp only [precisionCheck, ht, if_true]
    cases hv : asPyInt? v with
    | none => rfl
    | some n => simp only [hbad n hv, if_true]
  rw [this]; rfl

/-- a precision beyond what the fixed size can hold -/
theorem decimal_precision_beyond_size (kv : List (Val × Val)) (v : Val) (n sz : Int)
    (hl : dictGetV kv "logicalType" = some (.str "decimal")) (hsc : ScaleFine (dictGetV kv "scale"))
    (hp : dictGetV kv "precision" = some v) (ht : truthy v = true) (hn : asPyInt? v = some n)
    (hsz : dictGetV kv "size" = some (.int sz)) (hbig : n > maxPrecision sz.toNat) :
    parseLogical kv true = .error .parse := by
  rw [decimal_stage kv true hl, hsc, hp, ok_bind]
  have : precisionCheck kv (some v) true = .error .parse := by
    simp only [precisionCheck, ht, if_true, hn, hsz]
    split
    · rfl
    · simp only [hbig, if_true]
  rw [this]; rfl

/-- a scale above the precision -/
theorem decimal_scale_above_precision (kv : List (Val × Val)) (isFixed : Bool) (sv pv : Val) (sc pr : Int)
    (hl : dictGetV kv "logicalType" = some (.str "decimal"))
    (hsc : ScaleFine (dictGetV kv "scale")) (hpf : PrecisionFine kv (dictGetV kv "precision") isFixed)
    (hs : dictGetV kv "scale" = some sv) (hp : dictGetV kv "precision" = some pv)
    (hts : truthy sv = true) (htp : truthy pv = true)
    (hsn : asPyInt? sv = some sc) (hpn : asPyInt? pv = some pr) (habove : pr < sc) :
    parseLogical kv isFixed = .error .parse := by
  rw [decimal_stage kv isFixed hl, hsc, ok_bind, hpf, ok_bind, hs, hp]
  have : crossCheck (some sv) (some pv) = .error .parse := by
    simp only [crossCheck, hts, htp, Bool.and_self, if_true, hsn, hpn, habove]
  rw [this]; rfl

/-! ## routing: `_parse_schema` on a dict dispatches on `type` after the annotation checks -/

theorem logical_error (fuel : Nat) (kv : List (Val × Val)) (ns : String) (st : St) (dflt : Option Val) (ign : Bool)
    (ty : String) (e : Err) (hty : dictType kv = .ok ty) (hl : parseLogical kv (ty == "fixed") = .error e) :
    parse (fuel+1) (.dict kv) ns st dflt ign = .error e := by
  simp only [parse, hty, ok_bind, hl, error_bind]

theorem route_array (fuel : Nat) (kv : List (Val × Val)) (ns : String) (st : St) (dflt : Option Val) (ign : Bool) (lt)
    (hty : dictType kv = .ok "array") (hl : parseLogical kv false = .ok lt) :
    parse (fuel+1) (.dict kv) ns st dflt ign = parseArray (fun x st => parse fuel x ns st none ign) kv st dflt ign := by
  have e : ("array" == "fixed") = false := by decide
  simp only [parse, hty, ok_bind, e, hl, BEq.rfl, if_true]

theorem route_map (fuel : Nat) (kv : List (Val × Val)) (ns : String) (st : St) (dflt : Option Val) (ign : Bool) (lt)
    (hty : dictType kv = .ok "map") (hl : parseLogical kv false = .ok lt) :
    parse (fuel+1) (.dict kv) ns st dflt ign = parseMap (fun x st => parse fuel x ns st none ign) kv st dflt ign := by
  have e : ("map" == "fixed") = false := by decide
  have e1 : ("map" == "array") = false := by decide
  simp only [parse, hty, ok_bind, e, e1, hl, BEq.rfl, Bool.false_eq_true, if_false, if_true]

theorem route_enum (fuel : Nat) (kv : List (Val × Val)) (ns : String) (st : St) (dflt : Option Val) (ign : Bool) (lt)
    (hty : dictType kv = .ok "enum") (hl : parseLogical kv false = .ok lt) :
    parse (fuel+1) (.dict kv) ns st dflt ign = parseEnum kv ns st dflt ign := by
  have e : ("enum" == "fixed") = false := by decide
  have e1 : ("enum" == "array") = false := by decide
  have e2 : ("enum" == "map") = false := by decide
  simp only [parse, hty, ok_bind, e, e1, e2, hl, BEq.rfl, Bool.false_eq_true, if_false, if_true]

theorem route_fixed (fuel : Nat) (kv : List (Val × Val)) (ns : String) (st : St) (dflt : Option Val) (ign : Bool) (lt)
    (hty : dictType kv = .ok "fixed") (hl : parseLogical kv true = .ok lt) :
    parse (fuel+1) (.dict kv) ns st dflt ign = parseFixed kv ns st dflt ign lt := by
  have e1 : ("fixed" == "array") = false := by decide
  have e2 : ("fixed" == "map") = false := by decide
  have e3 : ("fixed" == "enum") = false := by decide
  simp only [parse, hty, ok_bind, e1, e2, e3, hl, BEq.rfl, Bool.false_eq_true, if_false, if_true]

theorem route_record (fuel : Nat) (kv : List (Val × Val)) (ns : String) (st : St) (dflt : Option Val) (ign : Bool) (lt)
    (hty : dictType kv = .ok "record") (hl : parseLogical kv false = .ok lt) :
    parse (fuel+1) (.dict kv) ns st dflt ign =
      parseRecord (fun ns' fs st => parseFieldsWith (fun ty st d => parse fuel ty ns' st d ign) fs st) kv ns st dflt ign := by
  have e : ("record" == "fixed") = false := by decide
  have e1 : ("record" == "array") = false := by decide
  have e2 : ("record" == "map") = false := by decide
  have e3 : ("record" == "enum") = false := by decide
  simp only [parse, hty, ok_bind, e, e1, e2, e3, hl, BEq.rfl, Bool.false_eq_true, if_false, if_true]

/-! ## propagation: an error anywhere below reaches the top -/

theorem union_error (fuel : Nat) (pre post : List Val) (x : Val) (ns : String) (st st1 : St) (bs : List Schema)
    (dflt : Option Val) (ign : Bool) (e : Err)
    (h1 : parseListWith (fun x st => parse fuel x ns st none ign) pre st = .ok (bs, st1))
    (h2 : parse fuel x ns st1 none ign = .error e) :
    parse (fuel+1) (.list (pre ++ x :: post)) ns st dflt ign = .error e := by
  simp only [parse, list_error _ x post e pre st bs st1 h1 h2, error_bind]

theorem array_error (fuel : Nat) (kv : List (Val × Val)) (ns : String) (st : St) (dflt : Option Val) (ign : Bool) (lt)
    (items : Val) (e : Err)
    (hty : dictType kv = .ok "array") (hl : parseLogical kv false = .ok lt) (hi : getKey kv "items" = .ok items)
    (h : parse fuel items ns st none ign = .error e) :
    parse (fuel+1) (.dict kv) ns st dflt ign = .error e := by
  rw [route_array fuel kv ns st dflt ign lt hty hl]
  simp only [parseArray, hi, ok_bind, h, error_bind]

theorem map_error (fuel : Nat) (kv : List (Val × Val)) (ns : String) (st : St) (dflt : Option Val) (ign : Bool) (lt)
    (values : Val) (e : Err)
    (hty : dictType kv = .ok "map") (hl : parseLogical kv false = .ok lt) (hi : getKey kv "values" = .ok values)
    (h : parse fuel values ns st none ign = .error e) :
    parse (fuel+1) (.dict kv) ns st dflt ign = .error e := by
  rw [route_map fuel kv ns st dflt ign lt hty hl]
  simp only [parseMap, hi, ok_bind, h, error_bind]

/-- the parser state in which the fields of a record are parsed: the record's own name is
    registered (so that it can refer to itself) -/
def recordSt (kv : List (Val × Val)) (full : String) (st : St) : St :=
  { names := st.names ++ [full], env := st.env.set full (.record full [] (aliasesOf kv)) }

theorem record_error (fuel : Nat) (kv : List (Val × Val)) (ns ns' full : String) (st st1 : St) (dflt : Option Val) (ign : Bool) (lt)
    (pre post : List Val) (fkv : List (Val × Val)) (fs : List Field) (al : List String) (d : Option Val) (fname : String)
    (fty : Val) (e : Err)
    (hty : dictType kv = .ok "record") (hl : parseLogical kv false = .ok lt)
    (hn : schemaName kv ns = .ok (ns', full)) (hc : st.names.contains full = false)
    (hd : checkDefault dflt isDict ign = .ok ())
    (hf : dictListOr kv "fields" = pre ++ .dict fkv :: post)
    (hpre : parseFieldsWith (fun ty st d => parse fuel ty ns' st d ign) pre (recordSt kv full st) = .ok (fs, st1))
    (hh : fieldHeader fkv = .ok (al, d, fname, fty))
    (h : parse fuel fty ns' st1 d ign = .error e) :
    parse (fuel+1) (.dict kv) ns st dflt ign = .error e := by
  rw [route_record fuel kv ns st dflt ign lt hty hl]
  unfold recordSt at hpre
  simp only [parseRecord, hn, ok_bind, hc, Bool.false_eq_true, if_false, hd, hf,
    fields_error _ fkv post e al d fname fty hh pre _ fs st1 hpre h, error_bind]

/-! ## the per-parse name set only grows, and a definition registers its full name -/

theorem list_names_mono (p : Val → St → R (Schema × St))
    (hp : ∀ x st s st', p x st = .ok (s, st') → ∀ n, n ∈ st.names → n ∈ st'.names) (xs : List Val) :
    ∀ st bs st', parseListWith p xs st = .ok (bs, st') → ∀ n, n ∈ st.names → n ∈ st'.names := by
  induction xs with
  | nil =>
    intro st bs st' h n hn
    simp only [parseListWith, Except.ok.injEq, Prod.mk.injEq] at h
    rw [← h.2]; exact hn
  | cons x xs ih =>
    intro st bs st' h n hn
    simp only [parseListWith, bind_ok_iff, pure_ok_iff, Prod.mk.injEq] at h
    obtain ⟨⟨s, st1⟩, h1, ⟨ss, st2⟩, h2, _, rfl⟩ := h
    exact ih st1 ss st2 h2 n (hp x st s st1 h1 n hn)

theorem fields_names_mono (p : Val → St → Option Val → R (Schema × St))
    (hp : ∀ x st d s st', p x st d = .ok (s, st') → ∀ n, n ∈ st.names → n ∈ st'.names) (xs : List Val) :
    ∀ st fs st', parseFieldsWith p xs st = .ok (fs, st') → ∀ n, n ∈ st.names → n ∈ st'.names := by
  induction xs with
  | nil =>
    intro st fs st' h n hn
    simp only [parseFieldsWith, Except.ok.injEq, Prod.mk.injEq] at h
    rw [← h.2]; exact hn
  | cons x xs ih =>
    intro st fs st' h n hn
    cases x <;> simp only [parseFieldsWith, reduceCtorEq] at h
    simp only [bind_ok_iff, pure_ok_iff, Prod.mk.injEq] at h
    obtain ⟨⟨al, d, name, ty⟩, _, ⟨s, st1⟩, h1, ⟨ss, st2⟩, h2, _, rfl⟩ := h
    exact ih st1 ss st2 h2 n (hp ty st d s st1 h1 n hn)

theorem parseName_st (name ns : String) (st st' : St) (dflt : Option Val) (ign : Bool) (s : Schema)
    (h : parseName name ns st dflt ign = .ok (s, st')) : st' = st := by
  unfold parseName at h
  generalize Prim.ofName? name = o at h
  cases o with
  | some p =>
    simp only [bind_ok_iff, pure_ok_iff, Prod.mk.injEq] at h
    obtain ⟨_, _, _, h⟩ := h; exact h.symm
  | none =>
    simp only at h
    split at h <;> split at h <;> simp only [Except.ok.injEq, Prod.mk.injEq, reduceCtorEq] at h <;> exact h.2.symm

theorem parsePrimDict_st (ty : String) (st st' : St) (dflt : Option Val) (ign : Bool) (lt : Option LogT) (s : Schema)
    (h : parsePrimDict ty st dflt ign lt = .ok (s, st')) : st' = st := by
  unfold parsePrimDict at h
  generalize Prim.ofName? ty = o at h
  cases o with
  | some p =>
    simp only [bind_ok_iff, pure_ok_iff, Prod.mk.injEq] at h
    obtain ⟨_, _, _, h⟩ := h; exact h.symm
  | none =>
    simp only at h
    split at h <;> simp at h

/-- a successful enum definition registers its full name -/
theorem enum_registers (kv : List (Val × Val)) (ns : String) (st st' : St) (dflt : Option Val) (ign : Bool) (s : Schema)
    (h : parseEnum kv ns st dflt ign = .ok (s, st')) :
    ∃ ns' full, schemaName kv ns = .ok (ns', full) ∧ st.names.contains full = false ∧ st'.names = st.names ++ [full] := by
  simp only [parseEnum, bind_ok_iff] at h
  obtain ⟨⟨ns', full⟩, hn, h⟩ := h
  split at h
  · simp at h
  · rename_i hc
    simp only [bind_ok_iff, pure_ok_iff, Prod.mk.injEq] at h
    obtain ⟨_, _, _, _, _, rfl⟩ := h
    exact ⟨ns', full, hn, by simpa using hc, rfl⟩

theorem fixed_registers (kv : List (Val × Val)) (ns : String) (st st' : St) (dflt : Option Val) (ign : Bool) (lt) (s : Schema)
    (h : parseFixed kv ns st dflt ign lt = .ok (s, st')) :
    ∃ ns' full, schemaName kv ns = .ok (ns', full) ∧ st.names.contains full = false ∧ st'.names = st.names ++ [full] := by
  simp only [parseFixed, bind_ok_iff] at h
  obtain ⟨⟨ns', full⟩, hn, h⟩ := h
  split at h
  · simp at h
  · rename_i hc
    simp only [bind_ok_iff, pure_ok_iff, Prod.mk.injEq] at h
    obtain ⟨_, _, _, _, _, rfl⟩ := h
    exact ⟨ns', full, hn, by simpa using hc, rfl⟩

theorem record_registers (pf : String → List Val → St → R (List Field × St))
    (hpf : ∀ ns' xs st fs st', pf ns' xs st = .ok (fs, st') → ∀ n, n ∈ st.names → n ∈ st'.names)
    (kv : List (Val × Val)) (ns : String) (st st' : St) (dflt : Option Val) (ign : Bool) (s : Schema)
    (h : parseRecord pf kv ns st dflt ign = .ok (s, st')) :
    ∃ ns' full, schemaName kv ns = .ok (ns', full) ∧ st.names.contains full = false ∧
      ∀ n, n ∈ st.names ++ [full] → n ∈ st'.names := by
  simp only [parseRecord, bind_ok_iff] at h
  obtain ⟨⟨ns', full⟩, hn, h⟩ := h
  split at h
  · simp at h
  · rename_i hc
    simp only [bind_ok_iff, pure_ok_iff, Prod.mk.injEq] at h
    obtain ⟨_, _, ⟨fs, st2⟩, hfs, _, rfl⟩ := h
    exact ⟨ns', full, hn, by simpa using hc, fun n hn' => hpf _ _ _ fs st2 hfs n hn'⟩

/-- the per-parse name set only grows -/
theorem names_mono (fuel : Nat) :
    ∀ raw ns st dflt ign s st', parse fuel raw ns st dflt ign = .ok (s, st') → ∀ n, n ∈ st.names → n ∈ st'.names := by
  induction fuel with
  | zero => intro raw ns st dflt ign s st' h; simp [parse] at h
  | succ fuel ih =>
    intro raw ns st dflt ign s st' h n hn
    cases raw <;> simp only [parse, reduceCtorEq] at h
    case str name => rw [parseName_st name ns st st' dflt ign s h]; exact hn
    case list xs =>
      simp only [bind_ok_iff, pure_ok_iff, Prod.mk.injEq] at h
      obtain ⟨⟨bs, st1⟩, h1, _, _, _, rfl⟩ := h
      exact list_names_mono _ (fun x st s st' hx => ih x ns st none ign s st' hx) xs st bs st1 h1 n hn
    case dict kv =>
      simp only [bind_ok_iff] at h
      obtain ⟨ty, hty, lt, _, h⟩ := h
      split at h
      · simp only [parseArray, bind_ok_iff, pure_ok_iff, Prod.mk.injEq] at h
        obtain ⟨items, _, ⟨s1, st1⟩, h1, _, _, _, rfl⟩ := h
        exact ih items ns st none ign s1 st1 h1 n hn
      · split at h
        · simp only [parseMap, bind_ok_iff, pure_ok_iff, Prod.mk.injEq] at h
          obtain ⟨items, _, ⟨s1, st1⟩, h1, _, _, _, rfl⟩ := h
          exact ih items ns st none ign s1 st1 h1 n hn
        · split at h
          · obtain ⟨_, full, _, _, he⟩ := enum_registers kv ns st st' dflt ign s h
            rw [he]; exact List.mem_append_left _ hn
          · split at h
            · obtain ⟨_, full, _, _, he⟩ := fixed_registers kv ns st st' dflt ign lt s h
              rw [he]; exact List.mem_append_left _ hn
            · split at h
              · obtain ⟨_, full, _, _, he⟩ := record_registers _
                  (fun ns' xs st fs st' hx => fields_names_mono _ (fun x st d s st' hx => ih x ns' st d ign s st' hx) xs st fs st' hx)
                  kv ns st st' dflt ign s h
                exact he n (List.mem_append_left _ hn)
              · rw [parsePrimDict_st ty st st' dflt ign lt s h]; exact hn

end RejectProofs
