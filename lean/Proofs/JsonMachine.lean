/-
  Proofs/JsonMachine.lean — the push-down machine of fastavro/io/parser.py + AvroJSONEncoder
  (Model/JsonMachine.lean) computes the function-level JSON encoding (Model/Json.lean: `Json.encode`).

  Plan of the proof
    * `advL` over a stack that starts with pending actions executes them (`advL_acts`), a folded
      `Sequence` behaves like its production (`advL_seq`), a repeater like its body followed by itself
      (`advL_rep`), the root like `symbol, root` (`root_eqv`);
    * `Entry` / `Exit`: the situation before and after the writer's traversal of one value — pending actions
      (lazily executed by the next `advance`) on top of the value's symbol / of what follows it, and the encoder
      state those actions lead to; states are compared up to the stale `_key` (`sameButKey`);
    * one lemma per schema kind (`leaf_sound`, `utf8_sound`, `enum_sound`, `array_sound` with the item loop
      `items_sound`, `map_sound` with `entries_sound`, `union_sound`, `record_sound` with `field_sound` /
      `fields_sound`), assembled by induction on the nesting depth in `sound_all`;
    * `encodeAll_sound`: a non-empty list of records through one `json_writer` call (the root symbol restarts
      the grammar for every record; `flush` executes what is pending and writes the buffer);
    * `build_gram`: what `Parser._parse` builds is the grammar relation `Gram` the lemmas are stated for,
      provided no production is forced to null (`noSelf`: the recursion guard of `_process_record` stays off).
-/
import Model.JsonMachine

namespace JMProofs
open JM Binary Json

/-! #### part 1 -/

/-- actions the encoder executes (every action of a grammar except `EnumLabels`, which is popped, never executed) -/
def simple : Sym → Bool
  | .unionEnd | .recordStart _ | .recordEnd | .fieldStart _ | .fieldEnd => true
  | _ => false

/-- executing a run of pending actions, top first -/
def runActs : List Sym → Enc → R Enc
  | [], e => .ok e
  | a :: as, e => match encAct a e with
    | .ok e' => runActs as e'
    | .error x => .error x

theorem runActs_append (xs ys : List Sym) (e : Enc) :
    runActs (xs ++ ys) e = match runActs xs e with | .ok e' => runActs ys e' | .error x => .error x := by
  induction xs generalizing e with
  | nil => rfl
  | cons a as ih =>
    simp only [List.cons_append, runActs]
    cases encAct a e with
    | error x => rfl
    | ok e' => exact ih e'

theorem advS_simple {a : Sym} (ha : simple a = true) (k : TK) (e : Enc) :
    advS encAct k a e = match encAct a e with | .ok e' => .ok (none, e') | .error x => .error x := by
  cases a <;> simp [simple] at ha <;> simp only [advS] <;> cases encAct _ e <;> rfl

theorem advL_append {σ : Type} (act : Sym → σ → R σ) (k : TK) (xs ys : List Sym) (st : σ) :
    advL act k (xs ++ ys) st = match advL act k xs st with
      | .ok (some (y, rem), st') => .ok (some (y, rem ++ ys), st')
      | .ok (none, st') => advL act k ys st'
      | .error x => .error x := by
  induction xs generalizing st with
  | nil => simp [advL]
  | cons x xs ih =>
    simp only [List.cons_append, advL]
    cases h : advS act k x st with
    | error x => rfl
    | ok r =>
      obtain ⟨o, st'⟩ := r
      cases o with
      | none => simp only; exact ih st'
      | some p => obtain ⟨y, rem⟩ := p; simp [List.append_assoc]

theorem advL_acts (k : TK) (acts ps : List Sym) (e e1 : Enc) (hs : ∀ a ∈ acts, simple a = true)
    (hr : runActs acts e = .ok e1) : advL encAct k (acts ++ ps) e = advL encAct k ps e1 := by
  induction acts generalizing e with
  | nil => simp [runActs] at hr; subst hr; rfl
  | cons a as ih =>
    simp only [List.cons_append, advL]
    rw [advS_simple (hs a (by simp))]
    simp only [runActs] at hr
    cases h : encAct a e with
    | error x => rw [h] at hr; cases hr
    | ok e' =>
      rw [h] at hr
      simp only
      exact ih e' (fun b hb => hs b (by simp [hb])) hr

theorem advL_acts' (k : TK) (acts ps : List Sym) (e : Enc) (hs : ∀ a ∈ acts, simple a = true) :
    advL encAct k (acts ++ ps) e = match runActs acts e with
      | .ok e1 => advL encAct k ps e1
      | .error x => .error x := by
  induction acts generalizing e with
  | nil => rfl
  | cons a as ih =>
    simp only [List.cons_append, advL, runActs]
    rw [advS_simple (hs a (by simp))]
    cases h : encAct a e with
    | error x => rfl
    | ok e' => simp only; exact ih e' (fun b hb => hs b (by simp [hb]))

theorem advL_seq {σ : Type} (act : Sym → σ → R σ) (k : TK) (prod rest : List Sym) (st : σ) :
    advL act k (.seq prod :: rest) st = advL act k (prod ++ rest) st := by
  rw [advL_append]; simp only [advL, advS]; rfl

theorem advL_rep {σ : Type} (act : Sym → σ → R σ) (k e : TK) (body rest : List Sym) (st : σ) (hne : (e == k) = false)
    (hnn : ∀ st', advL act k body st ≠ .ok (none, st')) :
    advL act k (.rep e body :: rest) st = advL act k (body ++ .rep e body :: rest) st := by
  rw [advL_append]
  simp only [advL, advS, hne]
  cases h : advL act k body st with
  | error x => simp
  | ok r =>
    obtain ⟨o, st'⟩ := r
    cases o with
    | none => exact absurd h (hnn st')
    | some p => obtain ⟨y, rem⟩ := p; simp


/-! #### part 2 -/

/-! ### the grammar as a relation (what `Parser._parse` builds when no production is forced to null) -/
mutual
inductive Gram (env : Env) : Schema → Option Val → Sym → Prop
  | null (df lt d) : Gram env (.prim .null df lt) d (.term .null d)
  | prim (p df lt d) : p ≠ .null → Gram env (.prim p df lt) d (.term (primTK p) d)
  | fixed (n sz lt al d) : Gram env (.fixed n sz lt al) d (.term .fixed d)
  | enum (n syms dflt al d) : Gram env (.enum n syms dflt al) d (.seq [.term .enum d, .enumLabels syms])
  | array (items d I) : Gram env items none I →
      Gram env (.array items) d (.seq [.term .arrayStart d, .rep .arrayEnd [I, .term .itemEnd none]])
  | map (values d V) : Gram env values none V →
      Gram env (.map values) d (.seq [.term .mapStart d, .rep .mapEnd [.term .string none, .term .mapKeyMarker none, V]])
  | union (bs d syms) : GramList env bs syms →
      Gram env (.union bs) d (.seq [.term .union none, .alt syms (bs.map label) d])
  | record (n fields al d body) : GramFields env fields body →
      Gram env (.record n fields al) d (.seq (.recordStart d :: body))
  | ref (n s' d g) : env.get? n = some s' → Gram env s' d g → Gram env (.ref n) d g
inductive GramList (env : Env) : List Schema → List Sym → Prop
  | nil : GramList env [] []
  | cons (b bs x xs) : Gram env b none x → GramList env bs xs → GramList env (b :: bs) (x :: xs)
inductive GramFields (env : Env) : List Field → List Sym → Prop
  | nil : GramFields env [] [.recordEnd]
  | cons (f rest t more) : Gram env f.type f.default t → GramFields env rest more →
      GramFields env (f :: rest) (.fieldStart f.name :: t :: .fieldEnd :: more)
end

/-! ### states up to the stale key -/

/-- equal except for `_key` (the encoder never restores the key when it closes an object or array) -/
def sameButKey (a b : Enc) : Prop :=
  a.stack = b.stack ∧ a.current = b.current ∧ a.records = b.records ∧ a.out = b.out

/-- outside any object or array the key is `None` -/
def keyOk (e : Enc) : Prop := e.current = .none → e.key = .none

/-- `_current` is `None`, a dict or a list -/
def curOk (e : Enc) : Prop := match e.current with
  | .none => True | .dict _ => True | .list _ => True | _ => False

theorem sameButKey_refl (a : Enc) : sameButKey a a := ⟨rfl, rfl, rfl, rfl⟩

/-- closing an object / array that was opened in state `e1` puts it where `write_value` would have put it -/
theorem pop_eq_write (e1 e3 e : Enc) (J : Val) (hw : e1.writeValue J = .ok e3) (hk : keyOk e1) (hc : curOk e1)
    (hs : e.stack = (e1.current, e1.key) :: e1.stack) (hcur : e.current = J) (hr : e.records = e1.records)
    (ho : e.out = e1.out) : ∃ e2, e.pop = .ok e2 ∧ sameButKey e2 e3 ∧ keyOk e2 := by
  unfold Enc.pop
  rw [hs]
  unfold Enc.writeValue at hw
  unfold curOk at hc
  unfold keyOk at hk
  cases hcu : e1.current with
  | dict kv =>
    rw [hcu] at hw
    simp only
    cases hkey : e1.key with
    | str s =>
      rw [hkey] at hw
      simp only at hw
      split at hw
      · cases hw
      · cases hw
        refine ⟨_, rfl, ⟨rfl, ?_, hr, ho⟩, ?_⟩
        · simp [dictSetKey, hcur]
        · intro h; simp at h
    | _ => rw [hkey] at hw; simp at hw
  | list xs =>
    rw [hcu] at hw
    cases hw
    refine ⟨_, rfl, ⟨rfl, ?_, hr, ho⟩, ?_⟩
    · simp [hcur]
    · intro h; simp at h
  | none =>
    rw [hcu] at hw
    cases hw
    have : e1.key = .none := hk hcu
    simp only [this]
    refine ⟨_, rfl, ⟨rfl, rfl, ?_, ho⟩, ?_⟩
    · simp [hr, hcur]
    · intro _; rfl
  | _ => rw [hcu] at hc; exact hc.elim


/-! #### part 3 -/

/-- the situation in which the writer starts on a value: behind pending actions `acts` (already executed in `e1`)
    the stack behaves, for every symbol a value can start with, like `G :: rest` -/
structure Entry (st : ES) (acts : List Sym) (G : Sym) (rest : List Sym) (e1 : Enc) : Prop where
  eqv : ∀ k, (k == TK.arrayEnd) = false → (k == TK.mapEnd) = false → ∀ e,
    advL encAct k st.ps e = advL encAct k (acts ++ G :: rest) e
  simp : ∀ a ∈ acts, simple a = true
  run : runActs acts st.e = .ok e1

/-- the situation after a value: pending actions `acts'` on top of `rest`; once executed the state is `e3` -/
def Exit (st' : ES) (rest : List Sym) (e3 : Enc) : Prop :=
  ∃ acts', st'.ps = acts' ++ rest ∧ (∀ a ∈ acts', simple a = true) ∧
    ∃ e2, runActs acts' st'.e = .ok e2 ∧ sameButKey e2 e3 ∧ keyOk e2

theorem entry_actual (ps : List Sym) (e e1 : Enc) (acts : List Sym) (G : Sym) (rest : List Sym)
    (hps : ps = acts ++ G :: rest) (hs : ∀ a ∈ acts, simple a = true) (hr : runActs acts e = .ok e1) :
    Entry ⟨ps, e⟩ acts G rest e1 :=
  ⟨fun _ _ _ _ => by rw [hps], hs, hr⟩

theorem entry_seq {st : ES} {acts : List Sym} {x : Sym} {prod rest : List Sym} {e1 : Enc}
    (h : Entry st acts (.seq (x :: prod)) rest e1) : Entry st acts x (prod ++ rest) e1 := by
  refine ⟨fun k h1 h2 e => ?_, h.simp, h.run⟩
  rw [h.eqv k h1 h2 e, advL_acts' k acts _ e h.simp, advL_acts' k acts _ e h.simp]
  cases runActs acts e with
  | error x => rfl
  | ok e' => simp only; rw [advL_seq]; rfl

theorem adv_term {st : ES} {acts : List Sym} {k : TK} {d : Option Val} {rest : List Sym} {e1 : Enc}
    (h : Entry st acts (.term k d) rest e1) (h1 : (k == TK.arrayEnd) = false) (h2 : (k == TK.mapEnd) = false) :
    st.advance k = .ok (.term k d, ⟨rest, e1⟩) := by
  unfold ES.advance JM.advance
  rw [h.eqv k h1 h2, advL_acts k acts _ st.e e1 h.simp h.run]
  simp [advL, advS]
  rfl


/-! #### part 4 -/

/-- the JSON value has proper objects: keys are non-empty strings, no key twice, at every depth -/
inductive KeysOk : Val → Prop
  | dict (kv : List (Val × Val)) : (∀ p ∈ kv, ∃ s, p.1 = Val.str s ∧ s ≠ "") → (dictKeys kv).Nodup →
      (∀ p ∈ kv, KeysOk p.2) → KeysOk (.dict kv)
  | list (xs : List Val) : (∀ x ∈ xs, KeysOk x) → KeysOk (.list xs)
  | leaf (v : Val) : (∀ kv, v ≠ .dict kv) → (∀ xs, v ≠ .list xs) → KeysOk v

mutual
/-- every record has at least one field (a record without fields makes no `advance` call: finding F5b) -/
def nonEmptyRec : Schema → Bool
  | .record _ fields _ => !fields.isEmpty && nonEmptyRecF fields
  | .array i => nonEmptyRec i
  | .map v => nonEmptyRec v
  | .union bs => nonEmptyRecL bs
  | _ => true
def nonEmptyRecL : List Schema → Bool
  | [] => true
  | b :: bs => nonEmptyRec b && nonEmptyRecL bs
def nonEmptyRecF : List Field → Bool
  | [] => true
  | .mk _ t _ _ :: fs => nonEmptyRec t && nonEmptyRecF fs
end

/-- the table of named schemas holds definitions of named types, each with non-empty records -/
def EnvOk (env : Env) : Prop := ∀ n d, env.get? n = some d → d.isNamedDef = true ∧ nonEmptyRec d = true

/-- what lies under a value on the stack is not the map-key marker (and the stack is not empty) -/
def restOk (rest : List Sym) : Prop := ∃ top tl, rest = top :: tl ∧ top.isTerm .mapKeyMarker = false

/-- the machine's traversal of one value does what the function-level encoder says, for fuel `fuel` -/
def Sound (wut : Bool) (env : Env) (o : WOpts) (fuel : Nat) : Prop :=
  ∀ (s : Schema) (v j : Val), Json.encode wut fuel env o s v = .ok j → KeysOk j →
  ∀ (d : Option Val) (G : Sym), Gram env s d G → nonEmptyRec s = true →
  ∀ (st : ES) (acts rest : List Sym) (e1 e3 : Enc), Entry st acts G rest e1 → restOk rest →
    e1.writeValue j = .ok e3 → keyOk e1 → curOk e1 →
    ∃ st', mEncode wut fuel env o s v st = .ok st' ∧ Exit st' rest e3

theorem exit_now (rest : List Sym) (e3 : Enc) (hk : keyOk e3) : Exit ⟨rest, e3⟩ rest e3 := by
  refine ⟨[], rfl, ?_, e3, rfl, sameButKey_refl e3, hk⟩
  intro a h; cases h

theorem write_keyOk {e1 e3 : Enc} {j : Val} (h : e1.writeValue j = .ok e3) (hk : keyOk e1) : keyOk e3 := by
  unfold Enc.writeValue at h
  unfold keyOk at *
  split at h
  · split at h
    · split at h
      · cases h
      · cases h; intro hc; simp_all
    · cases h
  · cases h; intro hc; simp_all
  · cases h; intro hc; exact hk hc

/-- a leaf: advance to the terminal, then `write_value` -/
theorem leaf_sound {st : ES} {acts rest : List Sym} {e1 e3 : Enc} {k : TK} {d : Option Val} {j : Val}
    (hE : Entry st acts (.term k d) rest e1) (h1 : (k == TK.arrayEnd) = false) (h2 : (k == TK.mapEnd) = false)
    (hw : e1.writeValue j = .ok e3) (hk : keyOk e1) :
    ∃ st', st.writeLeaf k j = .ok st' ∧ Exit st' rest e3 := by
  refine ⟨⟨rest, e3⟩, ?_, exit_now rest e3 (write_keyOk hw hk)⟩
  unfold ES.writeLeaf
  rw [adv_term hE h1 h2]
  simp only [bind, Except.bind, hw]
  rfl

theorem utf8_sound {st : ES} {acts rest : List Sym} {e1 e3 : Enc} {d : Option Val} {j : Val}
    (hE : Entry st acts (.term .string d) rest e1) (hr : restOk rest)
    (hw : e1.writeValue j = .ok e3) (hk : keyOk e1) :
    ∃ st', st.writeUtf8 j = .ok st' ∧ Exit st' rest e3 := by
  refine ⟨⟨rest, e3⟩, ?_, exit_now rest e3 (write_keyOk hw hk)⟩
  obtain ⟨top, tl, rfl, htop⟩ := hr
  unfold ES.writeUtf8
  rw [adv_term hE rfl rfl]
  simp only [bind, Except.bind, htop, hw]
  rfl


/-! #### part 5 -/

theorem indexOf_get (xs : List String) (x : String) (i : Nat) (h : indexOf? xs x = some i) : xs[i]? = some x := by
  unfold indexOf? at h
  simp only at h
  split at h
  · rename_i hlt
    cases h
    have := List.findIdx_getElem (p := (· == x)) (xs := xs) (w := hlt)
    simp only [beq_iff_eq] at this
    rw [List.getElem?_eq_getElem hlt, this]
  · cases h

/-- an enum: `write_enum(index)` pops the labels and writes the symbol -/
theorem enum_sound {st : ES} {acts rest : List Sym} {e1 e3 : Enc} {d : Option Val} {syms : List String} {x : String} {i : Nat}
    (hE : Entry st acts (.seq [.term .enum d, .enumLabels syms]) rest e1) (hi : indexOf? syms x = some i)
    (hw : e1.writeValue (.str x) = .ok e3) (hk : keyOk e1) :
    ∃ st', st.writeEnum i = .ok st' ∧ Exit st' rest e3 := by
  refine ⟨⟨rest, e3⟩, ?_, exit_now rest e3 (write_keyOk hw hk)⟩
  unfold ES.writeEnum
  rw [adv_term (entry_seq hE) rfl rfl]
  simp only [bind, Except.bind, List.cons_append, List.nil_append, indexOf_get syms x i hi, hw]
  rfl

/-- the body of a repeater always reaches a terminal -/
theorem advL_body_not_none {σ : Type} (act : Sym → σ → R σ) (k : TK) (pre : List Sym) (k' : TK) (d : Option Val) (post : List Sym) (st : σ) :
    ∀ st', advL act k (pre ++ .term k' d :: post) st ≠ .ok (none, st') := by
  intro st'
  rw [advL_append]
  cases advL act k pre st with
  | error x => simp
  | ok r =>
    obtain ⟨o, s1⟩ := r
    cases o with
    | some p => obtain ⟨y, rem⟩ := p; simp
    | none =>
      simp only [advL, advS]
      by_cases hk : (k' == k) = true <;> simp [hk]

/-- state of the encoder inside an array: frame below, items so far (the key is stale and irrelevant) -/
structure ListSt (st : ES) (rest : List Sym) (I : Sym) (fr : List (Val × Val)) (L : List Val) (recs : List Val) (out : Option (List Val)) : Prop where
  ps : st.ps = .rep .arrayEnd [I, .term .itemEnd none] :: rest
  stack : st.e.stack = fr
  cur : st.e.current = .list L
  recs : st.e.records = recs
  out : st.e.out = out

theorem items_sound (wut : Bool) (env : Env) (o : WOpts) (fuel : Nat) (IH : Sound wut env o fuel)
    (items : Schema) (I : Sym) (hG : Gram env items none I) (hne : nonEmptyRec items = true) (rest : List Sym)
    (fr : List (Val × Val)) (recs : List Val) (out : Option (List Val)) :
    ∀ (xs js : List Val), encItemsWith (Json.encode wut fuel env o items) xs = .ok js → (∀ x ∈ js, KeysOk x) →
    ∀ (st : ES) (L : List Val), ListSt st rest I fr L recs out →
    ∃ st', mItemsWith (mEncode wut fuel env o items) xs st = .ok st' ∧ ListSt st' rest I fr (L ++ js) recs out := by
  intro xs
  induction xs with
  | nil =>
    intro js h _ st L hst
    simp [encItemsWith, pure, Except.pure] at h
    subst h
    exact ⟨st, rfl, by simpa using hst⟩
  | cons x xs ih =>
    intro js h hko st L hst
    simp only [encItemsWith, bind, Except.bind] at h
    cases hx : Json.encode wut fuel env o items x with
    | error err => rw [hx] at h; cases h
    | ok a =>
      rw [hx] at h
      simp only at h
      cases hxs : encItemsWith (Json.encode wut fuel env o items) xs with
      | error err => rw [hxs] at h; cases h
      | ok b =>
        rw [hxs] at h
        simp only [pure, Except.pure] at h
        cases h
        -- the item
        have hE : Entry st [] I (.term .itemEnd none :: .rep .arrayEnd [I, .term .itemEnd none] :: rest) st.e := by
          refine ⟨fun k h1 _ e => ?_, ?_, rfl⟩
          · rw [hst.ps]
            exact advL_rep encAct k .arrayEnd _ rest e (by simpa [BEq.comm] using h1)
              (advL_body_not_none encAct k [I] .itemEnd none [] e)
          · intro a h; cases h
        have hw : st.e.writeValue a = .ok { st.e with current := .list (L ++ [a]) } := by
          unfold Enc.writeValue; rw [hst.cur]
        obtain ⟨st1, hm, acts', hps1, hs1, e2, hr1, hsame, _⟩ :=
          IH items x a hx (hko a (by simp)) none I hG hne st [] _ st.e _ hE ⟨_, _, rfl, rfl⟩ hw
            (by intro hc; rw [hst.cur] at hc; cases hc) (by unfold curOk; rw [hst.cur]; trivial)
        -- end_item
        have hE2 : Entry st1 acts' (.term .itemEnd none) (.rep .arrayEnd [I, .term .itemEnd none] :: rest) e2 :=
          entry_actual st1.ps st1.e e2 acts' _ _ hps1 hs1 hr1
        have hend : st1.endItem = .ok ⟨.rep .arrayEnd [I, .term .itemEnd none] :: rest, e2⟩ := by
          unfold ES.endItem
          rw [adv_term hE2 rfl rfl]
          rfl
        obtain ⟨hs_, hc_, hr_, ho_⟩ := hsame
        have hst2 : ListSt ⟨.rep .arrayEnd [I, .term .itemEnd none] :: rest, e2⟩ rest I fr (L ++ [a]) recs out :=
          ⟨rfl, by rw [hs_]; exact hst.stack, by rw [hc_], by rw [hr_]; exact hst.recs, by rw [ho_]; exact hst.out⟩
        obtain ⟨st3, hm3, hst3⟩ := ih b hxs (fun y hy => hko y (by simp [hy])) _ (L ++ [a]) hst2
        refine ⟨st3, ?_, by simpa [List.append_assoc] using hst3⟩
        simp only [mItemsWith, bind, Except.bind, hm, hend]
        exact hm3


/-! #### part 6 -/

theorem exit_same (rest : List Sym) (e2 e3 : Enc) (hs : sameButKey e2 e3) (hk : keyOk e2) : Exit ⟨rest, e2⟩ rest e3 := by
  refine ⟨[], rfl, ?_, e2, rfl, hs, hk⟩
  intro a h; cases h

theorem array_sound (wut : Bool) (env : Env) (o : WOpts) (fuel : Nat) (IH : Sound wut env o fuel)
    (items : Schema) (I : Sym) (hG : Gram env items none I) (hne : nonEmptyRec items = true)
    {st : ES} {acts rest : List Sym} {e1 e3 : Enc} {d : Option Val} (xs js : List Val)
    (hE : Entry st acts (.seq [.term .arrayStart d, .rep .arrayEnd [I, .term .itemEnd none]]) rest e1)
    (hj : encItemsWith (Json.encode wut fuel env o items) xs = .ok js) (hko : ∀ x ∈ js, KeysOk x)
    (hw : e1.writeValue (.list js) = .ok e3) (hk : keyOk e1) (hc : curOk e1) :
    ∃ st', (do let st ← st.arrayStart
               let st ← mItemsWith (mEncode wut fuel env o items) xs st
               st.arrayEnd) = .ok st' ∧ Exit st' rest e3 := by
  have hstart : st.arrayStart = .ok ⟨.rep .arrayEnd [I, .term .itemEnd none] :: rest, { e1.push with current := .list [] }⟩ := by
    unfold ES.arrayStart
    rw [adv_term (entry_seq hE) rfl rfl]
    rfl
  have hst1 : ListSt ⟨.rep .arrayEnd [I, .term .itemEnd none] :: rest, { e1.push with current := .list [] }⟩ rest I
      ((e1.current, e1.key) :: e1.stack) [] e1.records e1.out := ⟨rfl, rfl, rfl, rfl, rfl⟩
  obtain ⟨st2, hm, hst2⟩ := items_sound wut env o fuel IH items I hG hne rest _ _ _ xs js hj hko _ [] hst1
  simp only [List.nil_append] at hst2
  obtain ⟨e2, hpop, hsame, hk2⟩ := pop_eq_write e1 e3 st2.e (.list js) hw hk hc hst2.stack hst2.cur hst2.recs hst2.out
  have hend : st2.arrayEnd = .ok ⟨rest, e2⟩ := by
    unfold ES.arrayEnd ES.advance JM.advance
    rw [hst2.ps]
    simp only [advL, advS, beq_self_eq_true, if_true, bind, Except.bind, List.nil_append, pure, Except.pure, hpop]
  refine ⟨⟨rest, e2⟩, ?_, exit_same rest e2 e3 hsame hk2⟩
  simp only [bind, Except.bind, hstart, hm, hend]


/-! #### part 7 -/

theorem valDictSet_fresh (kv : List (Val × Val)) (s : String) (a : Val) (h : s ∉ dictKeys kv) :
    valDictSet kv s a = kv ++ [(.str s, a)] := by
  induction kv with
  | nil => rfl
  | cons p rest ih =>
    obtain ⟨k, x⟩ := p
    cases k with
    | str k' =>
      have hne : (k' == s) = false := by
        simp only [dictKeys, List.filterMap_cons, List.mem_cons, not_or] at h
        simpa using fun heq => h.1 heq.symm
      have hrest : s ∉ dictKeys rest := by
        simp only [dictKeys, List.filterMap_cons, List.mem_cons, not_or] at h
        exact h.2
      simp only [valDictSet, hne, List.cons_append]
      rw [ih hrest]
      rfl
    | _ =>
      all_goals
        have hrest : s ∉ dictKeys rest := by simpa [dictKeys] using h
        simp only [valDictSet, List.cons_append]
        rw [ih hrest]

/-- advancing to the end marker of the repeater that lies under pending actions -/
theorem adv_rep_end {st : ES} {acts rest body : List Sym} {k : TK} {e2 : Enc}
    (hps : st.ps = acts ++ .rep k body :: rest) (hs : ∀ a ∈ acts, simple a = true) (hr : runActs acts st.e = .ok e2) :
    st.advance k = .ok (.term k none, ⟨rest, e2⟩) := by
  unfold ES.advance JM.advance
  rw [hps, advL_acts k acts _ st.e e2 hs hr]
  simp only [advL, advS, beq_self_eq_true, if_true, bind, Except.bind, List.nil_append, pure, Except.pure]

/-- state of the encoder inside a map: pending actions, then the repeater; entries so far -/
def MapSt (st : ES) (rest : List Sym) (V : Sym) (fr : List (Val × Val)) (kvs : List (Val × Val)) (recs : List Val)
    (out : Option (List Val)) : Prop :=
  ∃ acts, st.ps = acts ++ .rep .mapEnd [.term .string none, .term .mapKeyMarker none, V] :: rest ∧
    (∀ a ∈ acts, simple a = true) ∧
    ∃ e2, runActs acts st.e = .ok e2 ∧ e2.stack = fr ∧ e2.current = .dict kvs ∧ e2.records = recs ∧ e2.out = out

theorem entries_sound (wut : Bool) (env : Env) (o : WOpts) (fuel : Nat) (IH : Sound wut env o fuel)
    (values : Schema) (V : Sym) (hG : Gram env values none V) (hne : nonEmptyRec values = true) (rest : List Sym)
    (fr : List (Val × Val)) (recs : List Val) (out : Option (List Val)) :
    ∀ (kv jkv : List (Val × Val)), encEntriesWith (Json.encode wut fuel env o values) kv = .ok jkv →
    ∀ (st : ES) (kvs : List (Val × Val)), (dictKeys (kvs ++ jkv)).Nodup → (∀ p ∈ jkv, KeysOk p.2) →
      MapSt st rest V fr kvs recs out →
    ∃ st', mEntriesWith (mEncode wut fuel env o values) kv st = .ok st' ∧ MapSt st' rest V fr (kvs ++ jkv) recs out := by
  intro kv
  induction kv with
  | nil =>
    intro jkv h st kvs _ _ hst
    simp [encEntriesWith, pure, Except.pure] at h
    subst h
    exact ⟨st, rfl, by simpa using hst⟩
  | cons p kv ih =>
    intro jkv h st kvs hnd hko hst
    obtain ⟨k, x⟩ := p
    cases k with
    | str s =>
      simp only [encEntriesWith, bind, Except.bind] at h
      by_cases hse : s.isEmpty = true
      · simp [hse, throw, throwThe, MonadExceptOf.throw] at h
      · simp only [hse, Bool.false_eq_true, if_false] at h
        cases hx : Json.encode wut fuel env o values x with
        | error err => rw [hx] at h; simp [pure, Except.pure] at h
        | ok a =>
          rw [hx] at h
          cases hxs : encEntriesWith (Json.encode wut fuel env o values) kv with
          | error err => rw [hxs] at h; simp [pure, Except.pure] at h
          | ok b =>
            rw [hxs] at h
            simp only [pure, Except.pure] at h
            cases h
            obtain ⟨acts, hps, hsim, e2, hrun, hstk, hcur, hrec, hout⟩ := hst
            let REP : Sym := .rep .mapEnd [.term .string none, .term .mapKeyMarker none, V]
            -- write_utf8(key): the string, then the key marker
            have hE : Entry st acts (.term .string none) (.term .mapKeyMarker none :: V :: REP :: rest) e2 := by
              refine ⟨fun k _ h2 e => ?_, hsim, hrun⟩
              rw [hps, advL_acts' k acts _ e hsim, advL_acts' k acts _ e hsim]
              cases runActs acts e with
              | error err => rfl
              | ok e' =>
                simp only
                exact advL_rep encAct k .mapEnd _ rest e' (by simpa [BEq.comm] using h2)
                  (advL_body_not_none encAct k [] .string none _ e')
            have hE2 : Entry ⟨.term .mapKeyMarker none :: V :: REP :: rest, e2⟩ [] (.term .mapKeyMarker none) (V :: REP :: rest) e2 :=
              entry_actual _ _ e2 [] _ _ rfl (by intro a h; cases h) rfl
            have hkey : st.writeUtf8 (.str s) = .ok ⟨V :: REP :: rest, { e2 with key := .str s }⟩ := by
              unfold ES.writeUtf8
              rw [adv_term hE rfl rfl]
              simp only [bind, Except.bind, Sym.isTerm, beq_self_eq_true, if_true]
              rw [adv_term hE2 rfl rfl]
              rfl
            -- the value
            have hfresh : s ∉ dictKeys kvs := by
              intro hin
              have : dictKeys (kvs ++ (Val.str s, a) :: b) = dictKeys kvs ++ s :: dictKeys b := by
                simp [dictKeys, List.filterMap_append]
              rw [this] at hnd
              exact (List.nodup_append.mp hnd).2.2 s hin s (by simp) rfl
            have hw : ({ e2 with key := Val.str s } : Enc).writeValue a = .ok { e2 with key := .str s, current := .dict (kvs ++ [(.str s, a)]) } := by
              unfold Enc.writeValue
              simp only [hcur, hse, Bool.false_eq_true, if_false]
              rw [valDictSet_fresh kvs s a hfresh]
            have hE3 : Entry ⟨V :: REP :: rest, { e2 with key := .str s }⟩ [] V (REP :: rest) { e2 with key := .str s } :=
              entry_actual _ _ _ [] _ _ rfl (by intro a h; cases h) rfl
            obtain ⟨st1, hm, acts', hps1, hs1, e4, hr1, hsame, _⟩ :=
              IH values x a hx (hko (.str s, a) (by simp)) none V hG hne _ [] _ _ _ hE3 ⟨_, _, rfl, rfl⟩ hw
                (by intro hc; simp [hcur] at hc) (by unfold curOk; simp [hcur])
            obtain ⟨hs_, hc_, hr_, ho_⟩ := hsame
            have hst1 : MapSt st1 rest V fr (kvs ++ [(.str s, a)]) recs out :=
              ⟨acts', hps1, hs1, e4, hr1, by rw [hs_]; exact hstk, by rw [hc_], by rw [hr_]; exact hrec, by rw [ho_]; exact hout⟩
            obtain ⟨st3, hm3, hst3⟩ := ih b hxs st1 (kvs ++ [(.str s, a)]) (by simpa [List.append_assoc] using hnd)
              (fun q hq => hko q (by simp [hq])) hst1
            refine ⟨st3, ?_, by simpa [List.append_assoc] using hst3⟩
            simp only [mEntriesWith, bind, Except.bind, hkey, hm]
            exact hm3
    | _ => all_goals simp [encEntriesWith, throw, throwThe, MonadExceptOf.throw] at h


/-! #### part 8 -/

theorem map_sound (wut : Bool) (env : Env) (o : WOpts) (fuel : Nat) (IH : Sound wut env o fuel)
    (values : Schema) (V : Sym) (hG : Gram env values none V) (hne : nonEmptyRec values = true)
    {st : ES} {acts rest : List Sym} {e1 e3 : Enc} {d : Option Val} (kv jkv : List (Val × Val))
    (hE : Entry st acts (.seq [.term .mapStart d, .rep .mapEnd [.term .string none, .term .mapKeyMarker none, V]]) rest e1)
    (hj : encEntriesWith (Json.encode wut fuel env o values) kv = .ok jkv) (hko : KeysOk (.dict jkv))
    (hw : e1.writeValue (.dict jkv) = .ok e3) (hk : keyOk e1) (hc : curOk e1) :
    ∃ st', (do let st ← st.mapStart
               let st ← mEntriesWith (mEncode wut fuel env o values) kv st
               st.mapEnd) = .ok st' ∧ Exit st' rest e3 := by
  have hstart : st.mapStart = .ok ⟨.rep .mapEnd [.term .string none, .term .mapKeyMarker none, V] :: rest, e1.objectStart⟩ := by
    unfold ES.mapStart
    rw [adv_term (entry_seq hE) rfl rfl]
    rfl
  have hst1 : MapSt ⟨.rep .mapEnd [.term .string none, .term .mapKeyMarker none, V] :: rest, e1.objectStart⟩ rest V
      ((e1.current, e1.key) :: e1.stack) [] e1.records e1.out := by
    refine ⟨[], rfl, ?_, e1.objectStart, rfl, rfl, rfl, rfl, rfl⟩
    intro a h; cases h
  have hnd : (dictKeys ([] ++ jkv)).Nodup ∧ ∀ p ∈ jkv, KeysOk p.2 := by
    cases hko with
    | dict _ _ h2 h3 => exact ⟨by simpa using h2, h3⟩
    | leaf _ h _ => exact absurd rfl (h jkv)
  obtain ⟨st2, hm, acts2, hps2, hs2, e2, hr2, hstk, hcur, hrec, hout⟩ :=
    entries_sound wut env o fuel IH values V hG hne rest _ _ _ kv jkv hj _ [] hnd.1 hnd.2 hst1
  simp only [List.nil_append] at hcur
  obtain ⟨e4, hpop, hsame, hk4⟩ := pop_eq_write e1 e3 e2 (.dict jkv) hw hk hc hstk hcur hrec hout
  have hend : st2.mapEnd = .ok ⟨rest, e4⟩ := by
    unfold ES.mapEnd
    rw [adv_rep_end hps2 hs2 hr2]
    simp only [bind, Except.bind, hpop]
    rfl
  refine ⟨⟨rest, e4⟩, ?_, exit_same rest e4 e3 hsame hk4⟩
  simp only [bind, Except.bind, hstart, hm, hend]

/-- branch symbols and labels line up with the branches -/
theorem gramList_get (env : Env) : ∀ (bs : List Schema) (syms : List Sym), GramList env bs syms →
    ∀ (i : Nat) (b : Schema), bs[i]? = some b → ∃ sym, syms[i]? = some sym ∧ Gram env b none sym := by
  intro bs
  induction bs with
  | nil => intro syms _ i b h; simp at h
  | cons b0 bs ih =>
    intro syms hg i b h
    cases hg with
    | cons _ _ x xs hx hxs =>
      cases i with
      | zero => simp at h; subst h; exact ⟨x, rfl, hx⟩
      | succ i => simp at h; simpa using ih xs hxs i b h

theorem gram_null (env : Env) (henv : EnvOk env) (b : Schema) (sym : Sym) (h : Gram env b none sym) :
    sym.isTerm .null = isNullBranch env b := by
  cases h with
  | null => rfl
  | prim p df lt d hp => cases p <;> simp_all [isNullBranch, unwrapRef, Sym.isTerm, primTK]
  | fixed => rfl
  | enum => rfl
  | array => rfl
  | map => rfl
  | union => rfl
  | record => rfl
  | ref n s' d g hget hg =>
    have hnd := (henv n s' hget).1
    simp only [isNullBranch, unwrapRef, hget, Option.getD]
    cases hg <;> simp_all [Schema.isNamedDef, Sym.isTerm]


/-! #### part 9 -/

theorem exit_append {st' : ES} {rest : List Sym} {a : Sym} {e3 e5 : Enc} (ha : simple a = true)
    (hx : Exit st' (a :: rest) e3)
    (hstep : ∀ e2, sameButKey e2 e3 → ∃ e4, encAct a e2 = .ok e4 ∧ sameButKey e4 e5 ∧ keyOk e4) : Exit st' rest e5 := by
  obtain ⟨acts', hps, hs, e2, hr, hsame, _⟩ := hx
  obtain ⟨e4, ha4, hs4, hk4⟩ := hstep e2 hsame
  refine ⟨acts' ++ [a], by simp [hps], ?_, e4, ?_, hs4, hk4⟩
  · intro b hb
    simp only [List.mem_append, List.mem_singleton] at hb
    rcases hb with hb | rfl
    · exact hs b hb
    · exact ha
  · rw [runActs_append, hr]
    simp only [runActs, ha4]

/-- a union: `write_index`, then the branch's value (wrapped in a one-member object unless null / bare) -/
theorem union_sound (wut : Bool) (env : Env) (henv : EnvOk env) (o : WOpts) (fuel : Nat) (IH : Sound wut env o fuel)
    (bs : List Schema) (syms : List Sym) (hgl : GramList env bs syms) (i : Nat) (b : Schema) (hb : bs[i]? = some b)
    (hne : nonEmptyRec b = true) (v' j J : Val) (hj : Json.encode wut fuel env o b v' = .ok j)
    (hJ : J = if isNullBranch env b || !wut then j else .dict [(.str (label b), j)]) (hko : KeysOk J)
    {st : ES} {acts rest : List Sym} {e1 e3 : Enc} {d : Option Val}
    (hE : Entry st acts (.seq [.term .union none, .alt syms (bs.map label) d]) rest e1) (hr : restOk rest)
    (hw : e1.writeValue J = .ok e3) (hk : keyOk e1) (hc : curOk e1) :
    ∃ st', (do let st ← st.writeIndex wut i
               mEncode wut fuel env o b v' st) = .ok st' ∧ Exit st' rest e3 := by
  obtain ⟨sym, hsym, hG⟩ := gramList_get env bs syms hgl i b hb
  have hlab : (bs.map label)[i]? = some (label b) := by simp [hb]
  have hnull := gram_null env henv b sym hG
  have hadv := adv_term (entry_seq hE) rfl rfl
  by_cases hcase : (isNullBranch env b || !wut) = true
  · -- no wrapper
    have hwi : st.writeIndex wut i = .ok ⟨sym :: rest, e1⟩ := by
      unfold ES.writeIndex
      rw [hadv]
      simp only [bind, Except.bind, List.cons_append, List.nil_append, hsym]
      have : (!(sym.isTerm .null) && wut) = false := by
        rw [hnull]; revert hcase; generalize isNullBranch env b = nb; cases nb <;> cases wut <;> decide
      simp only [this, Bool.false_eq_true, if_false]
      rfl
    have hJj : J = j := by rw [hJ]; simp [hcase]
    subst hJj
    have hE2 : Entry ⟨sym :: rest, e1⟩ [] sym rest e1 := entry_actual _ _ _ [] _ _ rfl (by intro a h; cases h) rfl
    obtain ⟨st1, hm, hx⟩ := IH b v' J hj hko none sym hG hne _ [] rest e1 e3 hE2 hr hw hk hc
    exact ⟨st1, by simp only [bind, Except.bind, hwi]; exact hm, hx⟩
  · -- wrapped: {label: value}
    have hcase' : (isNullBranch env b || !wut) = false := by simpa using hcase
    have hJd : J = .dict [(.str (label b), j)] := by rw [hJ]; simp [hcase']
    subst hJd
    have hwi : st.writeIndex wut i = .ok ⟨sym :: .unionEnd :: rest, { e1.objectStart with key := .str (label b) }⟩ := by
      unfold ES.writeIndex
      rw [hadv]
      simp only [bind, Except.bind, List.cons_append, List.nil_append, hsym]
      have : (!(sym.isTerm .null) && wut) = true := by
        rw [hnull]; revert hcase'; generalize isNullBranch env b = nb; cases nb <;> cases wut <;> decide
      simp only [this, if_true, hlab]
      rfl
    have hlabel : (label b).isEmpty = false ∧ KeysOk j := by
      cases hko with
      | dict _ h1 _ h3 =>
        obtain ⟨s, hs, hne⟩ := h1 (.str (label b), j) (by simp)
        simp only [Val.str.injEq] at hs
        subst hs
        exact ⟨by simpa [String.isEmpty_iff] using hne, h3 (.str (label b), j) (by simp)⟩
      | leaf _ h _ => exact absurd rfl (h _)
    let eo : Enc := { e1.objectStart with key := .str (label b) }
    have hw2 : eo.writeValue j = .ok { eo with current := .dict [(.str (label b), j)] } := by
      show Enc.writeValue { e1.objectStart with key := .str (label b) } j = _
      unfold Enc.writeValue Enc.objectStart
      simp only [hlabel.1, Bool.false_eq_true, if_false]
      rfl
    have hE2 : Entry ⟨sym :: .unionEnd :: rest, eo⟩ [] sym (.unionEnd :: rest) eo :=
      entry_actual _ _ _ [] _ _ rfl (by intro a h; cases h) rfl
    obtain ⟨st1, hm, hx⟩ := IH b v' j hj hlabel.2 none sym hG hne _ [] (.unionEnd :: rest) eo _ hE2 ⟨_, _, rfl, rfl⟩ hw2
      (by intro h; cases h) (by unfold curOk; trivial)
    refine ⟨st1, by simp only [bind, Except.bind, hwi]; exact hm, ?_⟩
    refine exit_append (a := .unionEnd) rfl hx ?_
    intro e2 hsame
    obtain ⟨hs_, hc_, hr_, ho_⟩ := hsame
    exact pop_eq_write e1 e3 e2 _ hw hk hc (by rw [hs_]; rfl) (by rw [hc_]) (by rw [hr_]; rfl) (by rw [ho_]; rfl)


/-! #### part 10 -/

/-- state of the encoder inside a record: pending actions `acts` on top of `tail`; once executed: frame below,
    members so far -/
def RecSt (st : ES) (tail : List Sym) (fr : List (Val × Val)) (kvs : List (Val × Val)) (recs : List Val)
    (out : Option (List Val)) : Prop :=
  ∃ acts, st.ps = acts ++ tail ∧ (∀ a ∈ acts, simple a = true) ∧
    ∃ e2, runActs acts st.e = .ok e2 ∧ e2.stack = fr ∧ e2.current = .dict kvs ∧ e2.records = recs ∧ e2.out = out

/-- one field: FieldStart, the value, FieldEnd.  The precondition only asks that the stack *behaves* like
    `acts ++ FieldStart :: T :: FieldEnd :: tail` (the record's production may still be folded). -/
theorem field_sound (wut : Bool) (env : Env) (o : WOpts) (fuel : Nat) (IH : Sound wut env o fuel)
    (fld : Field) (T : Sym) (hG : Gram env fld.type fld.default T) (hne : nonEmptyRec fld.type = true)
    (v a : Val) (hj : Json.encode wut fuel env o fld.type v = .ok a) (hko : KeysOk a) (hname : fld.name.isEmpty = false)
    (st : ES) (acts tail : List Sym) (ea : Enc) (kvs : List (Val × Val)) (hfresh : fld.name ∉ dictKeys kvs)
    (heqv : ∀ k, (k == TK.arrayEnd) = false → (k == TK.mapEnd) = false → ∀ e,
      advL encAct k st.ps e = advL encAct k (acts ++ .fieldStart fld.name :: T :: .fieldEnd :: tail) e)
    (hs : ∀ x ∈ acts, simple x = true) (hr : runActs acts st.e = .ok ea) (hcur : ea.current = .dict kvs) :
    ∃ st', mEncode wut fuel env o fld.type v st = .ok st' ∧
      RecSt st' tail ea.stack (kvs ++ [(.str fld.name, a)]) ea.records ea.out := by
  let eb : Enc := { ea with key := .str fld.name }
  have hE : Entry st (acts ++ [.fieldStart fld.name]) T (.fieldEnd :: tail) eb := by
    refine ⟨fun k h1 h2 e => ?_, ?_, ?_⟩
    · rw [heqv k h1 h2 e]; simp [List.append_assoc]
    · intro x hx
      simp only [List.mem_append, List.mem_singleton] at hx
      rcases hx with hx | rfl
      · exact hs x hx
      · rfl
    · rw [runActs_append, hr]; rfl
  have hw : eb.writeValue a = .ok { eb with current := .dict (kvs ++ [(.str fld.name, a)]) } := by
    show Enc.writeValue { ea with key := .str fld.name } a = _
    unfold Enc.writeValue
    simp only [hcur, hname, Bool.false_eq_true, if_false]
    rw [valDictSet_fresh kvs _ a hfresh]
  obtain ⟨st1, hm, acts', hps1, hs1, e2, hr1, hsame, _⟩ :=
    IH fld.type v a hj hko fld.default T hG hne st _ (.fieldEnd :: tail) eb _ hE ⟨_, _, rfl, rfl⟩ hw
      (by intro h; simp [eb, hcur] at h) (by unfold curOk; simp [eb, hcur])
  obtain ⟨hs_, hc_, hr_, ho_⟩ := hsame
  refine ⟨st1, hm, acts' ++ [.fieldEnd], by simp [hps1], ?_, e2, ?_, by rw [hs_], by rw [hc_], by rw [hr_], by rw [ho_]⟩
  · intro x hx
    simp only [List.mem_append, List.mem_singleton] at hx
    rcases hx with hx | rfl
    · exact hs1 x hx
    · rfl
  · rw [runActs_append, hr1]; rfl

theorem nonEmptyRecF_cons (fld : Field) (fs : List Field) :
    nonEmptyRecF (fld :: fs) = (nonEmptyRec fld.type && nonEmptyRecF fs) := by
  cases fld; rfl

/-- the field loop of `write_record`, from a stack that has the remaining production on it -/
theorem fields_sound (wut : Bool) (env : Env) (o : WOpts) (fuel : Nat) (IH : Sound wut env o fuel)
    (kv : List (Val × Val)) (rest : List Sym) (fr : List (Val × Val)) (recs : List Val) (out : Option (List Val)) :
    ∀ (fields : List Field) (body : List Sym), GramFields env fields body → nonEmptyRecF fields = true →
    ∀ (jkv : List (Val × Val)), encFieldsWith (Json.encode wut fuel env o) fields kv = .ok jkv →
    ∀ (st : ES) (kvs : List (Val × Val)), (dictKeys (kvs ++ jkv)).Nodup → (∀ p ∈ jkv, ∃ s, p.1 = Val.str s ∧ s ≠ "") →
      (∀ p ∈ jkv, KeysOk p.2) → RecSt st (body ++ rest) fr kvs recs out →
    ∃ st', mFieldsWith (mEncode wut fuel env o) fields kv st = .ok st' ∧
      RecSt st' (.recordEnd :: rest) fr (kvs ++ jkv) recs out := by
  intro fields
  induction fields with
  | nil =>
    intro body hg _ jkv h st kvs _ _ _ hst
    cases hg
    simp [encFieldsWith, pure, Except.pure] at h
    subst h
    exact ⟨st, rfl, by simpa using hst⟩
  | cons fld fs ih =>
    intro body hg hne jkv h st kvs hnd hks hko hst
    cases hg with
    | cons _ _ T more hT hmore =>
      rw [nonEmptyRecF_cons] at hne
      simp only [Bool.and_eq_true] at hne
      simp only [encFieldsWith, bind, Except.bind] at h
      cases hco : fieldCoerce fld.type (presentOrDefault kv fld) with
      | error err => rw [hco] at h; cases h
      | ok dv =>
        rw [hco] at h
        simp only at h
        cases hx : Json.encode wut fuel env o fld.type dv with
        | error err => rw [hx] at h; cases h
        | ok a =>
          rw [hx] at h
          simp only at h
          cases hxs : encFieldsWith (Json.encode wut fuel env o) fs kv with
          | error err => rw [hxs] at h; cases h
          | ok b =>
            rw [hxs] at h
            simp only [pure, Except.pure] at h
            cases h
            obtain ⟨acts, hps, hsim, ea, hrun, hstk, hcur, hrec, hout⟩ := hst
            have hname : fld.name.isEmpty = false := by
              obtain ⟨s, hs, hne'⟩ := hks (.str fld.name, a) (by simp)
              simp only [Val.str.injEq] at hs
              subst hs
              simpa [String.isEmpty_iff] using hne'
            have hfresh : fld.name ∉ dictKeys kvs := by
              intro hin
              have : dictKeys (kvs ++ (Val.str fld.name, a) :: b) = dictKeys kvs ++ fld.name :: dictKeys b := by
                simp [dictKeys, List.filterMap_append]
              rw [this] at hnd
              exact (List.nodup_append.mp hnd).2.2 fld.name hin fld.name (by simp) rfl
            obtain ⟨st1, hm, hst1⟩ := field_sound wut env o fuel IH fld T hT hne.1 dv a hx
              (hko (.str fld.name, a) (by simp)) hname st acts (more ++ rest) ea kvs hfresh
              (fun k _ _ e => by rw [hps]; simp [List.append_assoc]) hsim hrun hcur
            rw [hstk, hrec, hout] at hst1
            obtain ⟨st3, hm3, hst3⟩ := ih more hmore hne.2 b hxs st1 (kvs ++ [(.str fld.name, a)])
              (by simpa [List.append_assoc] using hnd) (fun q hq => hks q (by simp [hq])) (fun q hq => hko q (by simp [hq])) hst1
            refine ⟨st3, ?_, by simpa [List.append_assoc] using hst3⟩
            simp only [mFieldsWith, bind, Except.bind, hco, hm]
            exact hm3


/-! #### part 11 -/

theorem contains_indexOf (syms : List String) (x : String) (h : syms.contains x = true) : ∃ i, indexOf? syms x = some i := by
  unfold indexOf?
  simp only
  have : List.findIdx (fun y => y == x) syms < syms.length := by
    apply List.findIdx_lt_length_of_exists
    simp only [List.contains_iff_mem] at h
    exact ⟨x, h, by simp⟩
  exact ⟨List.findIdx (fun y => y == x) syms, by simp [this]⟩

/-- a record: RecordStart, the fields, RecordEnd -/
theorem record_sound (wut : Bool) (env : Env) (o : WOpts) (fuel : Nat) (IH : Sound wut env o fuel)
    (fields : List Field) (body : List Sym) (hg : GramFields env fields body) (hne : (!fields.isEmpty && nonEmptyRecF fields) = true)
    (kv jkv : List (Val × Val)) (hj : encFieldsWith (Json.encode wut fuel env o) fields kv = .ok jkv) (hko : KeysOk (.dict jkv))
    {st : ES} {acts rest : List Sym} {e1 e3 : Enc} {d : Option Val}
    (hE : Entry st acts (.seq (.recordStart d :: body)) rest e1)
    (hw : e1.writeValue (.dict jkv) = .ok e3) (hk : keyOk e1) (hc : curOk e1) :
    ∃ st', mFieldsWith (mEncode wut fuel env o) fields kv st = .ok st' ∧ Exit st' rest e3 := by
  have hparts : (∀ p ∈ jkv, ∃ s, p.1 = Val.str s ∧ s ≠ "") ∧ (dictKeys jkv).Nodup ∧ ∀ p ∈ jkv, KeysOk p.2 := by
    cases hko with
    | dict _ h1 h2 h3 => exact ⟨h1, h2, h3⟩
    | leaf _ h _ => exact absurd rfl (h jkv)
  cases fields with
  | nil => simp at hne
  | cons fld fs =>
    simp only [List.isEmpty_cons, Bool.not_false, Bool.true_and] at hne
    rw [nonEmptyRecF_cons] at hne
    simp only [Bool.and_eq_true] at hne
    cases hg with
    | cons _ _ T more hT hmore =>
      simp only [encFieldsWith, bind, Except.bind] at hj
      cases hco : fieldCoerce fld.type (presentOrDefault kv fld) with
      | error err => rw [hco] at hj; cases hj
      | ok dv =>
        rw [hco] at hj
        simp only at hj
        cases hx : Json.encode wut fuel env o fld.type dv with
        | error err => rw [hx] at hj; cases hj
        | ok a =>
          rw [hx] at hj
          simp only at hj
          cases hxs : encFieldsWith (Json.encode wut fuel env o) fs kv with
          | error err => rw [hxs] at hj; cases hj
          | ok b =>
            rw [hxs] at hj
            simp only [pure, Except.pure] at hj
            cases hj
            have hname : fld.name.isEmpty = false := by
              obtain ⟨s, hs, hne'⟩ := hparts.1 (.str fld.name, a) (by simp)
              simp only [Val.str.injEq] at hs
              subst hs
              simpa [String.isEmpty_iff] using hne'
            have hseq := entry_seq hE
            obtain ⟨st1, hm, hst1⟩ := field_sound wut env o fuel IH fld T hT hne.1 dv a hx
              (hparts.2.2 (.str fld.name, a) (by simp)) hname st (acts ++ [.recordStart d]) (more ++ rest) e1.objectStart []
              (by simp [dictKeys])
              (fun k h1 h2 e => by rw [hseq.eqv k h1 h2 e]; simp [List.append_assoc])
              (by
                intro x hx'
                simp only [List.mem_append, List.mem_singleton] at hx'
                rcases hx' with hx' | rfl
                · exact hE.simp x hx'
                · rfl)
              (by rw [runActs_append, hE.run]; rfl) rfl
            obtain ⟨st3, hm3, acts3, hps3, hs3, e4, hr3, hstk, hcur, hrec, hout⟩ :=
              fields_sound wut env o fuel IH kv rest _ _ _ fs more hmore hne.2 b hxs st1 ([] ++ [(.str fld.name, a)])
                (by simpa using hparts.2.1) (fun q hq => hparts.1 q (by simp [hq])) (fun q hq => hparts.2.2 q (by simp [hq])) hst1
            refine ⟨st3, ?_, ?_⟩
            · simp only [mFieldsWith, bind, Except.bind, hco, hm]
              exact hm3
            · have hx3 : Exit st3 (.recordEnd :: rest) { e4 with key := e4.key } :=
                ⟨acts3, hps3, hs3, e4, hr3, sameButKey_refl e4, by intro h; rw [hcur] at h; cases h⟩
              refine exit_append (a := .recordEnd) rfl hx3 ?_
              intro e2 hsame
              obtain ⟨hs_, hc_, hr_, ho_⟩ := hsame
              exact pop_eq_write e1 e3 e2 (.dict ((.str fld.name, a) :: b)) hw hk hc (by rw [hs_]; exact hstk)
                (by rw [hc_]; simpa using hcur) (by rw [hr_]; exact hrec) (by rw [ho_]; exact hout)


/-! #### part 12 -/

theorem primTK_nonEnd (p : Prim) : (primTK p == TK.arrayEnd) = false ∧ (primTK p == TK.mapEnd) = false := by
  cases p <;> exact ⟨rfl, rfl⟩

theorem nonEmptyRecL_get : ∀ (bs : List Schema) (i : Nat) (b : Schema), nonEmptyRecL bs = true → bs[i]? = some b →
    nonEmptyRec b = true := by
  intro bs
  induction bs with
  | nil => intro i b _ h; simp at h
  | cons b0 bs ih =>
    intro i b hne h
    simp only [nonEmptyRecL, Bool.and_eq_true] at hne
    cases i with
    | zero => simp at h; subst h; exact hne.1
    | succ i => simp at h; exact ih i b hne.2 h

/-- **The grammar machine computes the function-level encoding.**  For every schema, datum and nesting depth: if the
    function-level JSON encoder (`Json.encode`, proved equal to the specification's encoding in `c15_encode_eq_spec`)
    yields `j`, then the writer's traversal driving the push-down machine — grammar stack, lazily executed actions,
    the encoder's frame stack with its stale keys — ends with `j` written into the place where the value belongs,
    having consumed exactly this value's symbol from the stack. -/
theorem sound_all (wut : Bool) (env : Env) (henv : EnvOk env) (o : WOpts) : ∀ fuel, Sound wut env o fuel := by
  intro fuel
  induction fuel with
  | zero => intro s v j hj; simp [Json.encode] at hj
  | succ fuel IH =>
    intro s v j hj hko d G hG hne st acts rest e1 e3 hE hr hw hk hc
    cases s with
    | prim p df lt =>
      cases lt with
      | some l => simp [Json.encode, throw, throwThe, MonadExceptOf.throw] at hj
      | none =>
        simp only [Json.encode] at hj
        simp only [mEncode, hj, bind, Except.bind]
        cases hG with
        | null =>
          have : (Prim.null == Prim.string) = false := rfl
          simp only [this, Bool.false_eq_true, if_false]
          exact leaf_sound hE rfl rfl hw hk
        | prim _ _ _ _ hp =>
          by_cases hs : (p == Prim.string) = true
          · simp only [hs, if_true]
            have : p = .string := by simpa using hs
            subst this
            exact utf8_sound hE hr hw hk
          · simp only [hs, Bool.false_eq_true, if_false]
            exact leaf_sound hE (primTK_nonEnd p).1 (primTK_nonEnd p).2 hw hk
    | fixed n sz lt al =>
      cases lt with
      | some l => simp [Json.encode, throw, throwThe, MonadExceptOf.throw] at hj
      | none =>
        cases hG
        cases v with
        | bytes b =>
          simp only [Json.encode, pure, Except.pure] at hj
          cases hj
          simp only [mEncode]
          exact leaf_sound hE rfl rfl hw hk
        | _ => all_goals simp [Json.encode, throw, throwThe, MonadExceptOf.throw] at hj
    | enum n syms dflt al =>
      cases hG
      cases v with
      | str x =>
        simp only [Json.encode] at hj
        by_cases hc' : syms.contains x = true
        · simp only [hc', if_true, pure, Except.pure] at hj
          cases hj
          obtain ⟨i, hi⟩ := contains_indexOf syms x hc'
          simp only [mEncode, hi]
          exact enum_sound hE hi hw hk
        · have hcf : syms.contains x = false := by simpa using hc'
          rw [hcf] at hj
          simp only [Bool.false_eq_true, if_false] at hj
          cases hj
      | _ => all_goals simp [Json.encode, throw, throwThe, MonadExceptOf.throw] at hj
    | array items =>
      cases hG with
      | array _ _ I hI =>
        simp only [nonEmptyRec] at hne
        have key : ∀ xs, iterItems? v = some xs → ∀ js, encItemsWith (Json.encode wut fuel env o items) xs = .ok js → j = .list js →
            ∃ st', mEncode wut (fuel + 1) env o (.array items) v st = .ok st' ∧ Exit st' rest e3 := by
          intro xs hit js hjs hjl
          subst hjl
          have hko' : ∀ x ∈ js, KeysOk x := by
            cases hko with
            | list _ h => exact h
            | leaf _ _ h => exact absurd rfl (h js)
          simp only [mEncode, hit]
          exact array_sound wut env o fuel IH items I hI hne xs js hE hjs hko' hw hk hc
        cases v with
        | list xs =>
          simp only [Json.encode, bind, Except.bind] at hj
          cases hjs : encItemsWith (Json.encode wut fuel env o items) xs with
          | error err => rw [hjs] at hj; cases hj
          | ok js => rw [hjs] at hj; simp only [pure, Except.pure] at hj; cases hj; exact key xs rfl js hjs rfl
        | tuple xs =>
          simp only [Json.encode, bind, Except.bind] at hj
          cases hjs : encItemsWith (Json.encode wut fuel env o items) xs with
          | error err => rw [hjs] at hj; cases hj
          | ok js => rw [hjs] at hj; simp only [pure, Except.pure] at hj; cases hj; exact key xs rfl js hjs rfl
        | _ => all_goals simp [Json.encode, throw, throwThe, MonadExceptOf.throw] at hj
    | map values =>
      cases hG with
      | map _ _ V hV =>
        simp only [nonEmptyRec] at hne
        cases v with
        | dict kv =>
          simp only [Json.encode, bind, Except.bind] at hj
          cases hjs : encEntriesWith (Json.encode wut fuel env o values) kv with
          | error err => rw [hjs] at hj; cases hj
          | ok jkv =>
            rw [hjs] at hj
            simp only [pure, Except.pure] at hj
            cases hj
            simp only [mEncode]
            exact map_sound wut env o fuel IH values V hV hne kv jkv hE hjs hko hw hk hc
        | _ => all_goals simp [Json.encode, throw, throwThe, MonadExceptOf.throw] at hj
    | union bs =>
      cases hG with
      | union _ _ syms hgl =>
        simp only [nonEmptyRec] at hne
        simp only [Json.encode, bind, Except.bind] at hj
        cases hch : choose fuel env o bs v with
        | error err => rw [hch] at hj; cases hj
        | ok iv =>
          obtain ⟨i, v'⟩ := iv
          rw [hch] at hj
          simp only at hj
          cases hb : bs[i]? with
          | none => rw [hb] at hj; simp [throw, throwThe, MonadExceptOf.throw] at hj
          | some b =>
            rw [hb] at hj
            simp only at hj
            cases hjb : Json.encode wut fuel env o b v' with
            | error err => rw [hjb] at hj; cases hj
            | ok jb =>
              rw [hjb] at hj
              simp only at hj
              have hJ : j = if isNullBranch env b || !wut then jb else .dict [(.str (label b), jb)] := by
                by_cases hcase : (isNullBranch env b || !wut) = true
                · simp only [hcase, if_true, pure, Except.pure] at hj; cases hj; simp [hcase]
                · simp only [hcase, Bool.false_eq_true, if_false, pure, Except.pure] at hj; cases hj; simp [hcase]
              simp only [mEncode, hch, hb, bind, Except.bind]
              exact union_sound wut env henv o fuel IH bs syms hgl i b hb (nonEmptyRecL_get bs i b hne hb) v' jb j hjb hJ hko
                hE hr hw hk hc
    | record n fields al =>
      cases hG with
      | record _ _ _ _ body hgf =>
        simp only [nonEmptyRec] at hne
        cases v with
        | dict kv =>
          simp only [Json.encode, bind, Except.bind] at hj
          cases hjs : encFieldsWith (Json.encode wut fuel env o) fields kv with
          | error err => rw [hjs] at hj; cases hj
          | ok jkv =>
            rw [hjs] at hj
            simp only [pure, Except.pure] at hj
            cases hj
            simp only [mEncode]
            exact record_sound wut env o fuel IH fields body hgf hne kv jkv hjs hko hE hw hk hc
        | _ => all_goals simp [Json.encode, throw, throwThe, MonadExceptOf.throw] at hj
    | ref n =>
      cases hG with
      | ref _ s' _ _ hget hg' =>
        simp only [Json.encode, hget] at hj
        simp only [mEncode, hget]
        exact IH s' v j hj hko d G hg' (henv n s' hget).2 st acts rest e1 e3 hE hr hw hk hc


/-! #### part 13 -/

theorem advS_term_not_none {σ : Type} (act : Sym → σ → R σ) (k k' : TK) (d : Option Val) (e e' : σ) :
    advS act k (.term k' d) e ≠ .ok (none, e') := by
  simp only [advS]
  by_cases h : (k' == k) = true <;> simp [h]

theorem advL_term_head_not_none {σ : Type} (act : Sym → σ → R σ) (k k' : TK) (d : Option Val) (tl : List Sym) (e e' : σ) :
    advL act k (.term k' d :: tl) e ≠ .ok (none, e') := by
  simp only [advL, advS]
  by_cases h : (k' == k) = true <;> simp [h]

/-- the symbol of a schema whose records all have fields always leads to a terminal: an `advance` never uses it up -/
theorem gram_not_none (env : Env) (henv : EnvOk env) : ∀ {s : Schema} {d : Option Val} {G : Sym}, Gram env s d G →
    nonEmptyRec s = true → ∀ (k : TK) (e e' : Enc), advS encAct k G e ≠ .ok (none, e')
  | _, _, _, .null _ _ _, _, k, e, e' => advS_term_not_none encAct k _ _ e e'
  | _, _, _, .prim _ _ _ _ _, _, k, e, e' => advS_term_not_none encAct k _ _ e e'
  | _, _, _, .fixed _ _ _ _ _, _, k, e, e' => advS_term_not_none encAct k _ _ e e'
  | _, _, _, .enum _ _ _ _ _, _, k, e, e' => by simp only [advS]; exact advL_term_head_not_none encAct k _ _ _ e e'
  | _, _, _, .array _ _ _ _, _, k, e, e' => by simp only [advS]; exact advL_term_head_not_none encAct k _ _ _ e e'
  | _, _, _, .map _ _ _ _, _, k, e, e' => by simp only [advS]; exact advL_term_head_not_none encAct k _ _ _ e e'
  | _, _, _, .union _ _ _ _, _, k, e, e' => by simp only [advS]; exact advL_term_head_not_none encAct k _ _ _ e e'
  | _, _, _, .ref n s' _ _ hget hg, _, k, e, e' => gram_not_none env henv hg (henv n s' hget).2 k e e'
  | _, _, _, .record _ _ _ d _ .nil, hne, _, _, _ => by simp [nonEmptyRec] at hne
  | _, _, _, .record _ _ _ d _ (.cons f rest t more ht _), hne, k, e, e' => by
    have hnef : nonEmptyRec f.type = true := by
      simp only [nonEmptyRec, List.isEmpty_cons, Bool.not_false, Bool.true_and] at hne
      rw [nonEmptyRecF_cons] at hne
      simp only [Bool.and_eq_true] at hne
      exact hne.1
    have ih := gram_not_none env henv ht hnef k
    simp only [advS, advL, encAct, bind, Except.bind, pure, Except.pure]
    cases h : advS encAct k t { e.objectStart with key := .str f.name } with
    | error x => simp
    | ok r =>
      obtain ⟨o, e''⟩ := r
      cases o with
      | none => exact absurd h (ih _ _)
      | some p => simp

/-- after a whole datum the root symbol is on top again: it behaves like a fresh `symbol, root` -/
theorem root_eqv (env : Env) (henv : EnvOk env) {s : Schema} {d : Option Val} {G : Sym} (hG : Gram env s d G)
    (hne : nonEmptyRec s = true) (acts : List Sym) (hs : ∀ a ∈ acts, simple a = true) (k : TK) (e : Enc) :
    advL encAct k (acts ++ [.root G]) e = advL encAct k (acts ++ G :: [.root G]) e := by
  rw [advL_acts' k acts _ e hs, advL_acts' k acts _ e hs]
  cases runActs acts e with
  | error x => rfl
  | ok e1 =>
    simp only [advL, advS]
    cases h : advS encAct k G e1 with
    | error x => rfl
    | ok r =>
      obtain ⟨o, e''⟩ := r
      cases o with
      | none => exact absurd h (gram_not_none env henv hG hne k e1 e'')
      | some p => obtain ⟨y, rem⟩ := p; simp

theorem flush_acts (acts : List Sym) (G : Sym) (e e2 : Enc) (hs : ∀ a ∈ acts, simple a = true) (hr : runActs acts e = .ok e2) :
    flush (acts ++ [.root G]) e = .ok { e2 with out := some e2.records } := by
  induction acts generalizing e with
  | nil =>
    simp only [runActs] at hr
    cases hr
    simp [flush, encAct, bind, Except.bind]
  | cons a as ih =>
    have ha := hs a (by simp)
    simp only [runActs] at hr
    cases h : encAct a e with
    | error x => rw [h] at hr; cases hr
    | ok e' =>
      rw [h] at hr
      have := ih e' (fun b hb => hs b (by simp [hb])) hr
      cases a <;> simp [simple] at ha <;> simp only [List.cons_append, flush, Sym.isAction, if_true, bind, Except.bind, h] <;> exact this

/-- corresponding lists -/
inductive Pairwise2 (P : Val → Val → Prop) : List Val → List Val → Prop
  | nil : Pairwise2 P [] []
  | cons {v j vs js} : P v j → Pairwise2 P vs js → Pairwise2 P (v :: vs) (j :: js)

/-- the state between two data of one `json_writer` call (`fresh`: before the first datum, the start symbol is
    still on the stack) -/
def TopSt (fresh : Bool) (st : ES) (G : Sym) (recs : List Val) : Prop :=
  ∃ acts, (∀ a ∈ acts, simple a = true) ∧ st.ps = (if fresh then acts ++ [G, .root G] else acts ++ [.root G]) ∧
    ∃ e2, runActs acts st.e = .ok e2 ∧ e2.stack = [] ∧ e2.current = .none ∧ e2.key = .none ∧ e2.records = recs ∧ e2.out = none

theorem one_sound (wut : Bool) (env : Env) (henv : EnvOk env) (o : WOpts) (fuel : Nat) (s : Schema) (G : Sym)
    (hG : Gram env s none G) (hne : nonEmptyRec s = true) (v j : Val) (hj : Json.encode wut fuel env o s v = .ok j) (hko : KeysOk j)
    (fresh : Bool) (st : ES) (recs : List Val) (hst : TopSt fresh st G recs) :
    ∃ st', mEncode wut fuel env o s v st = .ok st' ∧ TopSt false st' G (recs ++ [j]) := by
  obtain ⟨acts, hs, hps, e2, hr, hstk, hcur, hkey, hrec, hout⟩ := hst
  have hE : Entry st acts G [.root G] e2 := by
    refine ⟨fun k _ _ e => ?_, hs, hr⟩
    cases fresh with
    | false => simp only [Bool.false_eq_true, if_false] at hps; rw [hps]; exact root_eqv env henv hG hne acts hs k e
    | true => simp only [if_true] at hps; rw [hps]
  have hw : e2.writeValue j = .ok { e2 with records := e2.records ++ [j] } := by
    unfold Enc.writeValue; rw [hcur]
  obtain ⟨st1, hm, acts', hps1, hs1, e4, hr1, hsame, hk4⟩ :=
    sound_all wut env henv o fuel s v j hj hko none G hG hne st acts [.root G] e2 _ hE ⟨_, _, rfl, rfl⟩ hw
      (fun _ => hkey) (by unfold curOk; rw [hcur]; trivial)
  obtain ⟨hs_, hc_, hr_, ho_⟩ := hsame
  exact ⟨st1, hm, acts', hs1, by simpa using hps1, e4, hr1, by rw [hs_]; exact hstk, by rw [hc_]; exact hcur,
    hk4 (by rw [hc_]; exact hcur), by rw [hr_]; simp [hrec], by rw [ho_]; exact hout⟩

theorem all_sound (wut : Bool) (env : Env) (henv : EnvOk env) (o : WOpts) (fuel : Nat) (s : Schema) (G : Sym)
    (hG : Gram env s none G) (hne : nonEmptyRec s = true) :
    ∀ (vs js : List Val), Pairwise2 (fun v j => Json.encode wut fuel env o s v = .ok j ∧ KeysOk j) vs js →
    ∀ (st : ES) (recs : List Val), TopSt false st G recs →
    ∃ st', mEncodeAllFrom wut fuel env o s vs st = .ok st' ∧ TopSt false st' G (recs ++ js) := by
  intro vs js hall
  induction hall with
  | nil => intro st recs hst; exact ⟨st, rfl, by simpa using hst⟩
  | cons hvj _ ih =>
    intro st recs hst
    obtain ⟨st1, hm, hst1⟩ := one_sound wut env henv o fuel s G hG hne _ _ hvj.1 hvj.2 false st recs hst
    obtain ⟨st3, hm3, hst3⟩ := ih st1 _ hst1
    refine ⟨st3, ?_, by simpa [List.append_assoc] using hst3⟩
    simp only [mEncodeAllFrom, bind, Except.bind, hm]
    exact hm3

/-- **`json_writer` on a non-empty list of records** (model `JM.encodeAll`: grammar built from the schema, every record
    driven through the machine, `flush`): the documents written are exactly the function-level encodings, in order. -/
theorem encodeAll_sound (wut : Bool) (env : Env) (henv : EnvOk env) (o : WOpts) (fuel : Nat) (s : Schema) (G : Sym)
    (hG : Gram env s none G) (hne : nonEmptyRec s = true) (hinit : initialStack fuel env s = .ok [G, .root G])
    (v j : Val) (vs js : List Val)
    (hall : Pairwise2 (fun v j => Json.encode wut fuel env o s v = .ok j ∧ KeysOk j) (v :: vs) (j :: js)) :
    encodeAll wut fuel env o s (v :: vs) = .ok (j :: js) := by
  cases hall with
  | cons hvj hrest =>
    have h0 : TopSt true ⟨[G, .root G], {}⟩ G [] := by
      refine ⟨[], ?_, rfl, {}, rfl, rfl, rfl, rfl, rfl, rfl⟩
      intro a h; cases h
    obtain ⟨st1, hm1, hst1⟩ := one_sound wut env henv o fuel s G hG hne v j hvj.1 hvj.2 true _ [] h0
    obtain ⟨st2, hm2, acts, hs, hps, e2, hr, _, _, _, hrec, hout⟩ := all_sound wut env henv o fuel s G hG hne vs js hrest st1 _ hst1
    simp only [Bool.false_eq_true, if_false] at hps
    unfold encodeAll
    simp only [hinit, bind, Except.bind, mEncodeAllFrom, hm1, hm2, hps, flush_acts acts G st2.e e2 hs hr, hrec, pure, Except.pure]
    simp


/-! #### part 14 -/

mutual
/-- no record has a field whose type "contains" (in the sense of Python's `in`) the record's own name: then
    `Parser._process_record` never forces a production to null -/
def noSelf : Schema → Bool
  | .record n fields _ => noSelfF n fields
  | .array i => noSelf i
  | .map v => noSelf v
  | .union bs => noSelfL bs
  | _ => true
def noSelfL : List Schema → Bool
  | [] => true
  | b :: bs => noSelf b && noSelfL bs
def noSelfF (n : String) : List Field → Bool
  | [] => true
  | .mk _ t _ _ :: fs => !nameInType n t && noSelf t && noSelfF n fs
end

def EnvNoSelf (env : Env) : Prop := ∀ n d, env.get? n = some d → noSelf d = true

theorem noSelfF_cons (n : String) (f : Field) (fs : List Field) :
    noSelfF n (f :: fs) = (!nameInType n f.type && noSelf f.type && noSelfF n fs) := by
  cases f; rfl

def BuildA (env : Env) (fuel : Nat) : Prop :=
  ∀ proc s d g proc', build fuel env proc s d = .ok (g, proc') → noSelf s = true → Gram env s d g

theorem buildFields_gram (env : Env) (fuel : Nat) (hA : BuildA env fuel) (n : String) :
    ∀ (fields : List Field) (proc : List String) (again : Option String) (body : List Sym) (proc' : List String),
      buildFieldsWith (build fuel env) again proc fields = .ok (body, proc') → noSelfF n fields = true →
      (again = none ∨ again = some n) → GramFields env fields body := by
  intro fields
  induction fields with
  | nil =>
    intro proc again body proc' h _ _
    simp only [buildFieldsWith, pure, Except.pure, Except.ok.injEq, Prod.mk.injEq] at h
    obtain ⟨rfl, _⟩ := h
    exact .nil
  | cons f fs ih =>
    intro proc again body proc' h hns hag
    rw [noSelfF_cons] at hns
    simp only [Bool.and_eq_true, Bool.not_eq_true'] at hns
    have key : ∀ (rest : R (Sym × List String)), rest = build fuel env proc f.type f.default →
        (match rest with
          | .ok (t, proc1) => (match buildFieldsWith (build fuel env) again proc1 fs with
              | .ok (more, proc2) => (.ok (Sym.fieldStart f.name :: t :: Sym.fieldEnd :: more, proc2) : R (List Sym × List String))
              | .error x => .error x)
          | .error x => .error x) = .ok (body, proc') → GramFields env (f :: fs) body := by
      intro r hr hres
      cases hb : r with
      | error x => rw [hb] at hres; cases hres
      | ok tp =>
        obtain ⟨t, proc1⟩ := tp
        rw [hb] at hres
        simp only at hres
        cases hbf : buildFieldsWith (build fuel env) again proc1 fs with
        | error x => rw [hbf] at hres; cases hres
        | ok mp =>
          obtain ⟨more, proc2⟩ := mp
          rw [hbf] at hres
          simp only [Except.ok.injEq, Prod.mk.injEq] at hres
          obtain ⟨rfl, _⟩ := hres
          exact .cons f fs t more (hA proc f.type f.default t proc1 (by rw [← hr, hb]) hns.1.2) (ih proc1 again more proc2 hbf hns.2 hag)
    rcases hag with rfl | rfl
    · simp only [buildFieldsWith, bind, Except.bind] at h
      apply key _ rfl
      cases hb : build fuel env proc f.type f.default with
      | error x => rw [hb] at h; cases h
      | ok tp =>
        rw [hb] at h
        obtain ⟨t, proc1⟩ := tp
        simp only at h ⊢
        cases hbf : buildFieldsWith (build fuel env) none proc1 fs with
        | error x => rw [hbf] at h; cases h
        | ok mp => rw [hbf] at h; obtain ⟨more, proc2⟩ := mp; simpa [pure, Except.pure] using h
    · simp only [buildFieldsWith, hns.1.1, Bool.false_eq_true, if_false, bind, Except.bind] at h
      apply key _ rfl
      cases hb : build fuel env proc f.type f.default with
      | error x => rw [hb] at h; cases h
      | ok tp =>
        rw [hb] at h
        obtain ⟨t, proc1⟩ := tp
        simp only at h ⊢
        cases hbf : buildFieldsWith (build fuel env) (some n) proc1 fs with
        | error x => rw [hbf] at h; cases h
        | ok mp => rw [hbf] at h; obtain ⟨more, proc2⟩ := mp; simpa [pure, Except.pure] using h

theorem buildList_gram (env : Env) (fuel : Nat) (hA : BuildA env fuel) :
    ∀ (bs : List Schema) (proc : List String) (syms : List Sym) (proc' : List String),
      buildListWith (build fuel env) proc bs = .ok (syms, proc') → noSelfL bs = true → GramList env bs syms := by
  intro bs
  induction bs with
  | nil =>
    intro proc syms proc' h _
    simp only [buildListWith, pure, Except.pure, Except.ok.injEq, Prod.mk.injEq] at h
    obtain ⟨rfl, _⟩ := h
    exact .nil
  | cons b bs ih =>
    intro proc syms proc' h hns
    simp only [noSelfL, Bool.and_eq_true] at hns
    simp only [buildListWith, bind, Except.bind] at h
    cases hb : build fuel env proc b none with
    | error x => rw [hb] at h; cases h
    | ok tp =>
      rw [hb] at h
      obtain ⟨x, proc1⟩ := tp
      simp only at h
      cases hbl : buildListWith (build fuel env) proc1 bs with
      | error e => rw [hbl] at h; cases h
      | ok mp =>
        rw [hbl] at h
        obtain ⟨xs, proc2⟩ := mp
        simp only [pure, Except.pure, Except.ok.injEq, Prod.mk.injEq] at h
        obtain ⟨rfl, _⟩ := h
        exact .cons b bs x xs (hA proc b none x proc1 hb hns.1) (ih proc1 xs proc2 hbl hns.2)

/-- what `Parser._parse` builds is the grammar of the schema (when nothing is forced to null) -/
theorem build_gram (env : Env) (henv : EnvNoSelf env) : ∀ fuel, BuildA env fuel := by
  intro fuel
  induction fuel with
  | zero => intro proc s d g proc' h; simp [build] at h
  | succ fuel IH =>
    intro proc s d g proc' h hns
    simp only [build] at h
    cases s with
    | prim p df lt =>
      cases p <;> simp only [pure, Except.pure, Except.ok.injEq, Prod.mk.injEq] at h <;> obtain ⟨rfl, _⟩ := h
      · exact .null _ _ _
      all_goals exact .prim _ _ _ _ (by decide)
    | fixed n sz lt al =>
      simp only [pure, Except.pure, Except.ok.injEq, Prod.mk.injEq] at h
      obtain ⟨rfl, _⟩ := h
      exact .fixed _ _ _ _ _
    | enum n syms dflt al =>
      simp only [pure, Except.pure, Except.ok.injEq, Prod.mk.injEq] at h
      obtain ⟨rfl, _⟩ := h
      exact .enum _ _ _ _ _
    | array items =>
      simp only [bind, Except.bind] at h
      cases hb : build fuel env proc items none with
      | error x => rw [hb] at h; cases h
      | ok tp =>
        rw [hb] at h
        obtain ⟨i, proc1⟩ := tp
        simp only [pure, Except.pure, Except.ok.injEq, Prod.mk.injEq] at h
        obtain ⟨rfl, _⟩ := h
        exact .array _ _ _ (IH proc items none i proc1 hb (by simpa [noSelf] using hns))
    | map values =>
      simp only [bind, Except.bind] at h
      cases hb : build fuel env proc values none with
      | error x => rw [hb] at h; cases h
      | ok tp =>
        rw [hb] at h
        obtain ⟨i, proc1⟩ := tp
        simp only [pure, Except.pure, Except.ok.injEq, Prod.mk.injEq] at h
        obtain ⟨rfl, _⟩ := h
        exact .map _ _ _ (IH proc values none i proc1 hb (by simpa [noSelf] using hns))
    | union bs =>
      simp only [bind, Except.bind] at h
      cases hb : buildListWith (build fuel env) proc bs with
      | error x => rw [hb] at h; cases h
      | ok tp =>
        rw [hb] at h
        obtain ⟨syms, proc1⟩ := tp
        simp only [pure, Except.pure, Except.ok.injEq, Prod.mk.injEq] at h
        obtain ⟨rfl, _⟩ := h
        exact .union _ _ _ (buildList_gram env fuel IH bs proc syms proc1 hb (by simpa [noSelf] using hns))
    | record n fields al =>
      simp only [noSelf] at hns
      by_cases hc : proc.contains n = true
      · simp only [hc, if_true, bind, Except.bind] at h
        cases hb : buildFieldsWith (build fuel env) (some n) proc fields with
        | error x => rw [hb] at h; cases h
        | ok tp =>
          rw [hb] at h
          obtain ⟨body, proc1⟩ := tp
          simp only [pure, Except.pure, Except.ok.injEq, Prod.mk.injEq] at h
          obtain ⟨rfl, _⟩ := h
          exact .record _ _ _ _ _ (buildFields_gram env fuel IH n fields proc (some n) body proc1 hb hns (Or.inr rfl))
      · simp only [hc, Bool.false_eq_true, if_false, bind, Except.bind] at h
        cases hb : buildFieldsWith (build fuel env) none (proc ++ [n]) fields with
        | error x => rw [hb] at h; cases h
        | ok tp =>
          rw [hb] at h
          obtain ⟨body, proc1⟩ := tp
          simp only [pure, Except.pure, Except.ok.injEq, Prod.mk.injEq] at h
          obtain ⟨rfl, _⟩ := h
          exact .record _ _ _ _ _ (buildFields_gram env fuel IH n fields _ none body proc1 hb hns (Or.inl rfl))
    | ref n =>
      simp only at h
      split at h
      · rename_i s' hget
        exact .ref n s' d g hget (IH proc s' d g proc' h (henv n s' hget))
      · cases h

theorem initialStack_gram (env : Env) (henv : EnvNoSelf env) (fuel : Nat) (s : Schema) (ps : List Sym)
    (h : initialStack fuel env s = .ok ps) (hns : noSelf s = true) : ∃ G, ps = [G, .root G] ∧ Gram env s none G := by
  unfold initialStack at h
  simp only [bind, Except.bind] at h
  cases hb : build fuel env [] s none with
  | error x => rw [hb] at h; cases h
  | ok tp =>
    rw [hb] at h
    obtain ⟨g, proc⟩ := tp
    simp only [pure, Except.pure, Except.ok.injEq] at h
    exact ⟨g, h.symm, build_gram env henv fuel [] s none g proc hb hns⟩


end JMProofs
