/-
  Proofs/Piece.lean — C12: after a named-type definition has been parsed, the named-schema dictionary
  maps its full name to exactly the parsed definition that was returned.
-/
import Proofs.Reject
open Parse RejectProofs MonoProofs

namespace PieceProofs

theorem env_get_set_self (env : Env) (k : String) (s : Schema) : (env.set k s).get? k = some s := by
  induction env with
  | nil => simp [Env.set, Env.get?]
  | cons e rest ih =>
    obtain ⟨k', s'⟩ := e
    simp only [Env.set]
    split
    · rename_i hk; simp only [Env.get?, hk, if_true]
    · rename_i hk; simp only [Env.get?, hk, if_false]; exact ih

theorem enum_entry (kv : List (Val × Val)) (ns : String) (st st' : St) (dflt : Option Val) (ign : Bool) (s : Schema)
    (h : parseEnum kv ns st dflt ign = .ok (s, st')) :
    ∃ ns' full, schemaName kv ns = .ok (ns', full) ∧ st'.env.get? full = some s ∧ s.defName? = some full := by
  simp only [parseEnum, bind_ok_iff] at h
  obtain ⟨⟨ns', full⟩, hn, h⟩ := h
  split at h
  · simp at h
  · simp only [bind_ok_iff, pure_ok_iff, Prod.mk.injEq] at h
    obtain ⟨⟨syms, edef⟩, _, _, _, rfl, rfl⟩ := h
    exact ⟨ns', full, hn, env_get_set_self _ _ _, rfl⟩

theorem fixed_entry (kv : List (Val × Val)) (ns : String) (st st' : St) (dflt : Option Val) (ign : Bool) (lt) (s : Schema)
    (h : parseFixed kv ns st dflt ign lt = .ok (s, st')) :
    ∃ ns' full, schemaName kv ns = .ok (ns', full) ∧ st'.env.get? full = some s ∧ s.defName? = some full := by
  simp only [parseFixed, bind_ok_iff] at h
  obtain ⟨⟨ns', full⟩, hn, h⟩ := h
  split at h
  · simp at h
  · simp only [bind_ok_iff, pure_ok_iff, Prod.mk.injEq] at h
    obtain ⟨_, _, size, _, rfl, rfl⟩ := h
    exact ⟨ns', full, hn, env_get_set_self _ _ _, rfl⟩

theorem record_entry (pf : String → List Val → St → R (List Field × St))
    (kv : List (Val × Val)) (ns : String) (st st' : St) (dflt : Option Val) (ign : Bool) (s : Schema)
    (h : parseRecord pf kv ns st dflt ign = .ok (s, st')) :
    ∃ ns' full, schemaName kv ns = .ok (ns', full) ∧ st'.env.get? full = some s ∧ s.defName? = some full := by
  simp only [parseRecord, bind_ok_iff] at h
  obtain ⟨⟨ns', full⟩, hn, h⟩ := h
  split at h
  · simp at h
  · simp only [bind_ok_iff, pure_ok_iff, Prod.mk.injEq] at h
    obtain ⟨_, _, ⟨fs, st2⟩, _, rfl, rfl⟩ := h
    exact ⟨ns', full, hn, env_get_set_self _ _ _, rfl⟩

end PieceProofs
