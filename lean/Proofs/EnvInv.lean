/-
  Proofs/EnvInv.lean — what `parse_schema` leaves in the named-schema table: an invariant preserved by
  every registration of a definition under its own name is preserved by parsing; instance: every
  entry is a named-type definition registered under its own full name.
-/
import Proofs.Reject
open Parse RejectProofs MonoProofs

namespace EnvInv

/-- every entry of the named-schema table is a named-type definition registered under its own full name -/
def EnvNamedI (env : Env) : Prop := ∀ n d, env.get? n = some d → d.isNamedDef = true ∧ d.defName? = some n

theorem get_set (env : Env) (k : String) (s : Schema) (n : String) :
    (env.set k s).get? n = if k == n then some s else env.get? n := by
  induction env with
  | nil => simp [Env.set, Env.get?]
  | cons e rest ih =>
    obtain ⟨k', s'⟩ := e
    simp only [Env.set]
    by_cases hk : (k' == k) = true
    · have hkk : k' = k := beq_iff_eq.mp hk
      subst hkk
      simp only [hk, if_true, Env.get?]
      split <;> rfl
    · simp only [hk, Bool.false_eq_true, if_false, Env.get?, ih]
      by_cases hn : (k' == n) = true
      · have : k' = n := beq_iff_eq.mp hn
        subst this
        have hkn : (k == k') = false := by
          cases hc : (k == k') with
          | false => rfl
          | true => exact absurd (by rw [beq_iff_eq.mp hc]; exact BEq.rfl) hk
        simp only [hn, if_true, hkn, Bool.false_eq_true, if_false]
      · simp only [hn, Bool.false_eq_true, if_false]

theorem set_named (env : Env) (k : String) (s : Schema) (h : EnvNamedI env) (hs : s.isNamedDef = true) (hk : s.defName? = some k) :
    EnvNamedI (env.set k s) := by
  intro n d hd
  rw [get_set] at hd
  split at hd
  · rename_i hkn
    simp only [Option.some.injEq] at hd; subst hd
    rw [← beq_iff_eq.mp hkn]; exact ⟨hs, hk⟩
  · exact h n d hd

section
variable (I : Env → Prop)

theorem list_inv (p : Val → St → R (Schema × St))
    (hp : ∀ x st s st', p x st = .ok (s, st') → I st.env → I st'.env) (xs : List Val) :
    ∀ st bs st', parseListWith p xs st = .ok (bs, st') → I st.env → I st'.env := by
  induction xs with
  | nil =>
    intro st bs st' h hi
    simp only [parseListWith, Except.ok.injEq, Prod.mk.injEq] at h
    rw [← h.2]; exact hi
  | cons x xs ih =>
    intro st bs st' h hi
    simp only [parseListWith, bind_ok_iff, pure_ok_iff, Prod.mk.injEq] at h
    obtain ⟨⟨s, st1⟩, h1, ⟨ss, st2⟩, h2, _, rfl⟩ := h
    exact ih st1 ss st2 h2 (hp x st s st1 h1 hi)

theorem fields_inv (p : Val → St → Option Val → R (Schema × St))
    (hp : ∀ x st d s st', p x st d = .ok (s, st') → I st.env → I st'.env) (xs : List Val) :
    ∀ st fs st', parseFieldsWith p xs st = .ok (fs, st') → I st.env → I st'.env := by
  induction xs with
  | nil =>
    intro st fs st' h hi
    simp only [parseFieldsWith, Except.ok.injEq, Prod.mk.injEq] at h
    rw [← h.2]; exact hi
  | cons x xs ih =>
    intro st fs st' h hi
    cases x <;> simp only [parseFieldsWith, reduceCtorEq] at h
    simp only [bind_ok_iff, pure_ok_iff, Prod.mk.injEq] at h
    obtain ⟨⟨al, d, name, ty⟩, _, ⟨s, st1⟩, h1, ⟨ss, st2⟩, h2, _, rfl⟩ := h
    exact ih st1 ss st2 h2 (hp ty st d s st1 h1 hi)

/-- an invariant of the table that every registration of a definition under its own name preserves
    is preserved by parsing -/
theorem parse_inv (hset : ∀ env k s, I env → s.isNamedDef = true → s.defName? = some k → I (env.set k s)) (fuel : Nat) :
    ∀ raw ns st dflt ign s st', parse fuel raw ns st dflt ign = .ok (s, st') → I st.env → I st'.env := by
  induction fuel with
  | zero => intro raw ns st dflt ign s st' h; simp [parse] at h
  | succ fuel ih =>
    intro raw ns st dflt ign s st' h hi
    cases raw <;> simp only [parse, reduceCtorEq] at h
    case str name => rw [parseName_st name ns st st' dflt ign s h]; exact hi
    case list xs =>
      simp only [bind_ok_iff, pure_ok_iff, Prod.mk.injEq] at h
      obtain ⟨⟨bs, st1⟩, h1, _, _, _, rfl⟩ := h
      exact list_inv I _ (fun x st s st' hx => ih x ns st none ign s st' hx) xs st bs st1 h1 hi
    case dict kv =>
      simp only [bind_ok_iff] at h
      obtain ⟨ty, hty, lt, _, h⟩ := h
      split at h
      · simp only [parseArray, bind_ok_iff, pure_ok_iff, Prod.mk.injEq] at h
        obtain ⟨items, _, ⟨s1, st1⟩, h1, _, _, _, rfl⟩ := h
        exact ih items ns st none ign s1 st1 h1 hi
      · split at h
        · simp only [parseMap, bind_ok_iff, pure_ok_iff, Prod.mk.injEq] at h
          obtain ⟨items, _, ⟨s1, st1⟩, h1, _, _, _, rfl⟩ := h
          exact ih items ns st none ign s1 st1 h1 hi
        · split at h
          · simp only [parseEnum, bind_ok_iff] at h
            obtain ⟨⟨ns', full⟩, hn, h⟩ := h
            split at h
            · simp at h
            · simp only [bind_ok_iff, pure_ok_iff, Prod.mk.injEq] at h
              obtain ⟨⟨syms, edef⟩, _, _, _, rfl, rfl⟩ := h
              exact hset _ _ _ hi rfl rfl
          · split at h
            · simp only [parseFixed, bind_ok_iff] at h
              obtain ⟨⟨ns', full⟩, hn, h⟩ := h
              split at h
              · simp at h
              · simp only [bind_ok_iff, pure_ok_iff, Prod.mk.injEq] at h
                obtain ⟨_, _, size, _, rfl, rfl⟩ := h
                exact hset _ _ _ hi rfl rfl
            · split at h
              · simp only [parseRecord, bind_ok_iff] at h
                obtain ⟨⟨ns', full⟩, hn, h⟩ := h
                split at h
                · simp at h
                · simp only [bind_ok_iff, pure_ok_iff, Prod.mk.injEq] at h
                  obtain ⟨_, _, ⟨fs, st2⟩, hf, rfl, rfl⟩ := h
                  refine hset _ _ _ ?_ rfl rfl
                  exact fields_inv I _ (fun x st d s st' hx => ih x ns' st d ign s st' hx) _ _ fs st2 hf
                    (hset _ _ _ hi rfl rfl)
              · rw [parsePrimDict_st ty st st' dflt ign lt s h]; exact hi

theorem parseTop_inv (hset : ∀ env k s, I env → s.isNamedDef = true → s.defName? = some k → I (env.set k s)) (fuel : Nat)
    (raw : Val) (env env' : Env) (ign : Bool) (s : Schema) (h : parseTop fuel raw env ign = .ok (s, env')) (hi : I env) : I env' := by
  have hgo : ∀ xs env ss env', parseTop.go fuel ign xs env = .ok (ss, env') → I env → I env' := by
    intro xs
    induction xs with
    | nil => intro env ss env' h hi; simp only [parseTop.go, pure_ok_iff, Prod.mk.injEq] at h; rw [← h.2]; exact hi
    | cons x rest ihx =>
      intro env ss env' h hi
      simp only [parseTop.go, bind_ok_iff, pure_ok_iff, Prod.mk.injEq] at h
      obtain ⟨⟨s1, st1⟩, h1, ⟨ss2, env2⟩, h2, _, rfl⟩ := h
      exact ihx _ _ _ h2 (parse_inv I hset fuel x "" _ none ign s1 st1 h1 hi)
  cases raw <;> simp only [parseTop, bind_ok_iff, pure_ok_iff, Prod.mk.injEq] at h
  case list xs =>
    obtain ⟨⟨ss, env1⟩, h1, _, rfl⟩ := h
    exact hgo xs env ss env1 h1 hi
  all_goals
    obtain ⟨⟨s1, st1⟩, h1, _, rfl⟩ := h
    exact parse_inv I hset fuel _ "" _ none ign s1 st1 h1 hi
end

/-- **what `parse_schema` leaves in the named-schema table**: named-type definitions, each under its own full name -/
theorem parseTop_named (fuel : Nat) (raw : Val) (env env' : Env) (ign : Bool) (s : Schema)
    (h : parseTop fuel raw env ign = .ok (s, env')) (hi : EnvNamedI env) : EnvNamedI env' :=
  parseTop_inv EnvNamedI set_named fuel raw env env' ign s h hi

theorem named_empty : EnvNamedI [] := by intro n d h; cases h

end EnvInv
