/-
  Proofs/Load.lean — C19: `_inject_schema` substitutes the definition at the *first* reference that
  the parser would resolve to the definition's full name, and touches nothing after it.
-/
import Model.Load
import Spec.Pcf
import Proofs.Mono

namespace LoadProofs
open Load Binary MonoProofs

theorem ok_bind {α β} (a : α) (f : α → R β) : ((Except.ok a : R α) >>= f) = f a := rfl

/-- once injected, nothing else is looked at -/
theorem inject_done (fuel : Nat) (inner : Val) (innerName : String) (outer : Val) (ns : String) :
    inject (fuel+1) inner innerName outer ns true = .ok (outer, true) := by
  simp [inject]; rfl

/-- `f` maps every element of the first list to the corresponding element of the second without
    finding the reference -/
inductive Untouched (f : Val → Bool → R (Val × Bool)) : List Val → List Val → Prop where
  | nil : Untouched f [] []
  | cons {a b as bs} : f a false = .ok (b, false) → Untouched f as bs → Untouched f (a :: as) (b :: bs)

theorem list_done (f : Val → Bool → R (Val × Bool)) (xs : List Val) : injectListWith f xs true = .ok (xs, true) := by
  induction xs with
  | nil => rfl
  | cons x xs ih => simp only [injectListWith, if_true, ih]; rfl

/-- **the reference decision**: a by-name reference is resolved against the namespace in effect
    exactly as `parse_schema` resolves it (`Spec.refName`), and replaced iff that is the
    definition's full name; otherwise only its spelling is made absolute -/
theorem inject_ref (fuel : Nat) (inner : Val) (innerName name ns : String) (hp : isPrimName name = false) :
    inject (fuel+1) inner innerName (.str name) ns false =
      if Spec.refName name ns == innerName then .ok (inner, true) else .ok (.str (Spec.refName name ns), false) := by
  simp only [inject, Bool.false_eq_true, if_false, hp, Spec.refName]
  split <;> rfl

theorem inject_prim (fuel : Nat) (inner : Val) (innerName name ns : String) (hp : isPrimName name = true) :
    inject (fuel+1) inner innerName (.str name) ns false = .ok (.str name, false) := by
  simp only [inject, Bool.false_eq_true, if_false, hp, if_true]; rfl

/-- **first use only**: in a sequence of positions (union branches, record fields) where the
    first `pre` do not contain the reference and the next one does, exactly that one is rewritten;
    everything after it is returned untouched, whatever it contains -/
theorem list_first (f : Val → Bool → R (Val × Bool)) (x x' : Val) (post : List Val) (pre pre' : List Val)
    (hpre : Untouched f pre pre') (hx : f x false = .ok (x', true)) :
    injectListWith f (pre ++ x :: post) false = .ok (pre' ++ x' :: post, true) := by
  induction hpre with
  | nil =>
    simp only [List.nil_append, injectListWith, Bool.false_eq_true, if_false, hx, ok_bind, Bool.false_or, list_done]
    rfl
  | cons hab _ ih =>
    simp only [List.cons_append, injectListWith, Bool.false_eq_true, if_false, hab, ok_bind, Bool.or_false, ih]
    rfl

/-- nothing found: every position is only normalised, the flag stays down -/
theorem list_none (f : Val → Bool → R (Val × Bool)) (xs xs' : List Val)
    (h : Untouched f xs xs') :
    injectListWith f xs false = .ok (xs', false) := by
  induction h with
  | nil => rfl
  | cons hab _ ih =>
    simp only [injectListWith, Bool.false_eq_true, if_false, hab, ok_bind, Bool.or_false, ih]
    rfl

/-- a record's fields are searched in the namespace the parser gives them (`schema_name`) -/
theorem inject_record (fuel : Nat) (inner : Val) (innerName : String) (kv : List (Val × Val)) (ns ns' full : String)
    (hty : dictGetV kv "type" = some (.str "record")) (hn : Parse.schemaName kv ns = .ok (ns', full)) :
    inject (fuel+1) inner innerName (.dict kv) ns false = (do
      let (fs, i) ← injectListWith (injectFieldWith fun t inj => inject fuel inner innerName t ns' inj) (dictListOr kv "fields") false
      if fs.isEmpty then pure (.dict kv, i) else pure (.dict (valDictSet kv "fields" (.list fs)), i)) := by
  have e1 : ("record" == "array") = false := by decide
  have e2 : ("record" == "map") = false := by decide
  have e3 : ("record" == "enum" || "record" == "fixed") = false := by decide
  simp only [inject, Bool.false_eq_true, if_false, hty, e1, e2, e3, BEq.rfl, Bool.true_or, if_true, hn]
  rfl

end LoadProofs
