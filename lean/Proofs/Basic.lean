/-
  Proofs/Basic.lean — small lemmas about the write-result monoid, little-endian bytes and the
  primitive readers.
-/
import Model.Binary
import Proofs.Varint

namespace BasicProofs
open Binary

/-! ### WR -/

theorem append_ok_iff (a b : WR) (bs : Bytes) :
    a.append b = ⟨bs, none⟩ ↔ ∃ b1 b2, a = ⟨b1, none⟩ ∧ b = ⟨b2, none⟩ ∧ bs = b1 ++ b2 := by
  obtain ⟨ao, ae⟩ := a
  obtain ⟨bo, be⟩ := b
  cases ae with
  | some e => simp [WR.append]
  | none =>
    simp only [WR.append, WR.mk.injEq]
    constructor
    · rintro ⟨h1, h2⟩
      exact ⟨ao, bo, by simp, by simp [h2], h1.symm⟩
    · rintro ⟨b1, b2, h1, h2, h4⟩
      simp at h1 h2
      obtain ⟨rfl, rfl⟩ := h2
      subst h1 h4
      simp

theorem ok_eq (b : Bytes) : WR.ok b = ⟨b, none⟩ := rfl

@[simp] theorem fail_ne (e : Err) (bs : Bytes) : (WR.fail e = ⟨bs, none⟩) ↔ False := by
  simp [WR.fail]

/-! ### little-endian bytes -/

theorem toBytesLE_length (n x : Nat) : (Py.toBytesLE n x).length = n := by
  induction n generalizing x with
  | zero => rfl
  | succ n ih => simp [Py.toBytesLE, ih]

theorem fromBytesLE_toBytesLE (n x : Nat) : Py.fromBytesLE (Py.toBytesLE n x) = x % 256 ^ n := by
  induction n generalizing x with
  | zero => simp [Py.toBytesLE, Py.fromBytesLE, Nat.mod_one]
  | succ n ih =>
    simp only [Py.toBytesLE, Py.fromBytesLE, ih]
    have h : (UInt8.ofNat (x % 256)).toNat = x % 256 := by
      simp
    rw [h, Nat.pow_succ]
    have := Nat.mod_mul_right_div_self x 256 (256 ^ n)
    have h2 : x % (256 ^ n * 256) = x % 256 + 256 * (x / 256 % 256 ^ n) := by
      rw [Nat.mul_comm (256 ^ n) 256, Nat.mod_mul]
    omega

theorem takeN_append (a rest : Bytes) : takeN a.length (a ++ rest) = some (a, rest) := by
  unfold takeN
  simp

theorem takeN_append' (n : Nat) (a rest : Bytes) (h : a.length = n) : takeN n (a ++ rest) = some (a, rest) := by
  subst h; exact takeN_append a rest

/-! ### primitives -/

theorem decFloat_u32LE (f : UInt32) (rest : Bytes) :
    decFloat (u32LE f ++ rest) = .ok (.float (Fl.f32ToF64 f), rest) := by
  unfold decFloat u32LE
  rw [takeN_append' 4 _ rest (toBytesLE_length 4 _)]
  simp only [fromBytesLE_toBytesLE]
  have : f.toNat % 256 ^ 4 = f.toNat := Nat.mod_eq_of_lt (by have := f.toNat_lt; omega)
  rw [this]; simp

theorem decDouble_u64LE (d : UInt64) (rest : Bytes) :
    decDouble (u64LE d ++ rest) = .ok (.float d, rest) := by
  unfold decDouble u64LE
  rw [takeN_append' 8 _ rest (toBytesLE_length 8 _)]
  simp only [fromBytesLE_toBytesLE]
  have : d.toNat % 256 ^ 8 = d.toNat := Nat.mod_eq_of_lt (by have := d.toNat_lt; omega)
  rw [this]; simp

/-- a length / count / index below 2^63 round-trips through the varint coder -/
theorem decodeLong_encodeNat (n : Nat) (h : n < 2 ^ 63) (rest : Bytes) :
    ∃ bs, encodeLong (n : Int) = WR.ok bs ∧ decodeLong (bs ++ rest) = .ok ((n : Int), rest) := by
  have h1 : -(2:Int)^63 ≤ (n : Int) := by
    have : (0:Int) ≤ n := Int.natCast_nonneg n
    have e2 : (2:Int)^63 = 9223372036854775808 := by decide
    omega
  have h2 : (n : Int) < 2^63 := by
    have e2 : (2:Int)^63 = 9223372036854775808 := by decide
    have e3 : (2:Nat)^63 = 9223372036854775808 := by decide
    omega
  exact VarintProofs.decodeLong_encodeLong n h1 h2 rest

theorem encodeLong_ok_decode (n : Int) (hlo : -(2^63) ≤ n) (hhi : n < 2^63) (bs rest : Bytes)
    (h : encodeLong n = ⟨bs, none⟩) : decodeLong (bs ++ rest) = .ok (n, rest) := by
  obtain ⟨b', h1, h2⟩ := VarintProofs.decodeLong_encodeLong n hlo hhi rest
  rw [h1, ok_eq] at h
  injection h with h3 _
  subst h3; exact h2

theorem encodeNat_ok_decode (n : Nat) (hn : n < 2 ^ 63) (bs rest : Bytes)
    (h : encodeLong (n : Int) = ⟨bs, none⟩) : decodeLong (bs ++ rest) = .ok ((n : Int), rest) := by
  obtain ⟨b', h1, h2⟩ := decodeLong_encodeNat n hn rest
  rw [h1, ok_eq] at h
  injection h with h3 _
  subst h3; exact h2

end BasicProofs
