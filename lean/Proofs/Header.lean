/-
  Proofs/Header.lean — the container header written by `write_header` is read back by `_read_header`
  (an instance of the C01 round trip for `HEADER_SCHEMA`).
-/
import Model.Container
import Spec.Normalize
import Proofs.Roundtrip

namespace HeaderProofs
open Binary Container

def hdrVal (metadata : List (String × Bytes)) (sync : Bytes) : Val :=
  .dict [(.str "magic", .bytes MAGIC),
         (.str "meta", .dict (metadata.map fun e => (Val.str e.1, Val.bytes e.2))),
         (.str "sync", .bytes sync)]

theorem entries_norm (f : Val → Option Val) (m : List (String × Bytes))
    (hf : ∀ e ∈ m, f (.bytes e.2) = some (.bytes e.2)) :
    Spec.normEntriesWith f (m.map fun e => (Val.str e.1, Val.bytes e.2))
      = some (m.map fun e => (Val.str e.1, Val.bytes e.2)) := by
  induction m with
  | nil => rfl
  | cons e m ih =>
    simp only [List.map_cons, Spec.normEntriesWith, hf e (by simp), Option.bind_eq_bind,
      Option.bind_some, ih (fun e he => hf e (by simp [he]))]

theorem dictKeys_map (m : List (String × Bytes)) :
    dictKeys (m.map fun e => (Val.str e.1, Val.bytes e.2)) = m.map (·.1) := by
  induction m with
  | nil => rfl
  | cons e m ih => simp only [dictKeys, List.map_cons, List.filterMap_cons] at ih ⊢; rw [ih]

theorem header_norm (metadata : List (String × Bytes)) (sync : Bytes) (hsync : sync.length = 16)
    (hkeys : (metadata.map (·.1)).Nodup) (hlen : metadata.length < Spec.LIMIT)
    (hsmall : ∀ e ∈ metadata, (utf8Enc e.1).length < Spec.LIMIT ∧ e.2.length < Spec.LIMIT) :
    Spec.normalize 4 [] {} headerSchema (hdrVal metadata sync) = some (hdrVal metadata sync) := by
  have hk : Spec.keysOk (metadata.map fun e => (Val.str e.1, Val.bytes e.2)) = true := by
    simp only [Spec.keysOk, Bool.and_eq_true, List.all_eq_true, decide_eq_true_eq, dictKeys_map]
    exact ⟨fun e he => by obtain ⟨x, _, rfl⟩ := List.mem_map.mp he; rfl, hkeys⟩
  have hall : ((metadata.map fun e => (Val.str e.1, Val.bytes e.2)).all fun x => match x.fst with
      | .str s => decide ((utf8Enc s).length < Spec.LIMIT) | _ => false) = true := by
    simp only [List.all_eq_true]
    intro e he
    obtain ⟨x, hx, rfl⟩ := List.mem_map.mp he
    simpa using (hsmall x hx).1
  have hent := entries_norm (fun v => Spec.normPrim .bytes v) metadata (by
    intro e he
    simp [Spec.normPrim, (hsmall e he).2])
  have hnd : (List.map Field.name [Field.mk "magic" (.fixed "magic" 4 none []) none [],
      Field.mk "meta" (.map (.prim .bytes false none)) none [], Field.mk "sync" (.fixed "sync" 16 none []) none []]).Nodup := by
    decide
  simp only [hdrVal, headerSchema, Spec.normalize, hnd, ↓reduceIte, Spec.normFieldsWith, dictGetV, Field.name, Field.type,
    Field.default, beq_self_eq_true, Option.bind_eq_bind]
  have hm : List.length MAGIC = 4 := rfl
  have hlen' : (metadata.map fun e => (Val.str e.1, Val.bytes e.2)).length < Spec.LIMIT := by simpa using hlen
  have e1 : ("magic" == "meta") = false := by decide
  have e2 : ("magic" == "sync") = false := by decide
  have e3 : ("meta" == "sync") = false := by decide
  simp only [hm, ↓reduceIte, e1, e2, e3, Bool.false_eq_true, hk, hlen', hent, hsync, Option.map_some,
    Option.bind_some]
  rw [if_pos ⟨trivial, trivial, hall⟩]
  rfl

theorem filterMap_back (f : Val × Val → Option (String × Bytes)) (hf : ∀ k b, f (.str k, .bytes b) = some (k, b))
    (m : List (String × Bytes)) : (m.map fun e => (Val.str e.1, Val.bytes e.2)).filterMap f = m := by
  induction m with
  | nil => rfl
  | cons e m ih => simp only [List.map_cons, List.filterMap_cons, hf, ih]

/-- the header written by `write_header` is read back by `_read_header` with the metadata map and
    the sync marker that were supplied, and the stream is left at the first block -/
theorem header_roundtrip (metadata : List (String × Bytes)) (sync rest hb : Bytes)
    (hw : writeHeader metadata sync = ⟨hb, none⟩) (hsync : sync.length = 16)
    (hkeys : (metadata.map (·.1)).Nodup) (hlen : metadata.length < Spec.LIMIT)
    (hsmall : ∀ e ∈ metadata, (utf8Enc e.1).length < Spec.LIMIT ∧ e.2.length < Spec.LIMIT) :
    readHeader (hb ++ rest) = .ok ({ metadata := metadata, sync := sync }, rest) := by
  have hn := header_norm metadata sync hsync hkeys hlen hsmall
  have hr := RoundtripProofs.roundtrip [] {} 4 headerSchema (hdrVal metadata sync) (hdrVal metadata sync) hb rest hw hn
  unfold readHeader
  rw [hr]
  simp only [hdrVal, dictGetV]
  have e1 : ("magic" == "meta") = false := by decide
  have e2 : ("magic" == "sync") = false := by decide
  have e3 : ("meta" == "sync") = false := by decide
  have e4 : ("meta" == "meta") = true := by decide
  have e5 : ("sync" == "sync") = true := by decide
  simp only [e1, e2, e3, e4, e5, Bool.false_eq_true, ↓reduceIte]
  rw [filterMap_back _ (fun k b => rfl)]

end HeaderProofs
