/-
  Proofs/Generate.lean — C20: whatever the random source returns, `gen_data` yields a datum that
  conforms to the schema (Spec.conforms), and `generate_many` yields exactly `count` of them.
-/
import Model.Generate
import Spec.Conforms
import Proofs.Mono

namespace GenProofs
open Generate Binary MonoProofs

theorem randint_range (a b : Int) (ρ : Rand) (i : Nat) (n : Int) (h : randint a b ρ i = .ok n) : a ≤ n ∧ n ≤ b := by
  unfold randint at h
  split at h
  · simp at h
  · rename_i hab
    simp only [Except.ok.injEq] at h
    have hpos : (0 : Int) < b - a + 1 := by omega
    have h1 := Int.emod_nonneg (ρ i : Int) (Int.ne_of_gt hpos)
    have h2 := Int.emod_lt_of_pos (ρ i : Int) hpos
    omega

/-! ### dictionary updates -/

theorem set_keys (acc : List (Val × Val)) (k : String) (x : Val) (h : (acc.all fun e => e.1.isStr) = true) :
    ((valDictSet acc k x).all fun e => e.1.isStr) = true := by
  induction acc with
  | nil => simp [valDictSet, Val.isStr]
  | cons e rest ih =>
    obtain ⟨k', v'⟩ := e
    simp only [List.all_cons, Bool.and_eq_true] at h
    cases k' <;> simp only [valDictSet] <;> try (simp only [List.all_cons, Bool.and_eq_true]; exact ⟨h.1, ih h.2⟩)
    rename_i s
    split
    · simp only [List.all_cons, Bool.and_eq_true]; exact ⟨h.1, h.2⟩
    · simp only [List.all_cons, Bool.and_eq_true]; exact ⟨h.1, ih h.2⟩

theorem set_vals (P : Val → Bool) (acc : List (Val × Val)) (k : String) (x : Val) (hx : P x = true)
    (h : (acc.all fun e => P e.2) = true) : ((valDictSet acc k x).all fun e => P e.2) = true := by
  induction acc with
  | nil => simp [valDictSet, hx]
  | cons e rest ih =>
    obtain ⟨k', v'⟩ := e
    simp only [List.all_cons, Bool.and_eq_true] at h
    cases k' <;> simp only [valDictSet] <;> try (simp only [List.all_cons, Bool.and_eq_true]; exact ⟨h.1, ih h.2⟩)
    rename_i s
    split
    · simp only [List.all_cons, Bool.and_eq_true]; exact ⟨hx, h.2⟩
    · simp only [List.all_cons, Bool.and_eq_true]; exact ⟨h.1, ih h.2⟩

theorem get_set_same (acc : List (Val × Val)) (k : String) (x : Val) : dictGetV (valDictSet acc k x) k = some x := by
  induction acc with
  | nil => simp [valDictSet, dictGetV]
  | cons e rest ih =>
    obtain ⟨k', v'⟩ := e
    cases k' <;> simp only [valDictSet, dictGetV] <;> try exact ih
    rename_i s
    by_cases hs : (s == k) = true
    · simp only [hs, if_true, dictGetV]
    · simp only [hs, Bool.false_eq_true, if_false, dictGetV]; exact ih

theorem get_set_other (acc : List (Val × Val)) (k k' : String) (x : Val) (hne : k' ≠ k) :
    dictGetV (valDictSet acc k x) k' = dictGetV acc k' := by
  induction acc with
  | nil =>
    have : (k == k') = false := by simpa using fun h => hne h.symm
    simp [valDictSet, dictGetV, this]
  | cons e rest ih =>
    obtain ⟨k2, v2⟩ := e
    cases k2 <;> simp only [valDictSet, dictGetV] <;> try exact ih
    rename_i s
    by_cases hs : (s == k) = true
    · have hsk : s = k := by simpa using hs
      have : (s == k') = false := by subst hsk; simpa using fun h => hne h.symm
      simp only [hs, if_true, dictGetV, this, Bool.false_eq_true, if_false]
    · simp only [hs, Bool.false_eq_true, if_false, dictGetV]
      by_cases hs' : (s == k') = true
      · simp only [hs', if_true]
      · simp only [hs', Bool.false_eq_true, if_false]; exact ih

/-- a value `gen_data` can return is never a tuple (so it is never read as a branch hint) -/
def notTuple : Val → Bool
  | .tuple _ => false
  | _ => true

/-! ### the loops -/

theorem items_ok (g : Nat → R (Val × Nat)) (P : Val → Bool) (hg : ∀ i x i', g i = .ok (x, i') → P x = true) :
    ∀ n i xs i', genItemsWith g n i = .ok (xs, i') → xs.all P = true ∧ xs.length = n := by
  intro n
  induction n with
  | zero =>
    intro i xs i' h
    simp only [genItemsWith, pure_ok_iff, Prod.mk.injEq] at h
    obtain ⟨rfl, _⟩ := h; exact ⟨rfl, rfl⟩
  | succ n ih =>
    intro i xs i' h
    simp only [genItemsWith, bind_ok_iff, pure_ok_iff, Prod.mk.injEq] at h
    obtain ⟨⟨x, i1⟩, h1, ⟨ys, i2⟩, h2, rfl, _⟩ := h
    obtain ⟨ha, hl⟩ := ih i1 ys i2 h2
    exact ⟨by simp only [List.all_cons, Bool.and_eq_true]; exact ⟨hg i x i1 h1, ha⟩, by simp [hl]⟩

theorem entries_ok (g : Nat → R (Val × Nat)) (ρ : Rand) (P : Val → Bool) (hg : ∀ i x i', g i = .ok (x, i') → P x = true) :
    ∀ n i acc kv i', (acc.all fun e => e.1.isStr) = true → (acc.all fun e => P e.2) = true →
      genEntriesWith g ρ n i acc = .ok (kv, i') → (kv.all fun e => e.1.isStr) = true ∧ (kv.all fun e => P e.2) = true := by
  intro n
  induction n with
  | zero =>
    intro i acc kv i' hk hv h
    simp only [genEntriesWith, pure_ok_iff, Prod.mk.injEq] at h
    obtain ⟨rfl, _⟩ := h; exact ⟨hk, hv⟩
  | succ n ih =>
    intro i acc kv i' hk hv h
    simp only [genEntriesWith, bind_ok_iff] at h
    obtain ⟨⟨x, i1⟩, h1, h2⟩ := h
    exact ih i1 _ kv i' (set_keys acc _ x hk) (set_vals P acc _ x (hg _ x i1 h1) hv) h2

/-- the field loop: every field generated so far is present with a conforming value, and no other
    key is introduced -/
theorem fields_ok (g : Schema → Nat → R (Val × Nat)) (cf : Schema → Val → Bool)
    (hg : ∀ t i x i', g t i = .ok (x, i') → cf t x = true) :
    ∀ (fs : List Field) i acc kv i', (fs.map Field.name).Nodup →
      genFieldsWith g fs i acc = .ok (kv, i') →
      (∀ f ∈ fs, ∃ x, dictGetV kv f.name = some x ∧ cf f.type x = true) ∧
      (∀ k, k ∉ fs.map Field.name → dictGetV kv k = dictGetV acc k) := by
  intro fs
  induction fs with
  | nil =>
    intro i acc kv i' _ h
    simp only [genFieldsWith, pure_ok_iff, Prod.mk.injEq] at h
    obtain ⟨rfl, _⟩ := h
    exact ⟨by simp, fun _ _ => rfl⟩
  | cons f rest ih =>
    intro i acc kv i' hnd h
    simp only [List.map_cons, List.nodup_cons] at hnd
    simp only [genFieldsWith, bind_ok_iff] at h
    obtain ⟨⟨x, i1⟩, h1, h2⟩ := h
    obtain ⟨ha, hb⟩ := ih i1 _ kv i' hnd.2 h2
    constructor
    · intro f' hf'
      simp only [List.mem_cons] at hf'
      rcases hf' with rfl | hf'
      · refine ⟨x, ?_, hg _ _ _ _ h1⟩
        rw [hb f'.name hnd.1, get_set_same]
      · exact ha f' hf'
    · intro k hk
      simp only [List.map_cons, List.mem_cons, not_or] at hk
      rw [hb k hk.2, get_set_other acc f.name k x hk.1]

theorem getElem_contains (xs : List String) (n : Nat) (x : String) (h : xs[n]? = some x) : xs.contains x = true := by
  simp only [List.contains_iff_mem]
  exact List.mem_of_getElem? h

theorem okList_mem (bs : List Schema) (b : Schema) (hs : Schema.fieldsOkList bs = true) (hmem : b ∈ bs) : b.fieldsOk = true := by
  induction bs with
  | nil => simp at hmem
  | cons c cs ihc =>
    simp only [Schema.fieldsOkList, Bool.and_eq_true] at hs
    simp only [List.mem_cons] at hmem
    rcases hmem with rfl | hm
    · exact hs.1
    · exact ihc hs.2 hm

/-- **C20.** Every datum `gen_data` returns conforms to the schema, whatever the random source
    does (plain schemas whose records have distinct field names). -/
theorem gen_conforms (env : Env) (ρ : Rand) (henv : env.fieldsOk = true) (fuel : Nat) :
    ∀ s i v i', s.fieldsOk = true → genData fuel env ρ s i = .ok (v, i') →
      Spec.conforms fuel env false false s v = true ∧ notTuple v = true := by
  induction fuel with
  | zero => intro s i v i' _ h; simp [genData] at h
  | succ fuel ih =>
    intro s i v i' hs h
    cases s with
    | prim p d lt =>
      cases lt with
      | some _ => simp [genData, throw_ne_ok] at h
      | none =>
        simp only [genData] at h
        simp only [Spec.conforms, Spec.conformsNode]
        cases p <;> simp only [genPrim, bind_ok_iff, pure_ok_iff, Prod.mk.injEq] at h
        case null => obtain ⟨rfl, _⟩ := h; exact ⟨rfl, rfl⟩
        case string => obtain ⟨rfl, _⟩ := h; exact ⟨rfl, rfl⟩
        case float => obtain ⟨rfl, _⟩ := h; exact ⟨rfl, rfl⟩
        case double => obtain ⟨rfl, _⟩ := h; exact ⟨rfl, rfl⟩
        case bytes => obtain ⟨rfl, _⟩ := h; exact ⟨rfl, rfl⟩
        case boolean => obtain ⟨n, _, rfl, _⟩ := h; exact ⟨rfl, rfl⟩
        case int =>
          obtain ⟨n, hn, rfl, _⟩ := h
          have := randint_range _ _ ρ i n hn
          simp only [Validate.INT_MIN, Validate.INT_MAX] at this
          refine ⟨?_, rfl⟩
          simp only [Spec.conformsPrim, decide_eq_true_eq]
          omega
        case long =>
          obtain ⟨n, hn, rfl, _⟩ := h
          have := randint_range _ _ ρ i n hn
          simp only [Validate.LONG_MIN, Validate.LONG_MAX] at this
          refine ⟨?_, rfl⟩
          simp only [Spec.conformsPrim, decide_eq_true_eq]
          omega
    | fixed n sz lt al =>
      cases lt with
      | some _ => simp [genData, throw_ne_ok] at h
      | none =>
        simp only [genData, pure_ok_iff, Prod.mk.injEq] at h
        obtain ⟨rfl, _⟩ := h
        simp [Spec.conforms, Spec.conformsNode, randBytes, notTuple]
    | enum n syms d al =>
      simp only [genData, bind_ok_iff] at h
      obtain ⟨k, _, h2⟩ := h
      cases hx : syms[k.toNat]? with
      | none => simp [hx, throw_ne_ok] at h2
      | some x =>
        simp only [hx, pure_ok_iff, Prod.mk.injEq] at h2
        obtain ⟨rfl, _⟩ := h2
        exact ⟨by simp only [Spec.conforms, Spec.conformsNode]; exact getElem_contains syms _ x hx, rfl⟩
    | array items =>
      simp only [genData, bind_ok_iff, pure_ok_iff, Prod.mk.injEq] at h
      obtain ⟨⟨xs, i1⟩, h1, rfl, _⟩ := h
      simp only [Schema.fieldsOk] at hs
      have := items_ok (genData fuel env ρ items) (fun x => Spec.conforms fuel env false false items x)
        (fun i x i' hx => (ih items i x i' hs hx).1) 10 i xs i1 h1
      exact ⟨by simp only [Spec.conforms, Spec.conformsNode, Spec.seqItems?]; exact this.1, rfl⟩
    | map values =>
      simp only [genData, bind_ok_iff, pure_ok_iff, Prod.mk.injEq] at h
      obtain ⟨⟨kv, i1⟩, h1, rfl, _⟩ := h
      simp only [Schema.fieldsOk] at hs
      have := entries_ok (genData fuel env ρ values) ρ (fun x => Spec.conforms fuel env false false values x)
        (fun i x i' hx => (ih values i x i' hs hx).1) 10 i [] kv i1 rfl rfl h1
      exact ⟨by simp only [Spec.conforms, Spec.conformsNode, Bool.and_eq_true]; exact this, rfl⟩
    | union bs =>
      simp only [genData, bind_ok_iff] at h
      obtain ⟨k, _, h2⟩ := h
      cases hb : bs[k.toNat]? with
      | none => simp [hb, throw_ne_ok] at h2
      | some b =>
        simp only [hb] at h2
        have hmem : b ∈ bs := List.mem_of_getElem? hb
        have hbok : b.fieldsOk = true := okList_mem bs b (by simpa only [Schema.fieldsOk] using hs) hmem
        obtain ⟨hc, hnt⟩ := ih b _ v i' hbok h2
        refine ⟨?_, hnt⟩
        simp only [Spec.conforms, Spec.conformsNode]
        cases v <;> simp only [notTuple, Bool.false_eq_true] at hnt <;>
          (simp only [List.any_eq_true]; exact ⟨b, hmem, hc⟩)
    | record n fields al =>
      simp only [genData, bind_ok_iff, pure_ok_iff, Prod.mk.injEq] at h
      obtain ⟨⟨kv, i1⟩, h1, rfl, _⟩ := h
      simp only [Schema.fieldsOk, Bool.and_eq_true, decide_eq_true_eq, Bool.not_eq_true'] at hs
      obtain ⟨⟨hnd, hnt⟩, hfs⟩ := hs
      have hfok : ∀ f ∈ fields, f.type.fieldsOk = true := by
        clear h1 hnd hnt
        induction fields with
        | nil => intro f hf; simp at hf
        | cons g gs ihg =>
          obtain ⟨gn, gt, gd, ga⟩ := g
          simp only [Schema.fieldsOkFields, Bool.and_eq_true] at hfs
          intro f hf
          simp only [List.mem_cons] at hf
          rcases hf with rfl | hf
          · exact hfs.1
          · exact ihg hfs.2 f hf
      -- generalise the per-field fact through a predicate that carries the guard
      have key := fields_ok (fun t i => if t.fieldsOk then genData fuel env ρ t i else .error .other)
        (fun t x => Spec.conforms fuel env false false t x)
        (fun t i x i' hx => by
          by_cases ht : t.fieldsOk = true
          · simp only [ht, if_true] at hx; exact (ih t i x i' ht hx).1
          · simp [ht] at hx)
      have hsame : ∀ (fs : List Field) i acc, (∀ f ∈ fs, f.type.fieldsOk = true) →
          genFieldsWith (fun t i => if t.fieldsOk then genData fuel env ρ t i else .error .other) fs i acc =
            genFieldsWith (genData fuel env ρ) fs i acc := by
        intro fs
        induction fs with
        | nil => intro i acc _; rfl
        | cons f rest ihf =>
          intro i acc hall
          simp only [genFieldsWith, hall f (by simp), if_true]
          cases genData fuel env ρ f.type i with
          | error e => rfl
          | ok r => obtain ⟨x, j⟩ := r; exact ihf j _ (fun g hg => hall g (by simp [hg]))
      obtain ⟨ha, hb⟩ := key fields i [] kv i1 hnd (by rw [hsame fields i [] hfok]; exact h1)
      refine ⟨?_, rfl⟩
      simp only [Spec.conforms, Spec.conformsNode, Bool.and_eq_true, List.all_eq_true]
      constructor
      · have : dictGetV kv "-type" = none := by
          rw [hb "-type" (by simpa [List.contains_iff_mem] using hnt)]; rfl
        simp only [typeHintOk, this]
      · intro f hf
        obtain ⟨x, hx, hcx⟩ := ha f hf
        simp only [hx, hcx]
    | ref n =>
      simp only [genData] at h
      cases hg : env.get? n with
      | none => simp [hg, throw_ne_ok] at h
      | some s' =>
        simp only [hg] at h
        have hs' : s'.fieldsOk = true := by
          clear h ih
          unfold Env.fieldsOk at henv
          induction env with
          | nil => simp [Env.get?] at hg
          | cons e rest ihe =>
            obtain ⟨k, d⟩ := e
            simp only [List.all_cons, Bool.and_eq_true] at henv
            simp only [Env.get?] at hg
            split at hg
            · simp only [Option.some.injEq] at hg; subst hg; exact henv.1
            · exact ihe henv.2 hg
        obtain ⟨hc, hnt⟩ := ih s' i v i' hs' h
        exact ⟨by simp only [Spec.conforms, Spec.conformsNode, hg]; exact hc, hnt⟩

/-- `generate_many(schema, n)` yields exactly `n` values -/
theorem genMany_length (fuel : Nat) (env : Env) (ρ : Rand) (s : Schema) :
    ∀ n i xs i', genMany fuel env ρ s n i = .ok (xs, i') → xs.length = n := by
  intro n
  induction n with
  | zero =>
    intro i xs i' h
    simp only [genMany, pure_ok_iff, Prod.mk.injEq] at h
    obtain ⟨rfl, _⟩ := h; rfl
  | succ n ih =>
    intro i xs i' h
    simp only [genMany, bind_ok_iff, pure_ok_iff, Prod.mk.injEq] at h
    obtain ⟨⟨x, i1⟩, _, ⟨ys, i2⟩, h2, rfl, _⟩ := h
    simp [ih i1 ys i2 h2]

end GenProofs
