/-
  Proofs/Json.lean — C15: the JSON writer model against the specification's JSON encoding, and the
  bytes ↔ string-of-code-points round trip.
-/
import Model.Json
import Spec.JsonEnc
import Proofs.Mono

namespace RL
theorem ok_bind {α β} (a : α) (f : α → R β) : ((Except.ok a : R α) >>= f) = f a := rfl
end RL

namespace JsonProofs
open Binary Json MonoProofs

theorem codePoints_eq (b : Bytes) : Spec.codePoints b = latin1Dec b := rfl

theorem char_roundtrip (x : UInt8) : (Char.ofNat x.toNat).toNat = x.toNat := by
  have h : x.toNat < 256 := x.toNat_lt
  unfold Char.ofNat
  have hv : x.toNat.isValidChar := by
    left; omega
  simp only [hv, dite_true]
  rfl

/-- **bytes and fixed as strings of code points 0–255**: decoding the string gives the bytes back -/
theorem latin1_roundtrip (b : Bytes) : latin1Enc (latin1Dec b) = some b := by
  unfold latin1Enc latin1Dec
  rw [String.toList_ofList]
  induction b with
  | nil => rfl
  | cons x xs ih =>
    have h : x.toNat < 256 := x.toNat_lt
    simp only [List.map_cons, List.mapM_cons, char_roundtrip, h, if_true, ih, Option.bind_eq_bind,
      Option.bind_some, Option.pure_def, bind_pure_comp]
    simp

theorem label_eq (b : Schema) : label b = Spec.jsonBranchName b := by cases b <;> rfl
theorem isNull_eq (env : Env) (b : Schema) : isNullBranch env b = Spec.isNull env b := rfl

theorem prim_eq (p : Prim) (v j : Val) (h : Spec.jsonPrimFloats p v = some j) : encPrim p v = .ok j := by
  cases p <;> cases v <;> simp only [Spec.jsonPrimFloats, Spec.jsonPrim, reduceCtorEq, Option.some.injEq] at h <;>
    subst h <;> rfl

theorem items_eq (f : Val → Option Val) (g : Val → R Val) (xs : List Val) :
    ∀ ys, (∀ x ∈ xs, ∀ y, f x = some y → g x = .ok y) → Spec.jItemsM f xs = some ys → encItemsWith g xs = .ok ys := by
  induction xs with
  | nil => intro ys _ h; simp only [Spec.jItemsM, Option.some.injEq] at h; subst h; rfl
  | cons x xs ih =>
    intro ys hfg h
    simp only [Spec.jItemsM, Option.bind_eq_bind, Option.bind_eq_some_iff, Option.some.injEq] at h
    obtain ⟨a, ha, b, hb, rfl⟩ := h
    simp only [encItemsWith, hfg x (by simp) a ha, ih b (fun y hy => hfg y (by simp [hy])) hb]
    rfl

theorem entries_eq (f : Val → Option Val) (g : Val → R Val) (kv : List (Val × Val)) :
    ∀ out, (∀ e ∈ kv, ∀ y, f e.2 = some y → g e.2 = .ok y) →
      Spec.jEntriesM (fun s => !s.isEmpty) f kv = some out → encEntriesWith g kv = .ok out := by
  induction kv with
  | nil => intro out _ h; simp only [Spec.jEntriesM, Option.some.injEq] at h; subst h; rfl
  | cons e rest ih =>
    intro out hfg h
    obtain ⟨k, x⟩ := e
    cases k <;> simp only [Spec.jEntriesM, reduceCtorEq] at h
    rename_i s
    by_cases hs : s.isEmpty = true
    · simp [hs] at h
    · simp only [hs, Bool.not_false, Bool.not_true, Bool.false_eq_true, if_false, Option.bind_eq_bind,
        Option.bind_eq_some_iff, Option.some.injEq, Option.pure_def, Option.bind_some] at h
      obtain ⟨a, ha, b, hb, rfl⟩ := h
      simp only [encEntriesWith, hs, Bool.false_eq_true, if_false, hfg (.str s, x) (by simp) a ha,
        ih b (fun y hy => hfg y (by simp [hy])) hb]
      rfl

theorem fields_eq (f : Schema → Val → Option Val) (g : Schema → Val → R Val) (fs : List Field) (kv : List (Val × Val)) :
    ∀ out, (∀ fld ∈ fs, ∀ x y, f fld.type x = some y → g fld.type x = .ok y ∧ fieldCoerce fld.type x = .ok x) →
      Spec.jFieldsM f fs kv = some out → encFieldsWith g fs kv = .ok out := by
  induction fs with
  | nil => intro out _ h; simp only [Spec.jFieldsM, Option.some.injEq] at h; subst h; rfl
  | cons fld rest ih =>
    intro out hfg h
    simp only [Spec.jFieldsM, Option.bind_eq_bind, Option.bind_eq_some_iff, Option.some.injEq] at h
    obtain ⟨a, ha, b, hb, rfl⟩ := h
    obtain ⟨h1, h2⟩ := hfg fld (by simp) _ a ha
    simp only [encFieldsWith, h2, h1, ih b (fun y hy => hfg y (by simp [hy])) hb, RL.ok_bind]
    rfl

/-- where the specification's encoding of a float/double-typed field value is defined (on the core
    fragment the value is a float), `float(datum_value)` leaves it as it is -/
theorem coerce_id (kok : String → Bool) (pick : Nat → List Schema → Val → Option (Nat × Val)) (fuel : Nat) (env : Env)
    (t : Schema) (x y : Val)
    (h : Spec.jsonEncodeWith Spec.jsonPrimFloats kok pick (fuel+1) env t x = some y) : fieldCoerce t x = .ok x := by
  cases t with
  | prim p d lt =>
    cases d with
    | true => cases p <;> rfl
    | false =>
      cases lt with
      | some _ => simp [Spec.jsonEncodeWith] at h
      | none =>
        simp only [Spec.jsonEncodeWith] at h
        cases p <;> try rfl
        all_goals
          cases x <;> simp only [Spec.jsonPrimFloats, Spec.jsonPrim, reduceCtorEq] at h
          rfl
  | _ => rfl

/-- **C15 (the text is the specification's encoding)**, on the core fragment: whatever the
    specification's JSON encoding of a datum is — under the branches `write_union` selects —,
    `json_writer` emits exactly that value -/
theorem encode_eq_spec (env : Env) (o : WOpts) (fuel : Nat) :
    ∀ s v j, Spec.jsonEncodeCore (fun f bs v => (choose f env o bs v).toOption) fuel env s v = some j →
      encode true fuel env o s v = .ok j := by
  induction fuel with
  | zero => intro s v j h; simp [Spec.jsonEncodeCore, Spec.jsonEncodeWith] at h
  | succ fuel ih =>
    intro s v j h
    unfold Spec.jsonEncodeCore at h ih
    cases s with
    | prim p d lt =>
      cases lt with
      | some _ => simp [Spec.jsonEncodeWith] at h
      | none => simp only [Spec.jsonEncodeWith] at h; simp only [encode]; exact prim_eq p v j h
    | fixed n sz lt al =>
      cases lt with
      | some _ => simp [Spec.jsonEncodeWith] at h
      | none =>
        simp only [Spec.jsonEncodeWith] at h
        cases v <;> simp only [reduceCtorEq] at h
        rename_i b
        split at h <;> simp only [Option.some.injEq, reduceCtorEq] at h
        subst h
        simp only [encode, codePoints_eq]; rfl
    | enum n syms d al =>
      simp only [Spec.jsonEncodeWith] at h
      cases v <;> simp only [reduceCtorEq] at h
      rename_i x
      split at h <;> simp only [Option.some.injEq, reduceCtorEq] at h
      rename_i hc
      subst h
      simp only [encode, hc, if_true]; rfl
    | array items =>
      simp only [Spec.jsonEncodeWith] at h
      cases v <;> simp only [reduceCtorEq, Option.map_eq_some_iff] at h
      all_goals
        obtain ⟨ys, hys, rfl⟩ := h
        simp only [encode, items_eq _ (encode true fuel env o items) _ ys (fun x _ y hy => ih items x y hy) hys]
        rfl
    | map values =>
      simp only [Spec.jsonEncodeWith] at h
      cases v <;> simp only [reduceCtorEq, Option.map_eq_some_iff] at h
      obtain ⟨ys, hys, rfl⟩ := h
      simp only [encode, entries_eq _ (encode true fuel env o values) _ ys (fun e _ y hy => ih values e.2 y hy) hys]
      rfl
    | union bs =>
      simp only [Spec.jsonEncodeWith] at h
      cases hc : choose fuel env o bs v with
      | error e => simp [hc, Except.toOption] at h
      | ok r =>
        obtain ⟨i, v'⟩ := r
        simp only [hc, Except.toOption] at h
        cases hb : bs[i]? with
        | none => simp [hb] at h
        | some b =>
          simp only [hb, Option.bind_eq_bind, Option.bind_eq_some_iff] at h
          obtain ⟨jb, hjb, hj⟩ := h
          simp only [encode, hc, MonoProofs.bind_ok_iff]
          refine ⟨(i, v'), rfl, ?_⟩
          simp only [hb, ih b v' jb hjb, isNull_eq, label_eq, Bool.not_true, Bool.or_false]
          split at hj <;> simp only [Option.some.injEq] at hj <;> subst hj <;> rename_i hn
          · simp only [hn, if_true]; rfl
          · simp only [hn, Bool.false_eq_true, if_false]; rfl
    | record n fields al =>
      simp only [Spec.jsonEncodeWith] at h
      cases v <;> simp only [reduceCtorEq, Option.map_eq_some_iff] at h
      obtain ⟨ys, hys, rfl⟩ := h
      have := fields_eq _ (encode true fuel env o) fields _ ys
        (fun fld _ x y hy => ⟨ih fld.type x y hy, by
          cases fuel with
          | zero => simp [Spec.jsonEncodeWith] at hy
          | succ f => exact coerce_id _ _ f env fld.type x y hy⟩) hys
      simp only [encode, this]
      rfl
    | ref n =>
      simp only [Spec.jsonEncodeWith] at h
      cases hg : env.get? n with
      | none => simp [hg] at h
      | some s' => simp only [hg] at h; simp only [encode, hg]; exact ih s' v j h

/-! ### the core fragment only removes inputs -/

theorem jItems_mono (f g : Val → Option Val) (xs : List Val) :
    ∀ ys, (∀ x ∈ xs, ∀ y, f x = some y → g x = some y) → Spec.jItemsM f xs = some ys → Spec.jItemsM g xs = some ys := by
  induction xs with
  | nil => intro ys _ h; exact h
  | cons x xs ih =>
    intro ys hfg h
    simp only [Spec.jItemsM, Option.bind_eq_bind, Option.bind_eq_some_iff] at h ⊢
    obtain ⟨a, ha, b, hb, he⟩ := h
    exact ⟨a, hfg x (by simp) a ha, b, ih b (fun y hy => hfg y (by simp [hy])) hb, he⟩

theorem jEntries_mono (kok kok' : String → Bool) (hk : ∀ s, kok s = true → kok' s = true) (f g : Val → Option Val)
    (kv : List (Val × Val)) :
    ∀ out, (∀ e ∈ kv, ∀ y, f e.2 = some y → g e.2 = some y) → Spec.jEntriesM kok f kv = some out →
      Spec.jEntriesM kok' g kv = some out := by
  induction kv with
  | nil => intro out _ h; exact h
  | cons e rest ih =>
    intro out hfg h
    obtain ⟨k, x⟩ := e
    cases k <;> simp only [Spec.jEntriesM, reduceCtorEq] at h ⊢
    rename_i s
    cases hs : kok s with
    | false => simp [hs] at h
    | true =>
      simp only [hs, hk s hs, Bool.not_true, Bool.false_eq_true, if_false, Option.bind_eq_bind, Option.bind_eq_some_iff,
        Option.pure_def, Option.bind_some] at h ⊢
      obtain ⟨a, ha, b, hb, he⟩ := h
      exact ⟨a, hfg (.str s, x) (by simp) a ha, b, ih b (fun y hy => hfg y (by simp [hy])) hb, he⟩

theorem jFields_mono (f g : Schema → Val → Option Val) (fs : List Field) (kv : List (Val × Val)) :
    ∀ out, (∀ fld ∈ fs, ∀ x y, f fld.type x = some y → g fld.type x = some y) → Spec.jFieldsM f fs kv = some out →
      Spec.jFieldsM g fs kv = some out := by
  induction fs with
  | nil => intro out _ h; exact h
  | cons fld rest ih =>
    intro out hfg h
    simp only [Spec.jFieldsM, Option.bind_eq_bind, Option.bind_eq_some_iff] at h ⊢
    obtain ⟨a, ha, b, hb, he⟩ := h
    exact ⟨a, hfg fld (by simp) _ a ha, b, ih b (fun y hy => hfg y (by simp [hy])) hb, he⟩

theorem encodeWith_mono (jp jp' : Prim → Val → Option Val) (kok kok' : String → Bool)
    (hj : ∀ p v j, jp p v = some j → jp' p v = some j) (hk : ∀ s, kok s = true → kok' s = true)
    (pick : Nat → List Schema → Val → Option (Nat × Val)) (env : Env) (fuel : Nat) :
    ∀ s v j, Spec.jsonEncodeWith jp kok pick fuel env s v = some j → Spec.jsonEncodeWith jp' kok' pick fuel env s v = some j := by
  induction fuel with
  | zero => intro s v j h; simp [Spec.jsonEncodeWith] at h
  | succ fuel ih =>
    intro s v j h
    cases s with
    | prim p d lt =>
      cases lt with
      | some _ => simp [Spec.jsonEncodeWith] at h
      | none => simp only [Spec.jsonEncodeWith] at h ⊢; exact hj p v j h
    | fixed n sz lt al =>
      cases lt with
      | some _ => simp [Spec.jsonEncodeWith] at h
      | none => simp only [Spec.jsonEncodeWith] at h ⊢; exact h
    | enum n syms d al => simp only [Spec.jsonEncodeWith] at h ⊢; exact h
    | array items =>
      simp only [Spec.jsonEncodeWith] at h ⊢
      cases v <;> simp only [reduceCtorEq, Option.map_eq_some_iff] at h ⊢
      all_goals
        obtain ⟨ys, hys, he⟩ := h
        exact ⟨ys, jItems_mono _ _ _ ys (fun x _ y hy => ih items x y hy) hys, he⟩
    | map values =>
      simp only [Spec.jsonEncodeWith] at h ⊢
      cases v <;> simp only [reduceCtorEq, Option.map_eq_some_iff] at h ⊢
      obtain ⟨ys, hys, he⟩ := h
      exact ⟨ys, jEntries_mono kok kok' hk _ _ _ ys (fun e _ y hy => ih values e.2 y hy) hys, he⟩
    | union bs =>
      simp only [Spec.jsonEncodeWith] at h ⊢
      cases hp : pick fuel bs v with
      | none => simp [hp] at h
      | some r =>
        obtain ⟨i, v'⟩ := r
        simp only [hp] at h ⊢
        cases hb : bs[i]? with
        | none => simp [hb] at h
        | some b =>
          simp only [hb, Option.bind_eq_bind, Option.bind_eq_some_iff] at h ⊢
          obtain ⟨jb, hjb, hj'⟩ := h
          exact ⟨jb, ih b v' jb hjb, hj'⟩
    | record n fields al =>
      simp only [Spec.jsonEncodeWith] at h ⊢
      cases v <;> simp only [reduceCtorEq, Option.map_eq_some_iff] at h ⊢
      obtain ⟨ys, hys, he⟩ := h
      exact ⟨ys, jFields_mono _ _ fields _ ys (fun fld _ x y hy => ih fld.type x y hy) hys, he⟩
    | ref n =>
      simp only [Spec.jsonEncodeWith] at h ⊢
      cases hg : env.get? n with
      | none => simp [hg] at h
      | some s' => simp only [hg] at h ⊢; exact ih s' v j h

theorem core_is_spec (pick : Nat → List Schema → Val → Option (Nat × Val)) (env : Env) (fuel : Nat) (s : Schema) (v j : Val)
    (h : Spec.jsonEncodeCore pick fuel env s v = some j) : Spec.jsonEncode pick fuel env s v = some j := by
  refine encodeWith_mono _ _ _ _ ?_ (fun _ _ => rfl) pick env fuel s v j h
  intro p v j hp
  cases p <;> cases v <;> simp only [Spec.jsonPrimFloats, Spec.jsonPrim, reduceCtorEq] at hp ⊢ <;> exact hp

end JsonProofs
