/-
  Proofs/Varint.lean — the Python bit-twiddling of write_int / read_long equals the arithmetic
  definition of the specification, and decoding inverts encoding.
-/
import Model.Binary
import Spec.Varint

namespace VarintProofs
open Binary

/-! ### zig-zag -/

theorem shr63_nonneg (n : Int) (h0 : 0 ≤ n) (h : n < 2^63) : Py.shr n 63 = 0 := by
  unfold Py.shr
  rw [Int.shiftRight_eq_div_pow]
  have e : ((2 ^ 63 : Nat) : Int) = 9223372036854775808 := by decide
  have e2 : (2:Int)^63 = 9223372036854775808 := by decide
  rw [e]; rw [e2] at h
  omega

theorem shr63_neg (n : Int) (h0 : n < 0) (h : -(2^63) ≤ n) : Py.shr n 63 = -1 := by
  unfold Py.shr
  rw [Int.shiftRight_eq_div_pow]
  have e : ((2 ^ 63 : Nat) : Int) = 9223372036854775808 := by decide
  have e2 : (2:Int)^63 = 9223372036854775808 := by decide
  rw [e]; rw [e2] at h
  omega

theorem xor_zero_right (x : Int) : Py.xor x 0 = x := by
  cases x <;> simp [Py.xor]

theorem xor_neg_one (x : Int) : Py.xor x (-1) = -x - 1 := by
  cases x with
  | ofNat a =>
    show Py.xor (Int.ofNat a) (Int.negSucc 0) = _
    simp only [Py.xor, Nat.xor_zero]
    simp [Int.negSucc_eq]; omega
  | negSucc a =>
    show Py.xor (Int.negSucc a) (Int.negSucc 0) = _
    simp only [Py.xor, Nat.xor_zero]
    simp [Int.negSucc_eq]

/-- `(n << 1) ^ (n >> 63)` is the specification's zig-zag on the int64 range -/
theorem zigzag_eq_spec (n : Int) (hlo : -(2^63) ≤ n) (hhi : n < 2^63) :
    Binary.zigzag n = (Spec.zigzag n : Int) := by
  unfold Binary.zigzag Spec.zigzag Py.shl
  by_cases h : 0 ≤ n
  · rw [shr63_nonneg n h hhi, xor_zero_right]; simp [h]; omega
  · have h' : n < 0 := by omega
    rw [shr63_neg n h' hlo, xor_neg_one]; simp [h]; omega

/-! ### un-zig-zag: `(n >> 1) ^ -(n & 1)` -/

theorem unzigzag_eq_spec (m : Nat) : Binary.unzigzag m = Spec.unzigzag m := by
  unfold Binary.unzigzag Spec.unzigzag Py.shr
  have hand : Py.and (m : Int) 1 = ((m % 2 : Nat) : Int) := by
    show Py.and (Int.ofNat m) (Int.ofNat 1) = _
    simp [Py.and, Nat.and_one_is_mod]
  rw [hand]
  have hshr : ((m : Int) >>> 1) = ((m / 2 : Nat) : Int) := by
    rw [Int.shiftRight_eq_div_pow]; simp
  rw [hshr]
  rcases Nat.mod_two_eq_zero_or_one m with h | h
  · simp [h, xor_zero_right]
  · rw [h]
    have : (-((1 : Nat) : Int)) = -1 := by simp
    rw [this, xor_neg_one]; simp [h]

/-! ### base-128 groups -/

theorem varint_eq_spec (d : Nat) : Binary.varint d = Spec.varint d := by
  induction d using Nat.strongRecOn with
  | _ d ih =>
    unfold Binary.varint Spec.varint
    rw [Spec.groups]
    split
    · simp [Spec.withContinuation]
    · rename_i h
      have hd : d / 128 < d := by omega
      have := ih (d / 128) hd
      unfold Spec.varint at this
      rw [this]
      -- groups (d/128) is non-empty, so the head gets its continuation bit
      have hne : Spec.groups (d / 128) ≠ [] := by
        rw [Spec.groups]; split <;> simp
      cases hg : Spec.groups (d / 128) with
      | nil => exact absurd hg hne
      | cons g gs => simp [Spec.withContinuation]

/-- `encodeLong` is the specification's encoding on the int64 range -/
theorem encodeLong_eq_spec (n : Int) (hlo : -(2^63) ≤ n) (hhi : n < 2^63) :
    Binary.encodeLong n = WR.ok (Spec.encodeLong n) := by
  unfold Binary.encodeLong Spec.encodeLong
  have hz := zigzag_eq_spec n hlo hhi
  simp only [hz]
  have : ¬ ((Spec.zigzag n : Int) < 0) := by omega
  simp [this, varint_eq_spec]

/-! ### decoding inverts encoding -/

theorem and7F (b : Nat) : b &&& 0x7F = b % 128 := Nat.and_two_pow_sub_one_eq_mod b 7
theorem and80 : ∀ b, b < 256 → (b &&& 0x80 != 0) = decide (128 ≤ b) := by decide +kernel

theorem or_shift (acc x shift : Nat) (hacc : acc < 2 ^ shift) :
    acc ||| (x <<< shift) = acc + x * 2 ^ shift := by
  rw [Nat.shiftLeft_eq, Nat.or_comm, Nat.mul_comm, ← Nat.two_pow_add_eq_or_of_lt hacc]; omega

theorem toNat_ofNat_lt (x : Nat) (h : x < 256) : (UInt8.ofNat x).toNat = x := by
  simp [Nat.mod_eq_of_lt h]

theorem loop_varint (d acc shift : Nat) (rest : Bytes) (hacc : acc < 2 ^ shift) :
    decodeVarintLoop acc shift (Binary.varint d ++ rest) = .ok (acc + d * 2 ^ shift, rest) := by
  induction d using Nat.strongRecOn generalizing acc shift with
  | _ d ih =>
    unfold Binary.varint
    split
    · rename_i h
      simp only [List.singleton_append, decodeVarintLoop]
      rw [toNat_ofNat_lt d (by omega), and7F, and80 d (by omega), or_shift _ _ _ hacc]
      have : ¬ 128 ≤ d := by omega
      simp [this, Nat.mod_eq_of_lt h]
    · rename_i h
      simp only [List.cons_append, decodeVarintLoop]
      rw [toNat_ofNat_lt (d % 128 + 128) (by omega), and7F, and80 _ (by omega), or_shift _ _ _ hacc]
      have h1 : 128 ≤ d % 128 + 128 := by omega
      have e : (d % 128 + 128) % 128 = d % 128 := by omega
      simp only [h1, decide_true, ↓reduceIte, e]
      rw [ih (d / 128) (by omega)]
      · congr 2
        rw [Nat.pow_add]
        have := Nat.div_add_mod d 128
        generalize 2 ^ shift = p at *
        grind
      · rw [Nat.pow_add]
        have : d % 128 < 128 := Nat.mod_lt _ (by omega)
        generalize 2 ^ shift = p at *
        have : d % 128 * p + p ≤ 128 * p := by
          have := Nat.mul_le_mul_right p (show d % 128 + 1 ≤ 128 by omega)
          grind
        grind

theorem decodeLong_varint (d : Nat) (rest : Bytes) :
    decodeLong (Binary.varint d ++ rest) = .ok (Binary.unzigzag d, rest) := by
  unfold Binary.varint
  split
  · rename_i h
    simp only [List.singleton_append, decodeLong]
    rw [toNat_ofNat_lt d (by omega), and7F, and80 d (by omega)]
    have : ¬ 128 ≤ d := by omega
    simp [this, Nat.mod_eq_of_lt h]
  · rename_i h
    simp only [List.cons_append, decodeLong]
    rw [toNat_ofNat_lt (d % 128 + 128) (by omega), and7F, and80 _ (by omega)]
    have h1 : 128 ≤ d % 128 + 128 := by omega
    have e : (d % 128 + 128) % 128 = d % 128 := by omega
    simp only [h1, decide_true, ↓reduceIte, e]
    have hacc : d % 128 < 2 ^ 7 := by have := Nat.mod_lt d (show 128 > 0 by omega); omega
    rw [loop_varint (d / 128) (d % 128) 7 rest hacc]
    have : d % 128 + d / 128 * 2 ^ 7 = d := by have := Nat.div_add_mod d 128; omega
    simp [this, bind, Except.bind, pure, Except.pure]

/-- `read_long` inverts `write_long` on the whole int64 range and leaves the rest of the stream -/
theorem decodeLong_encodeLong (n : Int) (hlo : -(2^63) ≤ n) (hhi : n < 2^63) (rest : Bytes) :
    ∃ bs, Binary.encodeLong n = WR.ok bs ∧ decodeLong (bs ++ rest) = .ok (n, rest) := by
  refine ⟨Binary.varint (Spec.zigzag n), ?_, ?_⟩
  · rw [encodeLong_eq_spec n hlo hhi, Spec.encodeLong, varint_eq_spec]
  · rw [decodeLong_varint, unzigzag_eq_spec, Spec.unzigzag_zigzag]

end VarintProofs
