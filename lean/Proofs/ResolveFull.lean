/-
  Proofs/ResolveFull.lean — C08: the model's resolving reader (`read_data` with a reader schema) IS the
  specification reader, at every nesting depth: `readR_eq_spec`.
  Induction on the nesting fuel; per level: `match_schemas` (Proofs/MatchSchemas), the reader-union
  branch (Proofs/ResolveMatch.pick_spec), record defaults (Proofs/RecordDefaults), block readers
  (Proofs/NonFuel), and fuel-monotonicity of the specification reader (Proofs/SpecMono).
-/
import Proofs.MatchSchemas
import Proofs.RecordDefaults

namespace ResolveFull
open Binary Resolve ResolveProofs ResolveMatch NonFuel RejectLike

/-! ### deep well-formedness: what `parse_schema` guarantees, at every depth -/

mutual
/-- `reg = false`: a writer schema (plain: no logical type; names defined);
    `reg = true`: a reader schema (definitions are the table's entries; record fields told apart by name and alias);
    both: a union is not an immediate member of a union -/
def Good (env : Env) (reg : Bool) : Schema → Prop
  | .prim _ _ lt => reg = false → lt = none
  | .fixed n s lt a => (reg = false → lt = none) ∧ (reg = true → env.get? n = some (.fixed n s lt a))
  | .enum n s d a => reg = true → env.get? n = some (.enum n s d a)
  | .ref n => ∃ d, env.get? n = some d
  | .array i => Good env reg i
  | .map v => Good env reg v
  | .union bs => GoodList env reg bs
  | .record n fs a =>
    (reg = true → env.get? n = some (.record n fs a) ∧ (fs.map Field.name).Nodup ∧ FieldsUnambiguous fs) ∧
      GoodFields env reg fs
def GoodList (env : Env) (reg : Bool) : List Schema → Prop
  | [] => True
  | s :: rest => (Good env reg s ∧ isList s = false) ∧ GoodList env reg rest
def GoodFields (env : Env) (reg : Bool) : List Field → Prop
  | [] => True
  | .mk _ t _ _ :: rest => Good env reg t ∧ GoodFields env reg rest
end

def EnvGood (env : Env) (reg : Bool) : Prop := ∀ n d, env.get? n = some d → Good env reg d

theorem goodList_mem (env : Env) (reg : Bool) : ∀ (l : List Schema), GoodList env reg l → ∀ b ∈ l, Good env reg b ∧ isList b = false
  | [], _, b, hb => by cases hb
  | s :: rest, h, b, hb => by
    rcases List.mem_cons.1 hb with h1 | h1
    · subst h1; exact h.1
    · exact goodList_mem env reg rest h.2 b h1

theorem goodFields_mem (env : Env) (reg : Bool) : ∀ (l : List Field), GoodFields env reg l → ∀ f ∈ l, Good env reg f.type
  | [], _, b, hb => by cases hb
  | .mk _ t _ _ :: rest, h, b, hb => by
    rcases List.mem_cons.1 hb with h1 | h1
    · subst h1; exact h.1
    · exact goodFields_mem env reg rest h.2 b h1

theorem good_closed (env : Env) (reg : Bool) : ∀ s, Good env reg s → MClosed env reg s
  | .prim .., _ => trivial
  | .fixed .., h => fun hr => h.2 hr
  | .enum .., h => fun hr => h hr
  | .ref _, h => h
  | .array i, h => good_closed env reg i h
  | .map v, h => good_closed env reg v h
  | .union _, _ => trivial
  | .record .., h => fun hr => (h.1 hr).1

/-! ### the two readers, one level unfolded -/

/-- `read_data` after `match_schemas` returned `r'` -/
def bodyC (fuel : Nat) (wenv renv : Env) (ro : ROpts) (w r' : Schema) (bs : Bytes) : R (Val × Bytes) :=
  match w with
  | .ref n =>
    match wenv.get? n with
    | none => throw .index
    | some wd =>
      match r' with
      | .ref m =>
        (match renv.get? m with
         | some rd => readR fuel wenv renv ro wd rd bs
         | none => Binary.readData fuel wenv ro wd bs)
      | .prim p false _ =>
        (match renv.get? p.name with
         | some rd => readR fuel wenv renv ro wd rd bs
         | none => Binary.readData fuel wenv ro wd bs)
      | _ => throw .type
  | .prim p _ lt => do
    let (v, rest) ← readPrim p bs
    if lt.isSome then
      let v ← Logical.readLogical p.name lt v
      pure (v, rest)
    else
      let v ← maybePromote v p.name r'.typeName
      pure (v, rest)
  | .fixed _ size lt _ => do
    let (v, rest) ← decFixed size bs
    if lt.isSome then
      let v ← Logical.readLogical "fixed" lt v
      pure (v, rest)
    else pure (v, rest)
  | .enum _ syms _ _ => do
    let (i, rest) ← decodeLong bs
    match indexChecked syms i with
    | none => throw .index
    | some sym =>
      let v ← resolveSymbol sym r'
      pure (v, rest)
  | .array wi =>
    match r' with
    | .array ri => do
      let (c, rest) ← decodeLong bs
      let (xs, rest) ← readBlocksWith (readR fuel wenv renv ro wi ri) (rest.length + 1) c rest
      pure (.list xs, rest)
    | _ => throw .index
  | .map wv =>
    match r' with
    | .map rv => do
      let (c, rest) ← decodeLong bs
      let (kv, rest) ← readMapBlocksWith (readR fuel wenv renv ro wv rv) (rest.length + 1) c rest []
      pure (.dict kv, rest)
    | _ => throw .index
  | .union wbs => do
    let (i, rest) ← decodeLong bs
    match indexChecked wbs i with
    | none => throw .index
    | some b =>
      match r' with
      | .union rs => do
        match ← firstMatchWith (matchTypes fuel wenv renv) b (readerBranches wenv renv b rs) with
        | some rb => readR fuel wenv renv ro b rb rest
        | none => throw .resolution
      | _ => do
        if ← matchTypes fuel wenv renv b r' then readR fuel wenv renv ro b r' rest
        else throw .resolution
  | .record _ wfields _ =>
    match r' with
    | .record _ rfields _ => do
      let (acc, rest) ← readFieldsRWith (readR fuel wenv renv ro) (skipData fuel wenv) rfields wfields bs []
      let acc ← if distinctNames rfields > acc.length
        then fillDefaults (wfields.map Field.name) (readerFieldItems rfields) acc else pure acc
      pure (.dict acc, rest)
    | _ => throw .index

theorem readR_succ (f : Nat) (wenv renv : Env) (ro : ROpts) (w r : Schema) (bs : Bytes) :
    readR (f+1) wenv renv ro w r bs = (matchSchemas f wenv renv w r >>= fun r' => bodyC f wenv renv ro w r' bs) := by
  rw [readR]; rfl

/-! ### specification side: fuel, names -/

theorem refines_trans {α β} (f g h : α → R β) (h1 : Refines f g) (h2 : Refines g h) : Refines f h := by
  intro a hd
  have e1 := h1 a hd
  have : Def (g a) := by rw [e1]; exact hd
  rw [h2 a this, e1]

theorem rr_lift (wenv renv : Env) (F k : Nat) (w r : Schema) :
    Refines (Spec.resolveRead F wenv renv w r) (Spec.resolveRead (F+k) wenv renv w r) := by
  induction k with
  | zero => intro a _; rfl
  | succ k ih => exact refines_trans _ _ _ ih (SpecMono.resolveRead_def wenv renv (F+k) w r)

theorem skip_lift (env : Env) (f k : Nat) (s : Schema) : Refines (skipData f env s) (skipData (f+k) env s) := by
  induction k with
  | zero => intro a _; rfl
  | succ k ih => exact refines_trans _ _ _ ih (skipData_def env (f+k) s)

theorem fieldsWith_ref' (rd rd' : Schema → Schema → Bytes → R (Val × Bytes)) (sk sk' : Schema → Bytes → R Bytes)
    (rfs : List Field) (hs : ∀ s, Refines (sk s) (sk' s)) (wfs : List Field)
    (hr : ∀ wf ∈ wfs, ∀ rf ∈ rfs, Refines (rd wf.type rf.type) (rd' wf.type rf.type)) :
    ∀ bs acc, Def (Spec.fieldsWith rd sk rfs wfs bs acc) →
      Spec.fieldsWith rd' sk' rfs wfs bs acc = Spec.fieldsWith rd sk rfs wfs bs acc := by
  induction wfs with
  | nil => intro bs acc _; rfl
  | cons f rest ih =>
    have ih' := ih (fun wf hwf => hr wf (List.mem_cons_of_mem _ hwf))
    intro bs acc hd
    simp only [Spec.fieldsWith] at hd ⊢
    cases hf : Spec.readerFieldFor rfs f.name with
    | none =>
      simp only [hf] at hd ⊢
      have h1 : Def (sk f.type bs) := bind_def _ _ hd
      rw [hs f.type bs h1]
      cases hx : sk f.type bs with
      | error e => rfl
      | ok b1 => exact ih' b1 acc (bind_def_k b1 _ _ hx hd)
    | some rf =>
      simp only [hf] at hd ⊢
      have h1 : Def (rd f.type rf.type bs) := bind_def _ _ hd
      rw [hr f List.mem_cons_self rf (RecDef.readerFieldFor_mem rfs _ rf hf) bs h1]
      cases hx : rd f.type rf.type bs with
      | error e => rfl
      | ok r =>
        obtain ⟨x, b1⟩ := r
        exact ih' b1 _ (bind_def_k (x, b1) _ _ hx hd)

theorem deref_idem {env : Env} (he : EnvWF env) (s d : Schema) (h : Spec.deref env s = some d) : Spec.deref env d = some d := by
  cases s with
  | ref n =>
    have := (he.named n d h).1
    cases d <;> simp only [Schema.isNamedDef, Bool.false_eq_true] at this <;> rfl
  | _ => simp only [Spec.deref, Option.some.injEq] at h <;> subst h <;> rfl

theorem ref_not_avro (env : Env) (he : EnvWF env) (reg : Bool) (m : String) (h : MClosed env reg (.ref m)) : AVRO_TYPES.contains m = false := by
  obtain ⟨d, hd⟩ := h
  exact key_not_avro he hd

section
variable (wenv renv : Env) (hwf : EnvWF wenv) (hrf : EnvWF renv)
include hwf hrf

theorem matches_deref_w (ex : Bool) (w wd r : Schema) (h : Spec.deref wenv w = some wd) :
    Spec.matchesX ex wenv renv w r = Spec.matchesX ex wenv renv wd r := by
  cases w with
  | ref n => exact spec_ref_w wenv renv hwf hrf ex n wd r h
  | _ => simp only [Spec.deref, Option.some.injEq] at h <;> subst h <;> rfl

theorem matches_deref_r (ex : Bool) (w r rd : Schema) (h : Spec.deref renv r = some rd) :
    Spec.matchesX ex wenv renv w r = Spec.matchesX ex wenv renv w rd := by
  cases r with
  | ref n => exact spec_ref_r wenv renv hwf hrf ex w n rd h
  | _ => simp only [Spec.deref, Option.some.injEq] at h <;> subst h <;> rfl

/-- the specification reader sees a schema only through its definition -/
theorem rr_deref (F : Nat) (w wd r rd : Schema) (bs : Bytes) (hw : Spec.deref wenv w = some wd) (hr : Spec.deref renv r = some rd) :
    Spec.resolveRead F wenv renv w r bs = Spec.resolveRead F wenv renv wd rd bs := by
  cases F with
  | zero => rfl
  | succ F =>
    unfold Spec.resolveRead
    have e1 : Spec.matchesS wenv renv w r = Spec.matchesS wenv renv wd rd := by
      unfold Spec.matchesS
      rw [matches_deref_w wenv renv hwf hrf false w wd r hw, matches_deref_r wenv renv hwf hrf false wd r rd hr]
    rw [e1, hw, hr, deref_idem hwf w wd hw, deref_idem hrf r rd hr]

/-- what `match_schemas` hands on to the reader (neither side a union) -/
theorem ms_shape (g : Nat) (w r r' : Schema) (hw : MClosed wenv false w) (hr : MClosed renv true r)
    (huw : isList w = false) (hur : isList r = false) (h : matchSchemas g wenv renv w r = .ok r') :
    Spec.matchesS wenv renv w r = true ∧ Spec.deref renv r' = Spec.deref renv r ∧
    (w.isNamedDef = true → r'.isNamedDef = true) ∧ (∀ n, w = .ref n → ∃ m, r' = .ref m) := by
  cases g with
  | zero => simp [matchSchemas] at h
  | succ g =>
  have hm : Spec.matchesS wenv renv w r = true :=
    (ms_status wenv renv hwf hrf g w r true hw hr huw hur (by rw [h]; rfl)).symm
  refine ⟨hm, (ms_ok_deref wenv renv hwf hrf (g+1) w r r' hr huw hur h).1, ?_⟩
  by_cases hfall : fallPair w r = true
  · by_cases hnn : (w.isNamedDef && r.isNamedDef) = true
    · simp only [Bool.and_eq_true] at hnn
      rw [ms_named g wenv renv w r hnn.1 hnn.2] at h
      split at h
      · simp only [Except.ok.injEq] at h; subst h
        exact ⟨fun _ => hnn.2, fun n hn => by subst hn; simp [Schema.isNamedDef] at hnn⟩
      · simp at h
    · rw [ms_fall g wenv renv w r hfall] at h
      unfold msFall at h
      simp only [hnn, Bool.false_eq_true, if_false] at h
      split at h
      · rename_i hc2
        simp only [Bool.and_eq_true, Bool.not_eq_true'] at hc2
        have := ite_ok h
        subst this
        refine ⟨fun hwn => ?_, fun _ _ => ⟨_, rfl⟩⟩
        rw [(named_facts wenv renv hwf hrf w hwn).1] at hc2
        exact absurd hc2.1 (by decide)
      · split at h
        · rename_i hc3
          simp only [Bool.and_eq_true, Bool.not_eq_true'] at hc3
          have hrr := nonavro_is_ref r hc3.2
          generalize hn : r.typeName = n at hrr h
          subst hrr
          cases hg : renv.get? n with
          | none => simp [hg, throw, throwThe, MonadExceptOf.throw] at h
          | some rd =>
            simp only [hg] at h
            have hrdn := (hrf.named _ rd hg).1
            cases g with
            | zero => simp [matchSchemas] at h
            | succ g' =>
              rw [ms_named g' wenv renv w rd hc3.1 hrdn] at h
              split at h
              · simp only [Except.ok.injEq] at h; subst h
                exact ⟨fun _ => hrdn, fun n hn => by subst hn; simp [Schema.isNamedDef] at hc3⟩
              · simp at h
        · rename_i hc2 hc3
          have := ite_ok h
          subst this
          simp only [Bool.and_eq_true, Bool.not_eq_true', not_and, Bool.not_eq_false] at hnn hc2 hc3
          constructor
          · intro hwn
            have hrn : r'.isNamedDef = false := by
              cases hh : r'.isNamedDef with
              | false => rfl
              | true => exact absurd (hnn hwn) (by simp [hh])
            have hav := hc3 hwn
            cases r' with
            | ref m => rw [Schema.typeName, ref_not_avro renv hrf true m hr] at hav; exact absurd hav (by decide)
            | union _ => simp [isList] at hur
            | record _ _ _ => simp [Schema.isNamedDef] at hrn
            | enum _ _ _ _ => simp [Schema.isNamedDef] at hrn
            | fixed _ _ _ _ => simp [Schema.isNamedDef] at hrn
            | prim _ _ _ => cases w <;> simp [Schema.isNamedDef] at hwn <;> simp [Spec.matchesS, Spec.matchesX, Spec.deref, Spec.matchFlat] at hm
            | array _ => cases w <;> simp [Schema.isNamedDef] at hwn <;> simp [Spec.matchesS, Spec.matchesX, Spec.deref, Spec.matchFlat] at hm
            | map _ => cases w <;> simp [Schema.isNamedDef] at hwn <;> simp [Spec.matchesS, Spec.matchesX, Spec.deref, Spec.matchFlat] at hm
          · intro n hn
            subst hn
            obtain ⟨wd, hwd⟩ := hw
            have hwdn := (hwf.named _ wd hwd).1
            have hna := key_not_avro hwf hwd
            have hrn : r'.isNamedDef = false := by
              cases hh : r'.isNamedDef with
              | false => rfl
              | true => exact absurd (hc2 (by rw [Schema.typeName, hna])) (by simp [hh])
            rw [Spec.matchesS, spec_ref_w wenv renv hwf hrf false n wd r' hwd] at hm
            cases r' with
            | ref m => exact ⟨m, rfl⟩
            | union _ => simp [isList] at hur
            | record _ _ _ => simp [Schema.isNamedDef] at hrn
            | enum _ _ _ _ => simp [Schema.isNamedDef] at hrn
            | fixed _ _ _ _ => simp [Schema.isNamedDef] at hrn
            | prim _ _ _ => cases wd <;> simp [Schema.isNamedDef] at hwdn <;> simp [Spec.matchesX, Spec.deref, Spec.matchFlat] at hm
            | array _ => cases wd <;> simp [Schema.isNamedDef] at hwdn <;> simp [Spec.matchesX, Spec.deref, Spec.matchFlat] at hm
            | map _ => cases wd <;> simp [Schema.isNamedDef] at hwdn <;> simp [Spec.matchesX, Spec.deref, Spec.matchFlat] at hm
  · cases w <;> cases r <;> simp only [fallPair, not_true_eq_false, Bool.false_eq_true, not_false_eq_true] at hfall <;>
      first
        | (simp [isList] at huw; done)
        | (simp [isList] at hur; done)
        | exact ⟨fun hh => by simp [Schema.isNamedDef] at hh, fun n hn => by cases hn⟩

end

theorem deref_nonnamed {env : Env} (he : EnvWF env) (s d : Schema) (h : Spec.deref env s = some d) (hd : d.isNamedDef = false) : s = d := by
  cases s with
  | ref n => rw [(he.named n d h).1] at hd; cases hd
  | _ => simp only [Spec.deref, Option.some.injEq] at h <;> exact h

theorem deref_named {env : Env} (s d : Schema) (h : Spec.deref env s = some d) (hs : s.isNamedDef = true) : s = d := by
  cases s <;> simp [Schema.isNamedDef] at hs <;> simp only [Spec.deref, Option.some.injEq] at h <;> exact h

theorem cont_plain (fuel : Nat) (wenv renv : Env) (ro : ROpts) (b r : Schema) (rest : Bytes) :
    isList r = false →
    (match r with
      | .union rs => do
        match ← firstMatchWith (matchTypes fuel wenv renv) b (readerBranches wenv renv b rs) with
        | some rb => readR fuel wenv renv ro b rb rest
        | none => throw .resolution
      | _ => do
        if ← matchTypes fuel wenv renv b r then readR fuel wenv renv ro b r rest
        else throw .resolution) =
      (do if ← matchTypes fuel wenv renv b r then readR fuel wenv renv ro b r rest
          else throw .resolution : R (Val × Bytes)) := by
  intro hur
  cases r <;> first | rfl | (simp [isList] at hur)

theorem rd_shape {env : Env} (he : EnvWF env) (r rd : Schema) (h : Spec.deref env r = some rd) (hu : isList r = false) :
    isList rd = false ∧ ∀ m, rd ≠ .ref m := by
  constructor
  · cases hh : isList rd with
    | false => rfl
    | true =>
      have : r = rd := deref_nonnamed he r rd h (by cases rd <;> simp [isList] at hh <;> rfl)
      subst this; rw [hu] at hh; cases hh
  · intro m hm
    subst hm
    have := deref_idem he r _ h
    have := (he.named m _ this).1
    cases this

section
variable (wenv renv : Env) (hwf : EnvWF wenv) (hrf : EnvWF renv) (hgw : EnvGood wenv false) (hgr : EnvGood renv true) (ro : ROpts)
include hwf hrf hgw hgr

/-- the induction hypothesis: one nesting level less -/
def P (f : Nat) : Prop :=
  ∀ w r, Good wenv false w → Good renv true r →
    Refines (readR f wenv renv ro w r) (Spec.resolveRead (2*f) wenv renv w r)

theorem core_prim (f g : Nat) (p : Prim) (d : Bool) (lt : Option LogT) (r r' : Schema)
    (hw : Good wenv false (.prim p d lt)) (hr : Good renv true r) (hur : isList r = false)
    (h : matchSchemas g wenv renv (.prim p d lt) r = .ok r') :
    Refines (bodyC f wenv renv ro (.prim p d lt) r') (Spec.resolveRead (2*f+1) wenv renv (.prim p d lt) r) := by
  obtain ⟨hm, hdr, _, _⟩ := ms_shape wenv renv hwf hrf g (.prim p d lt) r r' trivial (good_closed _ _ _ hr) rfl hur h
  obtain ⟨rd, hrd⟩ := deref_some_r wenv renv hwf hrf r (good_closed _ _ _ hr)
  have hlt : lt = none := hw rfl
  subst hlt
  intro bs _
  rw [rr_deref wenv renv hwf hrf _ _ _ r rd bs rfl hrd]
  rw [Spec.matchesS, matches_deref_r wenv renv hwf hrf false _ r rd hrd] at hm
  rw [hrd] at hdr
  cases rd with
  | prim rp d' l' =>
    have := deref_nonnamed hrf r' _ hdr rfl
    subst this
    unfold Spec.resolveRead
    simp only [Spec.matchesS, hm, Bool.not_true, Bool.false_eq_true, if_false, Spec.deref]
    simp only [bodyC, Option.isSome_none, Bool.false_eq_true, if_false, Schema.typeName, promote_eq]
  | union _ => exact absurd (rd_shape hrf r _ hrd hur).1 (by simp [isList])
  | ref m => exact absurd rfl ((rd_shape hrf r _ hrd hur).2 m)
  | _ => simp [Spec.matchesX, Spec.deref, Spec.matchFlat] at hm

theorem core_fixed (f g : Nat) (n : String) (size : Nat) (lt : Option LogT) (al : List String) (r r' : Schema)
    (hw : Good wenv false (.fixed n size lt al)) (hr : Good renv true r) (hur : isList r = false)
    (h : matchSchemas g wenv renv (.fixed n size lt al) r = .ok r') :
    Refines (bodyC f wenv renv ro (.fixed n size lt al) r') (Spec.resolveRead (2*f+1) wenv renv (.fixed n size lt al) r) := by
  obtain ⟨hm, hdr, hnamed, _⟩ := ms_shape wenv renv hwf hrf g (.fixed n size lt al) r r' (fun hh => by cases hh) (good_closed _ _ _ hr) rfl hur h
  obtain ⟨rd, hrd⟩ := deref_some_r wenv renv hwf hrf r (good_closed _ _ _ hr)
  have hlt : lt = none := hw.1 rfl
  subst hlt
  intro bs _
  rw [rr_deref wenv renv hwf hrf _ _ _ r rd bs rfl hrd]
  rw [Spec.matchesS, matches_deref_r wenv renv hwf hrf false _ r rd hrd] at hm
  rw [hrd] at hdr
  have := deref_named r' rd hdr (hnamed rfl)
  subst this
  cases r' with
  | fixed rn rs rl ral =>
    unfold Spec.resolveRead
    simp only [Spec.matchesS, hm, Bool.not_true, Bool.false_eq_true, if_false, Spec.deref]
    simp only [bodyC, Option.isSome_none, Bool.false_eq_true, if_false]
    cases decFixed size bs with
    | error e => rfl
    | ok x => rfl
  | _ => first | (have hn := hnamed rfl; simp [Schema.isNamedDef] at hn; done) | (simp [Spec.matchesX, Spec.deref, Spec.matchFlat] at hm; done)

theorem core_enum (f g : Nat) (n : String) (syms : List String) (df : Option Val) (al : List String) (r r' : Schema)
    (hr : Good renv true r) (hur : isList r = false)
    (h : matchSchemas g wenv renv (.enum n syms df al) r = .ok r') :
    Refines (bodyC f wenv renv ro (.enum n syms df al) r') (Spec.resolveRead (2*f+1) wenv renv (.enum n syms df al) r) := by
  obtain ⟨hm, hdr, hnamed, _⟩ := ms_shape wenv renv hwf hrf g (.enum n syms df al) r r' (fun hh => by cases hh) (good_closed _ _ _ hr) rfl hur h
  obtain ⟨rd, hrd⟩ := deref_some_r wenv renv hwf hrf r (good_closed _ _ _ hr)
  intro bs _
  rw [rr_deref wenv renv hwf hrf _ _ _ r rd bs rfl hrd]
  rw [Spec.matchesS, matches_deref_r wenv renv hwf hrf false _ r rd hrd] at hm
  rw [hrd] at hdr
  have := deref_named r' rd hdr (hnamed rfl)
  subst this
  cases r' with
  | enum rn rsyms rdef ral =>
    unfold Spec.resolveRead
    simp only [Spec.matchesS, hm, Bool.not_true, Bool.false_eq_true, if_false, Spec.deref]
    simp only [bodyC]
    cases decodeLong bs with
    | error e => rfl
    | ok x =>
      obtain ⟨i, rest⟩ := x
      simp only [ok_bind]
      cases indexChecked syms i with
      | none => rfl
      | some sym =>
        simp only [resolveSymbol]
        split
        · rfl
        · cases rdef with
          | none => rfl
          | some dv => simp only []; split <;> rfl
  | _ => first | (have hn := hnamed rfl; simp [Schema.isNamedDef] at hn; done) | (simp [Spec.matchesX, Spec.deref, Spec.matchFlat] at hm; done)

theorem core_array (f g : Nat) (ih : P wenv renv ro f) (wi r r' : Schema)
    (hw : Good wenv false (.array wi)) (hr : Good renv true r) (hur : isList r = false)
    (h : matchSchemas g wenv renv (.array wi) r = .ok r') :
    Refines (bodyC f wenv renv ro (.array wi) r') (Spec.resolveRead (2*f+1) wenv renv (.array wi) r) := by
  obtain ⟨hm, hdr, _, _⟩ := ms_shape wenv renv hwf hrf g (.array wi) r r' (good_closed _ _ _ hw) (good_closed _ _ _ hr) rfl hur h
  obtain ⟨rd, hrd⟩ := deref_some_r wenv renv hwf hrf r (good_closed _ _ _ hr)
  intro bs hd
  rw [hrd] at hdr
  have hm0 := hm
  rw [Spec.matchesS, matches_deref_r wenv renv hwf hrf false _ r rd hrd] at hm
  cases rd with
  | array ri =>
    have e1 := deref_nonnamed hrf r _ hrd rfl
    have e2 := deref_nonnamed hrf r' _ hdr rfl
    subst e1; subst e2
    unfold Spec.resolveRead
    simp only [hm0, Bool.not_true, Bool.false_eq_true, if_false, Spec.deref]
    simp only [bodyC] at hd ⊢
    cases hl : decodeLong bs with
    | error e => rfl
    | ok x =>
      obtain ⟨c, rest⟩ := x
      simp only [hl, ok_bind] at hd ⊢
      have h1 := bind_def _ _ hd
      rw [blocks _ _ (ih wi ri hw hr) _ c rest h1]
  | union _ => exact absurd (rd_shape hrf r _ hrd hur).1 (by simp [isList])
  | ref m => exact absurd rfl ((rd_shape hrf r _ hrd hur).2 m)
  | _ => simp [Spec.matchesX, Spec.deref, Spec.matchFlat] at hm

theorem core_map (f g : Nat) (ih : P wenv renv ro f) (wv r r' : Schema)
    (hw : Good wenv false (.map wv)) (hr : Good renv true r) (hur : isList r = false)
    (h : matchSchemas g wenv renv (.map wv) r = .ok r') :
    Refines (bodyC f wenv renv ro (.map wv) r') (Spec.resolveRead (2*f+1) wenv renv (.map wv) r) := by
  obtain ⟨hm, hdr, _, _⟩ := ms_shape wenv renv hwf hrf g (.map wv) r r' (good_closed _ _ _ hw) (good_closed _ _ _ hr) rfl hur h
  obtain ⟨rd, hrd⟩ := deref_some_r wenv renv hwf hrf r (good_closed _ _ _ hr)
  intro bs hd
  rw [hrd] at hdr
  have hm0 := hm
  rw [Spec.matchesS, matches_deref_r wenv renv hwf hrf false _ r rd hrd] at hm
  cases rd with
  | map rv =>
    have e1 := deref_nonnamed hrf r _ hrd rfl
    have e2 := deref_nonnamed hrf r' _ hdr rfl
    subst e1; subst e2
    unfold Spec.resolveRead
    simp only [hm0, Bool.not_true, Bool.false_eq_true, if_false, Spec.deref]
    simp only [bodyC] at hd ⊢
    cases hl : decodeLong bs with
    | error e => rfl
    | ok x =>
      obtain ⟨c, rest⟩ := x
      simp only [hl, ok_bind] at hd ⊢
      have h1 := bind_def _ _ hd
      rw [mapBlocks _ _ (ih wv rv hw hr) _ c rest [] h1]
  | union _ => exact absurd (rd_shape hrf r _ hrd hur).1 (by simp [isList])
  | ref m => exact absurd rfl ((rd_shape hrf r _ hrd hur).2 m)
  | _ => simp [Spec.matchesX, Spec.deref, Spec.matchFlat] at hm

omit hwf hgw hgr hrf in
theorem good_deref (env : Env) (reg : Bool) (hg : EnvGood env reg) (s d : Schema) (hs : Good env reg s)
    (h : Spec.deref env s = some d) : Good env reg d := by
  cases s with
  | ref n => exact hg n d h
  | _ => simp only [Spec.deref, Option.some.injEq] at h <;> subst h <;> exact hs

theorem core_record (f g : Nat) (ih : P wenv renv ro f) (n : String) (wfs : List Field) (al : List String) (r r' : Schema)
    (hw : Good wenv false (.record n wfs al)) (hr : Good renv true r) (hur : isList r = false)
    (h : matchSchemas g wenv renv (.record n wfs al) r = .ok r') :
    Refines (bodyC f wenv renv ro (.record n wfs al) r') (Spec.resolveRead (2*f+1) wenv renv (.record n wfs al) r) := by
  obtain ⟨hm, hdr, hnamed, _⟩ := ms_shape wenv renv hwf hrf g (.record n wfs al) r r' (fun hh => by cases hh) (good_closed _ _ _ hr) rfl hur h
  obtain ⟨rd, hrd⟩ := deref_some_r wenv renv hwf hrf r (good_closed _ _ _ hr)
  have hgrd := good_deref renv true hgr r rd hr hrd
  intro bs hd
  rw [rr_deref wenv renv hwf hrf _ _ _ r rd bs rfl hrd]
  rw [Spec.matchesS, matches_deref_r wenv renv hwf hrf false _ r rd hrd] at hm
  rw [hrd] at hdr
  have := deref_named r' rd hdr (hnamed rfl)
  subst this
  cases r' with
  | record rn rfs ral =>
    obtain ⟨hreg, hgf⟩ := hgrd
    obtain ⟨_, hN, hU⟩ := hreg rfl
    unfold Spec.resolveRead
    simp only [Spec.matchesS, hm, Bool.not_true, Bool.false_eq_true, if_false, Spec.deref]
    simp only [bodyC, fields_eq _ _ rfs (findReaderField_eq rfs hU)] at hd ⊢
    have h1 := bind_def _ _ hd
    have e2 : 2 * f = f + f := by omega
    have hsk : ∀ s, Refines (skipData f wenv s) (skipData (2*f) wenv s) := by
      intro s; rw [e2]; exact skip_lift wenv f f s
    rw [fieldsWith_ref' _ (Spec.resolveRead (2*f) wenv renv) _ (skipData (2*f) wenv) rfs hsk wfs
          (fun wf hwf rf hrf' => ih wf.type rf.type (goodFields_mem _ _ _ hw.2 wf hwf) (goodFields_mem _ _ _ hgf rf hrf')) bs [] h1]
    cases hx : Spec.fieldsWith (readR f wenv renv ro) (skipData f wenv) rfs wfs bs [] with
    | error e => rfl
    | ok x =>
      obtain ⟨acc, rest⟩ := x
      simp only [ok_bind]
      rw [← RecDef.record_defaults _ _ rfs wfs hN bs acc rest hx]
      split <;> rfl
  | _ => first | (have hn := hnamed rfl; simp [Schema.isNamedDef] at hn; done) | (simp [Spec.matchesX, Spec.deref, Spec.matchFlat] at hm; done)

theorem core_ref (f g : Nat) (ih : P wenv renv ro f) (n : String) (r r' : Schema)
    (hw : Good wenv false (.ref n)) (hr : Good renv true r) (hur : isList r = false)
    (h : matchSchemas g wenv renv (.ref n) r = .ok r') :
    Refines (bodyC f wenv renv ro (.ref n) r') (Spec.resolveRead (2*f+1) wenv renv (.ref n) r) := by
  obtain ⟨hm, hdr, _, href⟩ := ms_shape wenv renv hwf hrf g (.ref n) r r' hw (good_closed _ _ _ hr) rfl hur h
  obtain ⟨rd, hrd⟩ := deref_some_r wenv renv hwf hrf r (good_closed _ _ _ hr)
  obtain ⟨m, hm'⟩ := href n rfl
  obtain ⟨wd, hwd⟩ := hw
  subst hm'
  rw [hrd] at hdr
  have hgm : renv.get? m = some rd := hdr
  intro bs hd
  rw [rr_deref wenv renv hwf hrf _ (.ref n) wd r rd bs hwd hrd]
  simp only [bodyC, hwd, hgm] at hd ⊢
  have e1 := ih wd rd (hgw n wd hwd) (hgr m rd hgm) bs hd
  have hd2 : Def (Spec.resolveRead (2*f) wenv renv wd rd bs) := by rw [e1]; exact hd
  rw [rr_lift wenv renv (2*f) 1 wd rd bs hd2, e1]

theorem core (f g : Nat) (ih : P wenv renv ro f) (w r r' : Schema)
    (hw : Good wenv false w) (hr : Good renv true r) (huw : isList w = false) (hur : isList r = false)
    (h : matchSchemas g wenv renv w r = .ok r') :
    Refines (bodyC f wenv renv ro w r') (Spec.resolveRead (2*f+1) wenv renv w r) := by
  cases w with
  | union _ => simp [isList] at huw
  | prim p d lt => exact core_prim wenv renv hwf hrf hgw hgr ro f g p d lt r r' hw hr hur h
  | fixed n sz lt al => exact core_fixed wenv renv hwf hrf hgw hgr ro f g n sz lt al r r' hw hr hur h
  | enum n sy df al => exact core_enum wenv renv hwf hrf hgw hgr ro f g n sy df al r r' hr hur h
  | array wi => exact core_array wenv renv hwf hrf hgw hgr ro f g ih wi r r' hw hr hur h
  | map wv => exact core_map wenv renv hwf hrf hgw hgr ro f g ih wv r r' hw hr hur h
  | record n fs al => exact core_record wenv renv hwf hrf hgw hgr ro f g ih n fs al r r' hw hr hur h
  | ref n => exact core_ref wenv renv hwf hrf hgw hgr ro f g ih n r r' hw hr hur h

omit hgw hgr in
theorem spec_nomatch (F : Nat) (w r : Schema) (bs : Bytes) (h : Spec.matchesS wenv renv w r = false) :
    Spec.resolveRead (F+1) wenv renv w r bs = .error .resolution := by
  unfold Spec.resolveRead
  simp only [h, Bool.not_false, if_true]

omit hgw hgr in
theorem pick_mem (w : Schema) (rs : List Schema) (b : Schema) (h : Spec.pickBranch wenv renv w rs = some b) : b ∈ rs := by
  unfold Spec.pickBranch at h
  split at h
  · rename_i b' hb; cases h; exact List.mem_of_find?_eq_some hb
  · split at h
    · rename_i b' hb; cases h; exact List.mem_of_find?_eq_some hb
    · exact List.mem_of_find?_eq_some h

omit hgw hgr in
theorem pick_deref_w (w wd : Schema) (rs : List Schema) (h : Spec.deref wenv w = some wd) :
    Spec.pickBranch wenv renv wd rs = Spec.pickBranch wenv renv w rs := by
  have hi := deref_idem hwf w wd h
  have e1 : ∀ b, Spec.fullNameEq wenv renv wd b = Spec.fullNameEq wenv renv w b := by
    intro b; unfold Spec.fullNameEq; rw [hi, h]
  have e2 : ∀ ex b, Spec.matchesX ex wenv renv wd b = Spec.matchesX ex wenv renv w b :=
    fun ex b => (matches_deref_w wenv renv hwf hrf ex w wd b h).symm
  have e3 : ∀ ex, Spec.matchesX ex wenv renv wd = Spec.matchesX ex wenv renv w := fun ex => funext (e2 ex)
  unfold Spec.pickBranch Spec.sameType Spec.matchesS
  simp only [e1, e2, e3]

omit hgw hgr in
/-- specification, reader union -/
theorem spec_union_reader (F : Nat) (w : Schema) (rs : List Schema) (bs : Bytes)
    (hw : MClosed wenv false w) (huw : isList w = false) (hrs : ∀ b ∈ rs, MClosed renv true b) :
    Spec.resolveRead (F+1) wenv renv w (.union rs) bs =
      (match Spec.pickBranch wenv renv w rs with
       | some b => Spec.resolveRead F wenv renv w b bs
       | none => .error .resolution) := by
  obtain ⟨wd, hwd⟩ := deref_some_w wenv renv hwf hrf w hw
  have hs := rd_shape hwf w wd hwd huw
  rw [rr_deref wenv renv hwf hrf _ w wd _ _ bs hwd rfl]
  have hm : Spec.matchesS wenv renv wd (.union rs) = true := by
    rw [Spec.matchesS, ← matches_deref_w wenv renv hwf hrf false w wd _ hwd]
    exact spec_union_r wenv renv hwf hrf false rs w hw
  have hi := deref_idem hwf w wd hwd
  conv => lhs; unfold Spec.resolveRead
  simp only [hm, Bool.not_true, Bool.false_eq_true, if_false, hi]
  have key : (match Spec.pickBranch wenv renv wd rs with
       | some b => Spec.resolveRead F wenv renv wd b bs
       | none => throw .resolution) = (match Spec.pickBranch wenv renv w rs with
       | some b => Spec.resolveRead F wenv renv w b bs
       | none => .error .resolution) := by
    rw [pick_deref_w wenv renv hwf hrf w wd rs hwd]
    cases hp : Spec.pickBranch wenv renv w rs with
    | none => rfl
    | some b =>
      obtain ⟨bd, hbd⟩ := deref_some_r wenv renv hwf hrf b (hrs b (pick_mem wenv renv hwf hrf w rs b hp))
      simp only []
      rw [rr_deref wenv renv hwf hrf F wd wd b bd bs hi hbd, rr_deref wenv renv hwf hrf F w wd b bd bs hwd hbd]
  cases wd with
  | union _ => simp [isList] at hs
  | ref m => exact absurd rfl (hs.2 m)
  | _ => simp only [Spec.deref]; exact key

omit hgw hgr in
theorem mt_fuel (f : Nat) (a b : Schema) (e : Err) (h : matchTypes f wenv renv a b = .error e) : e = .fuel :=
  mt_err _ (ms_errOK wenv renv f) wenv renv a b e h

omit hgw hgr in
theorem fm_fuel (f : Nat) (w : Schema) (l : List Schema) (e : Err)
    (h : firstMatchWith (matchTypes f wenv renv) w l = .error e) : e = .fuel :=
  fm_err _ (fun a b e h => mt_fuel wenv renv hwf hrf f a b e h) w l e h

/-- writer and reader both not unions -/
theorem step_plain (f : Nat) (ih : P wenv renv ro f) (w r : Schema) (hw : Good wenv false w) (hr : Good renv true r)
    (huw : isList w = false) (hur : isList r = false) :
    Refines (readR (f+1) wenv renv ro w r) (Spec.resolveRead (2*f+2) wenv renv w r) := by
  intro bs hd
  rw [readR_succ] at hd ⊢
  cases hms : matchSchemas f wenv renv w r with
  | error e =>
    rw [hms] at hd
    rcases ms_errOK wenv renv f w r e hms with he | he
    · subst he; exact absurd rfl hd
    · subst he
      cases f with
      | zero => simp [matchSchemas] at hms
      | succ g =>
        have := ms_status wenv renv hwf hrf g w r false (good_closed _ _ _ hw) (good_closed _ _ _ hr) huw hur (by rw [hms]; rfl)
        rw [spec_nomatch wenv renv hwf hrf _ w r bs this.symm]
        rfl
  | ok r' =>
    rw [hms] at hd
    simp only [ok_bind] at hd ⊢
    have e1 := core wenv renv hwf hrf hgw hgr ro f f ih w r r' hw hr huw hur hms bs hd
    have hd2 : Def (Spec.resolveRead (2*f+1) wenv renv w r bs) := by rw [e1]; exact hd
    rw [rr_lift wenv renv (2*f+1) 1 w r bs hd2, e1]

/-- reader union, writer not a union -/
theorem step_runion (f : Nat) (ih : P wenv renv ro f) (w : Schema) (rs : List Schema) (hw : Good wenv false w)
    (hr : Good renv true (.union rs)) (huw : isList w = false) :
    Refines (readR (f+1) wenv renv ro w (.union rs)) (Spec.resolveRead (2*f+2) wenv renv w (.union rs)) := by
  intro bs hd
  have hrs := goodList_mem renv true rs hr
  rw [readR_succ] at hd ⊢
  rw [spec_union_reader wenv renv hwf hrf (2*f+1) w rs bs (good_closed _ _ _ hw) huw (fun b hb => good_closed _ _ _ (hrs b hb).1)]
  cases f with
  | zero => exact absurd rfl hd
  | succ g =>
    rw [ms_union_r wenv renv g w rs huw] at hd ⊢
    cases hfm : firstMatchWith (matchTypes g wenv renv) w (readerBranches wenv renv w rs) with
    | error e =>
      have := fm_fuel wenv renv hwf hrf g w _ e hfm
      subst this; rw [hfm] at hd; exact absurd rfl hd
    | ok o =>
      have ho := pick_spec wenv renv hwf hrf g w rs o (good_closed _ _ _ hw) huw
        (fun b hb => ⟨good_closed _ _ _ (hrs b hb).1, (hrs b hb).2⟩) hfm
      rw [hfm] at hd
      simp only [ok_bind] at hd ⊢
      rw [← ho]
      cases o with
      | none => rfl
      | some b =>
        have hb := pick_mem wenv renv hwf hrf w rs b ho.symm
        simp only [] at hd ⊢
        cases hms : matchSchemas g wenv renv w b with
        | error e =>
          rw [hms] at hd
          rcases ms_errOK wenv renv g w b e hms with he | he
          · subst he; exact absurd rfl hd
          · subst he
            cases g with
            | zero => simp [matchSchemas] at hms
            | succ g' =>
              have := ms_status wenv renv hwf hrf g' w b false (good_closed _ _ _ hw) (good_closed _ _ _ (hrs b hb).1) huw (hrs b hb).2 (by rw [hms]; rfl)
              rw [spec_nomatch wenv renv hwf hrf _ w b bs this.symm]
              rfl
        | ok r' =>
          rw [hms] at hd
          simp only [ok_bind] at hd ⊢
          exact core wenv renv hwf hrf hgw hgr ro (g+1) g ih w b r' hw (hrs b hb).1 huw (hrs b hb).2 hms bs hd

omit hgw hgr in
theorem indexChecked_mem {α} (xs : List α) (i : Int) (a : α) (h : indexChecked xs i = some a) : a ∈ xs := by
  unfold indexChecked at h
  split at h
  · cases h
  · exact List.mem_of_getElem? h

/-- writer union -/
theorem step_wunion (f : Nat) (ih : P wenv renv ro f) (wbs : List Schema) (r : Schema) (hw : Good wenv false (.union wbs))
    (hr : Good renv true r) :
    Refines (readR (f+1) wenv renv ro (.union wbs) r) (Spec.resolveRead (2*f+2) wenv renv (.union wbs) r) := by
  intro bs hd
  have hws := goodList_mem wenv false wbs hw
  obtain ⟨rd, hrd⟩ := deref_some_r wenv renv hwf hrf r (good_closed _ _ _ hr)
  rw [readR_succ] at hd ⊢
  cases f with
  | zero => exact absurd rfl hd
  | succ g =>
    have hms : matchSchemas (g+1) wenv renv (.union wbs) r = .ok r := by rw [matchSchemas]; rfl
    rw [hms] at hd ⊢
    simp only [ok_bind] at hd ⊢
    have hm := spec_union_w wenv renv hwf hrf false wbs r (good_closed _ _ _ hr)
    conv => lhs; unfold Spec.resolveRead
    simp only [Spec.matchesS, hm, Bool.not_true, Bool.false_eq_true, if_false, hrd]
    simp only [Spec.deref]
    simp only [bodyC] at hd ⊢
    cases hl : decodeLong bs with
    | error e => rfl
    | ok x =>
      obtain ⟨i, rest⟩ := x
      simp only [hl, ok_bind] at hd ⊢
      cases hi : indexChecked wbs i with
      | none => rfl
      | some b =>
        simp only [hi] at hd ⊢
        obtain ⟨hgb, hub⟩ := hws b (indexChecked_mem wenv renv hwf hrf wbs i b hi)
        by_cases hur : isList r = true
        · -- reader union: the branch is picked for the writer's branch
          cases r with
          | union rs =>
            have hrs := goodList_mem renv true rs hr
            simp only [Spec.deref, Option.some.injEq] at hrd
            subst hrd
            simp only [] at hd ⊢
            rw [spec_union_reader wenv renv hwf hrf (2*(g+1)) b rs rest (good_closed _ _ _ hgb) hub (fun x hx => good_closed _ _ _ (hrs x hx).1)]
            cases hfm : firstMatchWith (matchTypes (g+1) wenv renv) b (readerBranches wenv renv b rs) with
            | error e =>
              have := fm_fuel wenv renv hwf hrf (g+1) b _ e hfm
              subst this; rw [hfm] at hd; exact absurd rfl hd
            | ok o =>
              have ho := pick_spec wenv renv hwf hrf (g+1) b rs o (good_closed _ _ _ hgb) hub
                (fun x hx => ⟨good_closed _ _ _ (hrs x hx).1, (hrs x hx).2⟩) hfm
              rw [hfm] at hd
              simp only [ok_bind] at hd ⊢
              rw [← ho]
              cases o with
              | none => rfl
              | some rb =>
                have hb := pick_mem wenv renv hwf hrf b rs rb ho.symm
                simp only [] at hd ⊢
                exact ih b rb hgb (hrs rb hb).1 rest hd
          | _ => simp [isList] at hur
        · have hur' : isList r = false := by simpa using hur
          have hbody := cont_plain (g+1) wenv renv ro b r rest hur'
          rw [hbody] at hd ⊢
          obtain ⟨bd, hbd⟩ := deref_some_w wenv renv hwf hrf b (good_closed _ _ _ hgb)
          rw [rr_deref wenv renv hwf hrf _ b bd rd rd rest hbd (deref_idem hrf r rd hrd), ← rr_deref wenv renv hwf hrf _ b bd r rd rest hbd hrd]
          cases hmt : matchTypes (g+1) wenv renv b r with
          | error e =>
            have := mt_fuel wenv renv hwf hrf (g+1) b r e hmt
            subst this; rw [hmt] at hd; exact absurd rfl hd
          | ok bb =>
            have hbb := mt_spec wenv renv hwf hrf (g+1) b r bb (good_closed _ _ _ hgb) (good_closed _ _ _ hr) hmt
            rw [hmt] at hd
            simp only [ok_bind] at hd ⊢
            cases bb with
            | false =>
              simp only [Bool.false_eq_true, if_false]
              exact spec_nomatch wenv renv hwf hrf _ b r rest hbb.symm
            | true =>
              simp only [if_true] at hd ⊢
              have e1 := ih b r hgb hr rest hd
              have hd2 : Def (Spec.resolveRead (2*(g+1)) wenv renv b r rest) := by rw [e1]; exact hd
              rw [rr_lift wenv renv (2*(g+1)) 1 b r rest hd2, e1]

/-- **the resolving reader is the specification's**, at every nesting depth -/
theorem readR_spec (f : Nat) : P wenv renv ro f := by
  induction f with
  | zero => intro w r _ _ bs hd; exact absurd rfl hd
  | succ f ih =>
    intro w r hw hr
    have e : 2 * (f + 1) = 2 * f + 2 := by omega
    rw [e]
    by_cases huw : isList w = true
    · cases w with
      | union wbs => exact step_wunion wenv renv hwf hrf hgw hgr ro f ih wbs r hw hr
      | _ => simp [isList] at huw
    · have huw' : isList w = false := by simpa using huw
      by_cases hur : isList r = true
      · cases r with
        | union rs => exact step_runion wenv renv hwf hrf hgw hgr ro f ih w rs hw hr huw'
        | _ => simp [isList] at hur
      · exact step_plain wenv renv hwf hrf hgw hgr ro f ih w r hw hr huw' (by simpa using hur)

end

/-- every definite result of the model's resolving reader is the specification reader's result -/
theorem readR_eq_spec (wenv renv : Env) (hwf : EnvWF wenv) (hrf : EnvWF renv) (hgw : EnvGood wenv false) (hgr : EnvGood renv true)
    (ro : ROpts) (fuel : Nat) (w r : Schema) (hw : Good wenv false w) (hr : Good renv true r) (bs : Bytes)
    (hd : readR fuel wenv renv ro w r bs ≠ .error .fuel) :
    Spec.resolveRead (2*fuel) wenv renv w r bs = readR fuel wenv renv ro w r bs :=
  readR_spec wenv renv hwf hrf hgw hgr ro fuel w r hw hr bs hd

end ResolveFull
