/-
  Proofs/Validate.lean — C10: `validate` decides exactly the documented conformance relation
  (`Spec.conforms`); raising mode raises `ValidationError` precisely in the `False` cases.
-/
import Model.Validate
import Spec.Conforms
import Proofs.Mono

namespace ValidateProofs
open Validate MonoProofs

/-! ### helper loops against `List.all` / `List.any` / `List.find?` -/

theorem allM_eq (p : Val → R Bool) (q : Val → Bool) (xs : List Val) (b : Bool)
    (h : allM p xs = .ok b) (hpq : ∀ x ∈ xs, ∀ r, p x = .ok r → q x = r) : xs.all q = b := by
  induction xs with
  | nil => simp only [allM, pure_ok_iff] at h; simp [← h]
  | cons x xs ih =>
    simp only [allM, bind_ok_iff] at h
    obtain ⟨r, h1, h2⟩ := h
    have hq := hpq x (by simp) r h1
    cases r
    · simp only [Bool.false_eq_true, ↓reduceIte, pure_ok_iff] at h2
      simp [hq, ← h2]
    · simp only [↓reduceIte] at h2
      simp only [List.all_cons, hq, Bool.true_and]
      exact ih h2 (fun y hy => hpq y (by simp [hy]))

theorem fieldsWith_eq (vd : String → Schema → Option Val → R Bool) (q : Field → Bool) (full : String)
    (fs : List Field) (kv : List (Val × Val)) (b : Bool)
    (h : fieldsWith vd full fs kv = .ok b)
    (hpq : ∀ f ∈ fs, ∀ r, vd (full ++ "." ++ f.name) f.type
        (match dictGetV kv f.name with | some v => some v | none => f.default) = .ok r → q f = r) :
    fs.all q = b := by
  induction fs with
  | nil => simp only [fieldsWith, pure_ok_iff] at h; simp [← h]
  | cons f fs ih =>
    simp only [fieldsWith, bind_ok_iff] at h
    obtain ⟨r, h1, h2⟩ := h
    have hq := hpq f (by simp) r h1
    cases r
    · simp only [Bool.false_eq_true, ↓reduceIte, pure_ok_iff] at h2
      simp [hq, ← h2]
    · simp only [↓reduceIte] at h2
      simp only [List.all_cons, hq, Bool.true_and]
      exact ih h2 (fun y hy => hpq y (by simp [hy]))

theorem hintWith_eq (vd : Schema → Option Val → R Bool) (q : Schema → Bool) (nameV inner : Val) (bs : List Schema) (b : Bool)
    (h : hintWith vd nameV inner bs = .ok b)
    (hpq : ∀ s ∈ bs, ∀ r, vd s (some inner) = .ok r → q s = r) :
    (match bs.find? (hintHits nameV) with | some s => q s | none => false) = b := by
  induction bs with
  | nil => simp only [hintWith, pure_ok_iff] at h; simp [← h]
  | cons s bs ih =>
    simp only [hintWith] at h
    simp only [List.find?_cons]
    split at h
    · rename_i hh; simp only [hh]; exact hpq s (by simp) b h
    · rename_i hh
      have : hintHits nameV s = false := by simpa using hh
      simp only [this]
      exact ih h (fun y hy => hpq y (by simp [hy]))

/-- the un-hinted loop, provided no branch raises a ValidationError (non-raising mode) -/
theorem unionWith_eq (vd : Schema → Option Val → R Bool) (q : Schema → Bool) (v : Val) (bs : List Schema) (b : Bool)
    (h : unionWith vd v bs = .ok b)
    (hnv : ∀ s ∈ bs, vd s (some v) ≠ .error .validation)
    (hpq : ∀ s ∈ bs, ∀ r, vd s (some v) = .ok r → q s = r) : bs.any q = b := by
  induction bs with
  | nil => simp only [unionWith, pure_ok_iff] at h; simp [← h]
  | cons s bs ih =>
    simp only [unionWith] at h
    split at h
    · rename_i heq
      simp only [pure_ok_iff] at h
      simp [hpq s (by simp) true heq, ← h]
    · rename_i heq
      simp only [List.any_cons, hpq s (by simp) false heq, Bool.false_or]
      exact ih h (fun y hy => hnv y (by simp [hy])) (fun y hy => hpq y (by simp [hy]))
    · rename_i heq
      exact absurd heq (hnv s (by simp))
    · simp [throw_ne_ok] at h

/-! ### facts about the guard -/

theorem plainList_mem {bs : List Schema} (h : Schema.plainList bs = true) : ∀ b ∈ bs, b.plain = true := by
  induction bs with
  | nil => intro b hb; cases hb
  | cons x xs ih =>
    simp only [Schema.plainList, Bool.and_eq_true] at h
    intro b hb
    rcases List.mem_cons.mp hb with rfl | hb
    · exact h.1
    · exact ih h.2 b hb

theorem plainFields_mem {fs : List Field} (h : Schema.plainFields fs = true) : ∀ f ∈ fs, f.type.plain = true := by
  induction fs with
  | nil => intro f hf; cases hf
  | cons x xs ih =>
    obtain ⟨n, t, d, a⟩ := x
    simp only [Schema.plainFields, Bool.and_eq_true] at h
    intro f hf
    rcases List.mem_cons.mp hf with rfl | hf
    · exact h.1
    · exact ih h.2 f hf

theorem env_plain_get {env : Env} (h : env.plain = true) {n : String} {s : Schema} (hg : env.get? n = some s) :
    s.plain = true := by
  induction env with
  | nil => simp [Env.get?] at hg
  | cons e rest ih =>
    obtain ⟨k, sk⟩ := e
    simp only [Env.plain, List.all_cons, Bool.and_eq_true] at h
    simp only [Env.get?] at hg
    split at hg
    · simp only [Option.some.injEq] at hg; subst hg; exact h.1
    · exact ih (by simpa [Env.plain] using h.2) hg

/-! ### non-raising mode never produces a ValidationError -/

def NV (r : R Bool) : Prop := r ≠ .error .validation

theorem allM_NV (p : Val → R Bool) (xs : List Val) (h : ∀ x, NV (p x)) : NV (allM p xs) := by
  induction xs with
  | nil => simp [NV, allM, pure, Except.pure]
  | cons x xs ih =>
    unfold NV at *
    simp only [allM]
    cases hp : p x with
    | error e =>
      simp only [bind, Except.bind]
      intro heq; injection heq with heq; subst heq
      exact h x hp
    | ok b =>
      simp only [bind, Except.bind]
      cases b
      · simp [pure, Except.pure]
      · simpa using ih

theorem fieldsWith_NV (vd : String → Schema → Option Val → R Bool) (full : String) (fs : List Field)
    (kv : List (Val × Val)) (h : ∀ f ∈ fs, ∀ fld d, NV (vd fld f.type d)) : NV (fieldsWith vd full fs kv) := by
  induction fs with
  | nil => simp [NV, fieldsWith, pure, Except.pure]
  | cons f fs ih =>
    have ih' := ih (fun g hg => h g (by simp [hg]))
    unfold NV at *
    simp only [fieldsWith]
    cases hp : vd (full ++ "." ++ f.name) f.type (match dictGetV kv f.name with | some v => some v | none => f.default) with
    | error e =>
      simp only [bind, Except.bind]
      intro heq; injection heq with heq; subst heq
      exact h f (by simp) _ _ hp
    | ok b =>
      simp only [bind, Except.bind]
      cases b
      · simp [pure, Except.pure]
      · simpa using ih'

theorem hintWith_NV (vd : Schema → Option Val → R Bool) (nameV inner : Val) (bs : List Schema)
    (h : ∀ s ∈ bs, ∀ d, NV (vd s d)) : NV (hintWith vd nameV inner bs) := by
  induction bs with
  | nil => simp [NV, hintWith, pure, Except.pure]
  | cons b bs ih =>
    simp only [hintWith]
    split
    · exact h b (by simp) _
    · exact ih (fun s hs => h s (by simp [hs]))

theorem unionWith_NV (vd : Schema → Option Val → R Bool) (v : Val) (bs : List Schema) : NV (unionWith vd v bs) := by
  induction bs with
  | nil => simp [NV, unionWith, pure, Except.pure]
  | cons b bs ih =>
    simp only [unionWith]
    split
    · simp [NV, pure, Except.pure]
    · exact ih
    · exact ih
    · simp only [NV, throw, throwThe, MonadExceptOf.throw]
      intro heq; injection heq with heq; subst heq
      rename_i hne _
      exact hne rfl

theorem ite_NV (c : Prop) [Decidable c] (a b : R Bool) (ha : NV a) (hb : NV b) : NV (if c then a else b) := by
  split <;> assumption

theorem node_NV (vd : String → Schema → Option Val → R Bool) (env : Env) (o : VOpts) (field : String) (s : Schema) (v : Val)
    (henv : env.plain = true) (hs : s.plain = true)
    (h : ∀ fld s d, s.plain = true → NV (vd fld s d)) : NV (validateNode vd env o field s v) := by
  cases s with
  | prim p df lt =>
    simp only [Schema.plain, Option.isNone_iff_eq_none] at hs; subst hs
    simp [validateNode, NV, Logical.prepare, bind, Except.bind, pure, Except.pure]
  | fixed n sz lt al =>
    simp only [Schema.plain, Option.isNone_iff_eq_none] at hs; subst hs
    simp [validateNode, NV, Logical.prepare, bind, Except.bind, pure, Except.pure]
  | enum n syms d al => simp [validateNode, NV, pure, Except.pure]
  | array items =>
    simp only [Schema.plain] at hs
    simp only [validateNode]
    split
    · exact allM_NV _ _ (fun x => h _ _ _ hs)
    · simp [NV, pure, Except.pure]
  | map values =>
    simp only [Schema.plain] at hs
    simp only [validateNode]
    split
    · split
      · exact allM_NV _ _ (fun x => h _ _ _ hs)
      · simp [NV, pure, Except.pure]
    · simp [NV, pure, Except.pure]
  | record n fields al =>
    simp only [Schema.plain] at hs
    cases v <;> simp only [validateNode] <;> try (simp [NV, pure, Except.pure])
    apply ite_NV
    · simp [NV, pure, Except.pure]
    · exact fieldsWith_NV _ _ _ _ (fun f hf fld d => h _ _ _ (plainFields_mem hs f hf))
  | union branches =>
    simp only [Schema.plain] at hs
    simp only [validateNode]
    split
    · split
      · exact hintWith_NV _ _ _ _ (fun s hsm d => h _ _ _ (plainList_mem hs s hsm))
      · simp [NV, throw, throwThe, MonadExceptOf.throw]
    · exact unionWith_NV _ _ _
  | ref n =>
    simp only [validateNode]
    split
    · rename_i s' hg
      exact h _ _ _ (env_plain_get henv hg)
    · simp [NV, throw, throwThe, MonadExceptOf.throw]

theorem validate_NV (env : Env) (o : VOpts) (henv : env.plain = true) (fuel : Nat) :
    ∀ field s d, s.plain = true → NV (validate fuel env o false field s d) := by
  induction fuel with
  | zero => intro field s d _; simp [NV, validate]
  | succ fuel ih =>
    intro field s d hs
    simp only [validate, NV, Bool.false_and, Bool.false_eq_true, ↓reduceIte]
    split
    · simp [bind, Except.bind, pure, Except.pure]
    · have := node_NV (validate fuel env o false) env o field s (d.getD .none) henv hs (fun fld s d hp => ih fld s d hp)
      unfold NV at this
      cases hb : validateNode (validate fuel env o false) env o field s (d.getD Val.none) with
      | error e =>
        simp only [bind, Except.bind]
        intro heq; injection heq with heq; subst heq
        exact this hb
      | ok b => simp [bind, Except.bind, pure, Except.pure]

/-! ### `validate` computes `Spec.conforms` -/

theorem validPrim_eq (p : Prim) (v : Val) : validPrim p v = Spec.conformsPrim p v := by
  have e31 : (2:Int)^31 = 2147483648 := by decide
  have e63 : (2:Int)^63 = 9223372036854775808 := by decide
  cases p <;> cases v <;> simp only [validPrim, Spec.conformsPrim, INT_MIN, INT_MAX, LONG_MIN, LONG_MAX]
  · rename_i n; rw [e31]; by_cases h1 : (-2147483648 : Int) ≤ n <;> by_cases h2 : n ≤ (2147483647 : Int) <;> simp [h1, h2] <;> omega
  · rename_i n; rw [e63]; by_cases h1 : (-9223372036854775808 : Int) ≤ n <;> by_cases h2 : n ≤ (9223372036854775807 : Int) <;> simp [h1, h2] <;> omega

theorem asSeq_eq (v : Val) : asSeq? v = Spec.seqItems? v := by cases v <;> rfl

/-- what `_validate` one level down returns, in terms of the specification -/
def childSpec (cf : Schema → Val → Bool) (strict : Bool) (s : Schema) (d : Option Val) : Bool :=
  match d with
  | some x => cf s x
  | none => !strict && cf s .none

theorem node_eq (vd : String → Schema → Option Val → R Bool) (cf : Schema → Val → Bool) (env : Env) (o : VOpts)
    (field : String) (s : Schema) (v : Val) (b : Bool)
    (henv : env.plain = true) (hs : s.plain = true)
    (hnv : ∀ fld s d, s.plain = true → NV (vd fld s d))
    (hch : ∀ fld s d r, s.plain = true → vd fld s d = .ok r → childSpec cf o.strict s d = r)
    (h : validateNode vd env o field s v = .ok b) :
    Spec.conformsNode cf env o.strict o.disableTuple s v = b := by
  cases s with
  | prim p df lt =>
    simp only [Schema.plain, Option.isNone_iff_eq_none] at hs; subst hs
    simp only [validateNode, Logical.prepare, bind_ok_iff, pure_ok_iff] at h
    obtain ⟨x, hx, hb⟩ := h
    simp only [Except.ok.injEq] at hx; subst hx
    simp only [Spec.conformsNode]
    rw [← hb, validPrim_eq]
  | fixed n sz lt al =>
    simp only [Schema.plain, Option.isNone_iff_eq_none] at hs; subst hs
    simp only [validateNode, Logical.prepare, bind_ok_iff, pure_ok_iff] at h
    obtain ⟨x, hx, hb⟩ := h
    simp only [Except.ok.injEq] at hx; subst hx
    simp only [Spec.conformsNode]
    exact hb
  | enum n syms d al =>
    simp only [validateNode, pure_ok_iff] at h; simp only [Spec.conformsNode]; exact h
  | array items =>
    simp only [Schema.plain] at hs
    simp only [Spec.conformsNode]
    simp only [validateNode, asSeq_eq] at h
    cases hq : Spec.seqItems? v with
    | none => simp only [hq, pure_ok_iff] at h; simp [← h]
    | some xs =>
      simp only [hq] at h
      exact allM_eq _ _ xs b h (fun x _ r hr => by
        have := hch _ _ _ r hs hr
        simpa [childSpec] using this)
  | map values =>
    simp only [Schema.plain] at hs
    cases v
    all_goals (try (simp only [validateNode, pure_ok_iff] at h; simp [Spec.conformsNode, ← h]; done))
    rename_i kv
    simp only [validateNode] at h
    split at h
    · rename_i hk
      have := allM_eq _ (fun x => cf values x) (kv.map (·.2)) b h (fun x _ r hr => by
        have := hch _ _ _ r hs hr
        simpa [childSpec] using this)
      simp only [List.all_map, Function.comp] at this
      simp only [Spec.conformsNode, hk, Bool.true_and]
      exact this
    · rename_i hk
      simp only [pure_ok_iff] at h
      simp only [Bool.not_eq_true] at hk
      simp only [Spec.conformsNode]
      rw [hk]; simp [← h]
  | record n fields al =>
    simp only [Schema.plain] at hs
    cases v
    all_goals (try (simp only [validateNode, pure_ok_iff] at h; simp [Spec.conformsNode, ← h]; done))
    rename_i kv
    simp only [validateNode] at h
    simp only [Spec.conformsNode]
    cases htk : typeHintOk kv n
    · simp only [htk, Bool.not_false, ↓reduceIte, pure_ok_iff] at h
      simp [← h]
    · simp only [htk, Bool.not_true, Bool.false_eq_true, ↓reduceIte] at h
      simp only [Bool.true_and]
      apply fieldsWith_eq _ _ _ fields kv b h
      intro f hf r hr
      have := hch _ _ _ r (plainFields_mem hs f hf) hr
      simp only [childSpec] at this
      cases hg : dictGetV kv f.name with
      | some x => simpa [hg] using this
      | none =>
        simp only [hg] at this ⊢
        cases hd : f.default with
        | some dv => simpa [hd] using this
        | none => simpa [hd] using this
  | union branches =>
    simp only [Schema.plain] at hs
    have hU : ∀ v', unionWith (fun b d => vd field b d) v' branches = .ok b → (branches.any fun s => cf s v') = b := by
      intro v' h'
      exact unionWith_eq _ (fun s => cf s v') v' branches b h'
        (fun s hsm => hnv _ _ _ (plainList_mem hs s hsm))
        (fun s hsm r hr => by
          have := hch _ _ _ r (plainList_mem hs s hsm) hr
          simpa [childSpec] using this)
    have hH : ∀ nameV inner, hintWith (fun b d => vd field b d) nameV inner branches = .ok b →
        (match branches.find? fun s => nameV.strEq (Spec.branchName s) with
         | some s => cf s inner | none => false) = b := by
      intro nameV inner h'
      have hf : (fun s => nameV.strEq (Spec.branchName s)) = hintHits nameV := rfl
      rw [hf]
      exact hintWith_eq _ (fun s => cf s inner) nameV inner branches b h'
        (fun s hsm r hr => by
          have := hch _ _ _ r (plainList_mem hs s hsm) hr
          simpa [childSpec] using this)
    cases v <;> cases hd : o.disableTuple <;> simp only [validateNode, Spec.conformsNode, hd] at h ⊢
    all_goals first
      | exact hU _ h
      | skip
    -- the remaining goal: a tuple with tuple notation enabled
    rename_i xs
    match xs, h with
    | [nameV, inner], h => exact hH nameV inner h
    | [], h => simp [throw_ne_ok] at h
    | [_], h => simp [throw_ne_ok] at h
    | _ :: _ :: _ :: _, h => simp [throw_ne_ok] at h
  | ref n =>
    simp only [validateNode] at h
    cases hg : env.get? n with
    | none => simp [hg, throw_ne_ok] at h
    | some s' =>
      simp only [hg] at h
      simp only [Spec.conformsNode, hg]
      have := hch _ _ _ b (env_plain_get henv hg) h
      simpa [childSpec] using this

/-- **`validate` (non-raising) returns exactly `Spec.conforms`**, for every plain schema, datum,
    `strict` and `disable_tuple_notation` setting; an absent field (`d = none`) is rejected in strict
    mode and reads as `None` otherwise -/
theorem validate_eq_conforms (env : Env) (o : VOpts) (henv : env.plain = true) (fuel : Nat) :
    ∀ field s d b, s.plain = true → validate fuel env o false field s d = .ok b →
      childSpec (Spec.conforms fuel env o.strict o.disableTuple) o.strict s d = b := by
  induction fuel with
  | zero => intro field s d b _ h; simp [validate] at h
  | succ fuel ih =>
    intro field s d b hs h
    simp only [validate, Bool.false_and, Bool.false_eq_true, ↓reduceIte, bind_ok_iff, pure_ok_iff] at h
    obtain ⟨r, h1, rfl⟩ := h
    have hnode : ∀ v, validateNode (validate fuel env o false) env o field s v = .ok r →
        Spec.conforms (fuel + 1) env o.strict o.disableTuple s v = r := by
      intro v hv
      simp only [Spec.conforms]
      exact node_eq (validate fuel env o false) (Spec.conforms fuel env o.strict o.disableTuple) env o field s v r henv hs
        (fun fld s d hp => validate_NV env o henv fuel fld s d hp)
        (fun fld s d r hp hr => ih fld s d r hp hr) hv
    cases d with
    | none =>
      simp only [Option.isNone_none, Bool.true_and, Option.getD_none] at h1
      simp only [childSpec]
      cases hst : o.strict
      · simp only [hst, Bool.false_eq_true, ↓reduceIte] at h1
        have := hnode .none h1
        simp only [hst] at this
        simp [this]
      · simp only [hst, ↓reduceIte, pure_ok_iff] at h1
        simp [← h1]
    | some x =>
      simp only [Option.isNone_some, Bool.false_and, Bool.false_eq_true, ↓reduceIte, Option.getD_some] at h1
      simp only [childSpec]
      exact hnode x h1

/-! ### raising mode raises exactly where the non-raising mode returns False -/

/-- what raising mode turns a non-raising result into -/
def lift (r : R Bool) : R Bool :=
  match r with
  | .ok false => .error .validation
  | x => x

theorem lift_lift (r : R Bool) : lift (lift r) = lift r := by
  cases r with
  | error e => rfl
  | ok b => cases b <;> rfl

theorem allM_lift (pT pF : Val → R Bool) (xs : List Val) (h : ∀ x, pT x = lift (pF x)) :
    lift (allM pT xs) = lift (allM pF xs) := by
  induction xs with
  | nil => rfl
  | cons x xs ih =>
    simp only [allM, h x]
    cases hp : pF x with
    | error e => simp [lift, bind, Except.bind]
    | ok b =>
      cases b
      · simp [lift, bind, Except.bind, pure, Except.pure]
      · simpa [lift, bind, Except.bind] using ih

theorem fieldsWith_lift (vT vF : String → Schema → Option Val → R Bool) (full : String) (fs : List Field)
    (kv : List (Val × Val)) (h : ∀ fld s d, vT fld s d = lift (vF fld s d)) :
    lift (fieldsWith vT full fs kv) = lift (fieldsWith vF full fs kv) := by
  induction fs with
  | nil => rfl
  | cons f fs ih =>
    simp only [fieldsWith, h]
    cases hp : vF (full ++ "." ++ f.name) f.type (match dictGetV kv f.name with | some v => some v | none => f.default) with
    | error e => simp [lift, bind, Except.bind]
    | ok b =>
      cases b
      · simp [lift, bind, Except.bind, pure, Except.pure]
      · simpa [lift, bind, Except.bind] using ih

theorem hintWith_lift (vT vF : Schema → Option Val → R Bool) (nameV inner : Val) (bs : List Schema)
    (h : ∀ s d, vT s d = lift (vF s d)) :
    lift (hintWith vT nameV inner bs) = lift (hintWith vF nameV inner bs) := by
  induction bs with
  | nil => rfl
  | cons b bs ih =>
    simp only [hintWith]
    split
    · rw [h, lift_lift]
    · exact ih

theorem unionWith_lift (vT vF : Schema → Option Val → R Bool) (v : Val) (bs : List Schema)
    (h : ∀ s d, vT s d = lift (vF s d)) : unionWith vT v bs = unionWith vF v bs := by
  induction bs with
  | nil => rfl
  | cons b bs ih =>
    simp only [unionWith, h]
    cases hp : vF b (some v) with
    | error e => cases e <;> simp [lift, ih]
    | ok r => cases r <;> simp [lift, ih]

theorem node_lift (vT vF : String → Schema → Option Val → R Bool) (env : Env) (o : VOpts) (field : String)
    (s : Schema) (v : Val) (h : ∀ fld s d, vT fld s d = lift (vF fld s d)) :
    lift (validateNode vT env o field s v) = lift (validateNode vF env o field s v) := by
  cases s with
  | prim p df lt => rfl
  | fixed n sz lt al => rfl
  | enum n syms d al => rfl
  | array items =>
    simp only [validateNode]
    split
    · exact allM_lift _ _ _ (fun x => h _ _ _)
    · rfl
  | map values =>
    cases v <;> simp only [validateNode]
    split
    · exact allM_lift _ _ _ (fun x => h _ _ _)
    · rfl
  | record n fields al =>
    cases v <;> simp only [validateNode]
    split
    · rfl
    · exact fieldsWith_lift _ _ _ _ _ h
  | union branches =>
    simp only [validateNode]
    split
    · split
      · exact hintWith_lift _ _ _ _ _ (fun s d => h _ _ _)
      · rfl
    · rw [unionWith_lift _ _ _ _ (fun s d => h _ _ _)]
  | ref n =>
    simp only [validateNode]
    split
    · rw [h, lift_lift]
    · rfl

/-- **raising mode = non-raising mode with `False` turned into `ValidationError`**, at every depth -/
theorem validate_raise_eq (env : Env) (o : VOpts) (fuel : Nat) :
    ∀ field s d, validate fuel env o true field s d = lift (validate fuel env o false field s d) := by
  induction fuel with
  | zero => intro field s d; rfl
  | succ fuel ih =>
    intro field s d
    have hn := node_lift (validate fuel env o true) (validate fuel env o false) env o field s (d.getD .none)
      (fun fld s d => ih fld s d)
    simp only [validate, Bool.true_and, Bool.false_and, Bool.false_eq_true, ↓reduceIte]
    split
    · simp [lift, bind, Except.bind, pure, Except.pure, throw, throwThe, MonadExceptOf.throw]
    · cases hT : validateNode (validate fuel env o true) env o field s (d.getD .none) with
      | error e =>
        cases hF : validateNode (validate fuel env o false) env o field s (d.getD .none) with
        | error e' =>
          simp only [hT, hF, lift] at hn
          simp [bind, Except.bind, lift, hn]
        | ok b =>
          cases b <;> simp only [hT, hF, lift] at hn <;>
            simp [bind, Except.bind, lift, pure, Except.pure, hn]
      | ok bT =>
        cases hF : validateNode (validate fuel env o false) env o field s (d.getD .none) with
        | error e' =>
          cases bT <;> simp only [hT, hF, lift] at hn <;>
            simp [bind, Except.bind, lift, pure, Except.pure, throw, throwThe, MonadExceptOf.throw, ← hn]
        | ok bF =>
          cases bT <;> cases bF <;> simp only [hT, hF, lift] at hn <;>
            simp [bind, Except.bind, lift, pure, Except.pure, throw, throwThe, MonadExceptOf.throw] at hn ⊢

end ValidateProofs
