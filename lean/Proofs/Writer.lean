/-
  Proofs/Writer.lean — the `Writer` state machine (C04, C05, C07): for every history of
  write / failed write / flush / write_block the output stream is `header ++` a well-formed block
  sequence holding exactly the records successfully submitted, in order; after a flush it reads back
  as those records. Generic in the record codec; the hypotheses about it (`hrt`, `hext`) are the
  theorems C01 (`c01_roundtrip`) and C03 (`c03_read_extend`).
-/
import Proofs.Container

namespace WriterProofs
open Binary Container ContainerProofs BasicProofs MonoProofs

/-- decode `n` records, returning what is left -/
def decMany (dec : Bytes → R (Val × Bytes)) : Nat → Bytes → R (List Val × Bytes)
  | 0, bs => .ok ([], bs)
  | n+1, bs => do
    let (v, r) ← dec bs
    let (vs, r') ← decMany dec n r
    pure (v :: vs, r')

theorem readRecords_of_decMany (dec : Bytes → R (Val × Bytes)) (n : Nat) (bs : Bytes) (vs : List Val) (r : Bytes)
    (h : decMany dec n bs = .ok (vs, r)) : readRecords dec n bs = (vs, none) := by
  induction n generalizing bs vs with
  | zero => simp only [decMany, Except.ok.injEq, Prod.mk.injEq] at h; simp [readRecords, h.1.symm]
  | succ n ih =>
    simp only [decMany, bind_ok_iff, pure_ok_iff] at h
    obtain ⟨⟨v, r1⟩, h1, ⟨vs', r2⟩, h2, h3⟩ := h
    simp only [Prod.mk.injEq] at h3
    obtain ⟨rfl, rfl⟩ := h3
    simp only [readRecords, h1, ih _ _ h2]

/-- appending one more encoded record to a buffer that holds exactly `n` records -/
theorem decMany_snoc (dec : Bytes → R (Val × Bytes))
    (hext : ∀ p v r q, dec p = .ok (v, r) → dec (p ++ q) = .ok (v, r ++ q))
    (n : Nat) (bs w : Bytes) (vs : List Val) (nf : Val)
    (h : decMany dec n bs = .ok (vs, [])) (hw : dec w = .ok (nf, [])) :
    decMany dec (n + 1) (bs ++ w) = .ok (vs ++ [nf], []) := by
  induction n generalizing bs vs with
  | zero =>
    simp only [decMany, Except.ok.injEq, Prod.mk.injEq] at h
    obtain ⟨rfl, rfl⟩ := h
    simp [decMany, hw, bind, Except.bind, pure, Except.pure]
  | succ n ih =>
    simp only [decMany, bind_ok_iff, pure_ok_iff] at h
    obtain ⟨⟨v, r1⟩, h1, ⟨vs', r2⟩, h2, h3⟩ := h
    simp only [Prod.mk.injEq] at h3
    obtain ⟨rfl, rfl⟩ := h3
    have e1 := hext _ _ _ w h1
    have e2 := ih r1 vs' h2
    rw [decMany, e1]
    simp only [bind, Except.bind, e2, pure, Except.pure, List.cons_append]

section
variable (enc : Val → WR) (dec : Bytes → R (Val × Bytes)) (validate : Val → R Bool) (cfg : WCfg)
variable (nfOf : Val → Val)

/-- ghost view of a writer state: the blocks written so far, the records sitting in the pending block,
    everything successfully submitted -/
structure Ghost where
  blocks : List Blk
  pend : List Val
  submitted : List Val

def WInv (hdr : Bytes) (st : WState) (g : Ghost) : Prop :=
  st.out = hdr ++ flat cfg.codec cfg.sync g.blocks ∧
  (∀ b ∈ g.blocks, readRecords dec b.count b.payload = (b.recs, none)) ∧
  decMany dec st.count st.pending = .ok (g.pend, []) ∧
  g.blocks.flatMap (·.recs) ++ g.pend = g.submitted

def gDump (st : WState) (g : Ghost) : Ghost :=
  { g with blocks := g.blocks ++ [⟨st.count, st.pending, g.pend⟩], pend := [] }

/-- the ghost step mirrors `Container.step` -/
def gStep (st : WState) (g : Ghost) : Op → Ghost
  | .write v =>
    if (step enc validate cfg st (.write v)).2.isSome then g
    else
      let w := enc v
      let st' : WState := { st with pending := st.pending ++ w.out, count := st.count + 1 }
      let g' : Ghost := { g with pend := g.pend ++ [nfOf v], submitted := g.submitted ++ [nfOf v] }
      if st'.pending.length ≥ cfg.interval then gDump st' g' else g'
  | .flush => if st.pending.length != 0 || st.count > 0 then gDump st g else g
  | .writeBlock n payload =>
    let g1 := if st.pending.length != 0 || st.count > 0 then gDump st g else g
    let recs := (readRecords dec n.toNat payload).1
    { g1 with blocks := g1.blocks ++ [⟨n.toNat, payload, recs⟩], submitted := g1.submitted ++ recs }

/-- what a history may contain: records whose encoding round-trips (C01), blocks of another file that
    decode to their record count; sizes stay below 2^63 -/
def OpOk : Op → Prop
  | .write v => ∀ w, enc v = ⟨w, none⟩ → dec w = .ok (nfOf v, [])
  | .flush => True
  | .writeBlock n payload => 0 ≤ n ∧ (readRecords dec n.toNat payload).2 = none

variable (hext : ∀ p v r q, dec p = .ok (v, r) → dec (p ++ q) = .ok (v, r ++ q))

theorem dump_inv (hdr : Bytes) (st : WState) (g : Ghost) (h : WInv dec cfg hdr st g) :
    WInv dec cfg hdr (dump cfg st) (gDump st g) := by
  obtain ⟨h1, h2, h3, h4⟩ := h
  refine ⟨?_, ?_, rfl, ?_⟩
  · simp only [dump, gDump, h1, flat, List.flatMap_append, List.flatMap_cons, List.flatMap_nil, List.append_nil,
      Blk.bytes, List.append_assoc]
  · intro b hb
    simp only [gDump, List.mem_append, List.mem_singleton] at hb
    rcases hb with hb | rfl
    · exact h2 b hb
    · exact readRecords_of_decMany dec _ _ _ _ h3
  · simp only [gDump, List.flatMap_append, List.flatMap_cons, List.flatMap_nil, List.append_nil]
    rw [← h4]

omit hext in
theorem step_write_cases (st : WState) (v : Val) :
    (∃ e, step enc validate cfg st (.write v) = (st, some e)) ∨
    (∃ w, enc v = ⟨w, none⟩ ∧ step enc validate cfg st (.write v) =
      (if (st.pending ++ w).length ≥ cfg.interval
        then dump cfg { st with pending := st.pending ++ w, count := st.count + 1 }
        else { st with pending := st.pending ++ w, count := st.count + 1 }, none)) := by
  simp only [step]
  cases writeGate validate cfg v with
  | some e => left; exact ⟨e, rfl⟩
  | none =>
    cases hev : enc v with
    | mk o e =>
      cases e with
      | some e => left; exact ⟨e, rfl⟩
      | none => right; exact ⟨o, rfl, rfl⟩

include hext in
/-- **one step preserves the invariant** (write, failed write, flush, block copy) -/
theorem inv_step (hdr : Bytes) (st : WState) (g : Ghost) (op : Op) (h : WInv dec cfg hdr st g)
    (hop : OpOk enc dec nfOf op) :
    WInv dec cfg hdr (step enc validate cfg st op).1 (gStep enc dec validate cfg nfOf st g op) := by
  cases op with
  | write v =>
    rcases step_write_cases enc validate cfg st v with ⟨e, hfail⟩ | ⟨w, hw, hok⟩
    · simp only [gStep, hfail, Option.isSome_some, ↓reduceIte]; exact h
    · simp only [gStep, hok, Option.isSome_none, Bool.false_eq_true, ↓reduceIte, hw]
      obtain ⟨h1, h2, h3, h4⟩ := h
      have hdec := hop w hw
      have hinv' : WInv dec cfg hdr { st with pending := st.pending ++ w, count := st.count + 1 }
          { g with pend := g.pend ++ [nfOf v], submitted := g.submitted ++ [nfOf v] } :=
        ⟨h1, h2, decMany_snoc dec hext _ _ _ _ _ h3 hdec, by simp only [← h4, List.append_assoc]⟩
      split
      · exact dump_inv dec cfg hdr _ _ hinv'
      · exact hinv'
  | flush =>
    simp only [step, gStep, dumpIfPending]
    split
    · exact dump_inv dec cfg hdr _ _ h
    · exact h
  | writeBlock n payload =>
    simp only [step, gStep, dumpIfPending]
    obtain ⟨hn, hrec⟩ := hop
    have key : ∀ (st1 : WState) (g1 : Ghost), WInv dec cfg hdr st1 g1 → g1.pend = [] →
        WInv dec cfg hdr { st1 with out := st1.out ++ blockBytes cfg.codec cfg.sync n payload }
          { g1 with blocks := g1.blocks ++ [⟨n.toNat, payload, (readRecords dec n.toNat payload).1⟩],
                    submitted := g1.submitted ++ (readRecords dec n.toNat payload).1 } := by
      intro st1 g1 ⟨h1, h2, h3, h4⟩ hp
      have hn' : ((n.toNat : Nat) : Int) = n := Int.toNat_of_nonneg hn
      refine ⟨?_, ?_, h3, ?_⟩
      · simp only [h1, flat, List.flatMap_append, List.flatMap_cons, List.flatMap_nil, List.append_nil, Blk.bytes,
          List.append_assoc, hn']
      · intro b hb
        simp only [List.mem_append, List.mem_singleton] at hb
        rcases hb with hb | rfl
        · exact h2 b hb
        · cases hr : readRecords dec n.toNat payload with
          | mk recs e => simp only [hr] at hrec; simp [hrec]
      · simp only [List.flatMap_append, List.flatMap_cons, List.flatMap_nil, List.append_nil]
        rw [← h4, hp]; simp
    split
    · exact key _ _ (dump_inv dec cfg hdr _ _ h) rfl
    · rename_i hnd
      apply key _ _ h
      obtain ⟨h1, h2, h3, h4⟩ := h
      simp only [bne_iff_ne, ne_eq, gt_iff_lt, Bool.or_eq_true, decide_eq_true_eq, not_or, Decidable.not_not,
        Nat.not_lt, Nat.le_zero_eq] at hnd
      have hp0 : st.pending = [] := List.eq_nil_of_length_eq_zero hnd.1
      rw [hnd.2, hp0] at h3
      simp only [decMany, Except.ok.injEq, Prod.mk.injEq] at h3
      exact h3.1.symm

/-- state and ghost after a history -/
def runG (sg : WState × Ghost) (ops : List Op) : WState × Ghost :=
  ops.foldl (fun sg op => ((step enc validate cfg sg.1 op).1, gStep enc dec validate cfg nfOf sg.1 sg.2 op)) sg

omit hext in
theorem runG_fst (sg : WState × Ghost) (ops : List Op) :
    (runG enc dec validate cfg nfOf sg ops).1 = run enc validate cfg sg.1 ops := by
  induction ops generalizing sg with
  | nil => rfl
  | cons op ops ih => simp only [runG, run, List.foldl_cons] at ih ⊢; exact ih _

include hext in
/-- **C07 invariant over every history** -/
theorem inv_run (hdr : Bytes) (sg : WState × Ghost) (ops : List Op) (h : WInv dec cfg hdr sg.1 sg.2)
    (hops : ∀ op ∈ ops, OpOk enc dec nfOf op) :
    WInv dec cfg hdr (runG enc dec validate cfg nfOf sg ops).1 (runG enc dec validate cfg nfOf sg ops).2 := by
  induction ops generalizing sg with
  | nil => exact h
  | cons op ops ih =>
    simp only [runG, List.foldl_cons]
    exact ih _ (inv_step enc dec validate cfg nfOf hext hdr sg.1 sg.2 op h (hops op (by simp)))
      (fun o ho => hops o (by simp [ho]))

omit hext in
/-- after a flush nothing is pending -/
theorem flush_clears (hdr : Bytes) (st : WState) (g : Ghost) (h : WInv dec cfg hdr st g) :
    (gStep enc dec validate cfg nfOf st g .flush).pend = [] := by
  simp only [gStep]
  split
  · rfl
  · rename_i hnd
    obtain ⟨h1, h2, h3, h4⟩ := h
    simp only [bne_iff_ne, ne_eq, gt_iff_lt, Bool.or_eq_true, decide_eq_true_eq, not_or, Decidable.not_not,
      Nat.not_lt, Nat.le_zero_eq] at hnd
    have hp0 : st.pending = [] := List.eq_nil_of_length_eq_zero hnd.1
    rw [hnd.2, hp0] at h3
    simp only [decMany, Except.ok.injEq, Prod.mk.injEq] at h3
    exact h3.1.symm

include hext in
/-- **after a flush the stream reads back as exactly the records submitted**, in submission order -/
theorem flush_reads_back (hs : cfg.codec.Sound) (hsync : cfg.sync.length = 16)
    (hdr : Bytes) (st : WState) (g : Ghost) (h : WInv dec cfg hdr st g)
    (hfit : ∀ b ∈ (gStep enc dec validate cfg nfOf st g .flush).blocks,
        b.count < 2 ^ 63 ∧ (cfg.codec.compress b.payload).length < 2 ^ 63)
    (k : Nat) (hk : (gStep enc dec validate cfg nfOf st g .flush).blocks.length < k) :
    ∃ area, (step enc validate cfg st .flush).1.out = hdr ++ area ∧
      readBlocks dec cfg.codec cfg.sync k area = ((gStep enc dec validate cfg nfOf st g .flush).submitted, .eof) := by
  have hinv := inv_step enc dec validate cfg nfOf hext hdr st g .flush h trivial
  have hpend := flush_clears enc dec validate cfg nfOf hdr st g h
  obtain ⟨h1, h2, h3, h4⟩ := hinv
  refine ⟨_, h1, ?_⟩
  rw [read_flat dec cfg.codec hs cfg.sync hsync _ (fun b hb => ⟨h2 b hb, hfit b hb⟩) k hk]
  rw [← h4, hpend, List.append_nil]

omit hext in
/-- a failed write contributes nothing: the writer state is exactly what it was -/
theorem failed_write_noop (st : WState) (v : Val) (e : Err)
    (h : (step enc validate cfg st (.write v)).2 = some e) :
    (step enc validate cfg st (.write v)).1 = st := by
  rcases step_write_cases enc validate cfg st v with ⟨e', hfail⟩ | ⟨w, hw, hok⟩
  · rw [hfail]
  · rw [hok] at h; simp at h

omit hext in
/-- the output only ever grows: whatever was written (in particular the header) is never changed -/
theorem out_grows (st : WState) (ops : List Op) : ∃ t, (run enc validate cfg st ops).out = st.out ++ t := by
  induction ops generalizing st with
  | nil => exact ⟨[], by simp [run]⟩
  | cons op ops ih =>
    simp only [run, List.foldl_cons]
    have hstep : ∃ t, (step enc validate cfg st op).1.out = st.out ++ t := by
      cases op with
      | write v =>
        rcases step_write_cases enc validate cfg st v with ⟨e', hfail⟩ | ⟨w, hw, hok⟩
        · rw [hfail]; exact ⟨[], by simp⟩
        · rw [hok]; simp only
          split
          · exact ⟨_, rfl⟩
          · exact ⟨[], by simp⟩
      | flush =>
        simp only [step, dumpIfPending]
        split
        · exact ⟨_, rfl⟩
        · exact ⟨[], by simp⟩
      | writeBlock n p =>
        simp only [step, dumpIfPending]
        split
        · exact ⟨blockBytes cfg.codec cfg.sync (↑st.count) st.pending ++ blockBytes cfg.codec cfg.sync n p,
            by simp only [dump, List.append_assoc]⟩
        · exact ⟨_, rfl⟩
    obtain ⟨t1, ht1⟩ := hstep
    obtain ⟨t2, ht2⟩ := ih (step enc validate cfg st op).1
    simp only [run] at ht2
    exact ⟨t1 ++ t2, by rw [ht2, ht1, List.append_assoc]⟩

end
end WriterProofs
