/-
  Proofs/JsonBack.lean — C15, read-back clause: `json_reader` (model Json.decode) applied to the
  specification's JSON encoding of a datum returns the record as written (Spec.written).
-/
import Proofs.Json

namespace JsonBack
open Binary Json JsonProofs MonoProofs

/-- the table of named schemas holds named types -/
def EnvNamed (env : Env) : Prop := ∀ n d, env.get? n = some d → d.isNamedDef = true

theorem nodup_map_inj {α β} (f : α → β) : ∀ (l : List α), (l.map f).Nodup → ∀ a ∈ l, ∀ b ∈ l, f a = f b → a = b := by
  intro l
  induction l with
  | nil => intro _ a ha; cases ha
  | cons x xs ih =>
    intro h a ha b hb hab
    simp only [List.map_cons, List.nodup_cons, List.mem_map, not_exists, not_and] at h
    rcases List.mem_cons.1 ha with h1 | h1 <;> rcases List.mem_cons.1 hb with h2 | h2
    · rw [h1, h2]
    · subst h1; exact absurd hab.symm (h.1 b h2)
    · subst h2; exact absurd hab (h.1 a h1)
    · exact ih h.2 a h1 b h2 hab

theorem dictKeys_cons_str (s : String) (x : Val) (rest : List (Val × Val)) : dictKeys ((.str s, x) :: rest) = s :: dictKeys rest := rfl

theorem dictKeys_append (a b : List (Val × Val)) : dictKeys (a ++ b) = dictKeys a ++ dictKeys b := by
  simp [dictKeys, List.filterMap_append]

theorem set_fresh (acc : List (Val × Val)) (k : String) (a : Val) (h : k ∉ dictKeys acc) :
    valDictSet acc k a = acc ++ [(.str k, a)] := by
  induction acc with
  | nil => rfl
  | cons e rest ih =>
    obtain ⟨k', v'⟩ := e
    cases k' with
    | str s =>
      rw [dictKeys_cons_str, List.mem_cons, not_or] at h
      have hne : (s == k) = false := by simpa using fun hh => h.1 hh.symm
      simp only [valDictSet, hne, Bool.false_eq_true, if_false, ih h.2, List.cons_append]
    | _ =>
      have h' : k ∉ dictKeys rest := h
      simp only [valDictSet, ih h', List.cons_append]

theorem prim_back (p : Prim) (v j w : Val) (hj : Spec.jsonPrimFloats p v = some j) (hw : Spec.writtenPrim p v = some w) :
    decPrim p j = .ok w := by
  cases p <;> cases v <;>
    simp only [Spec.jsonPrimFloats, Spec.jsonPrim, Spec.writtenPrim, reduceCtorEq, Option.some.injEq] at hj hw <;>
    subst hj <;> subst hw <;> first | rfl | (simp [decPrim, codePoints_eq, latin1_roundtrip]; rfl)

theorem items_back (enc wr : Val → Option Val) (dec : Val → R Val) (xs : List Val) :
    ∀ js ws, (∀ x ∈ xs, ∀ j w, enc x = some j → wr x = some w → dec j = .ok w) →
      Spec.jItemsM enc xs = some js → Spec.jItemsM wr xs = some ws → decItemsWith dec js = .ok ws := by
  induction xs with
  | nil =>
    intro js ws _ h1 h2
    simp only [Spec.jItemsM, Option.some.injEq] at h1 h2; subst h1; subst h2; rfl
  | cons x xs ih =>
    intro js ws hx h1 h2
    simp only [Spec.jItemsM, Option.bind_eq_bind, Option.bind_eq_some_iff, Option.some.injEq] at h1 h2
    obtain ⟨a, ha, b, hb, rfl⟩ := h1
    obtain ⟨a', ha', b', hb', rfl⟩ := h2
    simp only [decItemsWith, hx x (by simp) a a' ha ha', ih b b' (fun y hy => hx y (by simp [hy])) hb hb']
    rfl

theorem entries_back (kok : String → Bool) (enc wr : Val → Option Val) (dec : Val → R Val) (kv : List (Val × Val)) :
    ∀ jkv wkv acc, (∀ e ∈ kv, ∀ j w, enc e.2 = some j → wr e.2 = some w → dec j = .ok w) →
      Spec.jEntriesM kok enc kv = some jkv → Spec.wEntriesM wr kv = some wkv →
      (dictKeys kv).Nodup → (∀ k ∈ dictKeys kv, k ∉ dictKeys acc) →
      decEntriesWith dec jkv acc = .ok (acc ++ wkv) := by
  induction kv with
  | nil =>
    intro jkv wkv acc _ h1 h2 _ _
    simp only [Spec.jEntriesM, Spec.wEntriesM, Option.some.injEq] at h1 h2; subst h1; subst h2
    simp [decEntriesWith, pure, Except.pure]
  | cons e rest ih =>
    intro jkv wkv acc hx h1 h2 hnd hfresh
    obtain ⟨k, x⟩ := e
    cases k <;> simp only [Spec.jEntriesM, reduceCtorEq] at h1
    rename_i s
    by_cases hs : kok s = true
    · simp only [hs, Bool.not_true, Bool.false_eq_true, if_false, Option.bind_eq_bind,
        Option.bind_eq_some_iff, Option.some.injEq, Option.pure_def, Option.bind_some] at h1
      simp only [Spec.wEntriesM, Option.bind_eq_bind, Option.bind_eq_some_iff, Option.some.injEq] at h2
      obtain ⟨a, ha, b, hb, rfl⟩ := h1
      obtain ⟨a', ha', b', hb', rfl⟩ := h2
      rw [dictKeys_cons_str, List.nodup_cons] at hnd
      have hs_acc : s ∉ dictKeys acc := hfresh s (by rw [dictKeys_cons_str]; exact List.mem_cons_self)
      simp only [decEntriesWith, hx (.str s, x) (by simp) a a' ha ha', RL.ok_bind, set_fresh acc s a' hs_acc]
      rw [ih b b' _ (fun y hy => hx y (by simp [hy])) hb hb' hnd.2]
      · simp
      · intro k hk
        rw [dictKeys_append]
        simp only [List.mem_append, not_or]
        refine ⟨hfresh k (by rw [dictKeys_cons_str]; exact List.mem_cons_of_mem _ hk), ?_⟩
        intro hks
        have : k = s := by simpa [dictKeys] using hks
        subst this; exact hnd.1 hk
    · simp [hs] at h1

theorem get_of_fields (enc : Schema → Val → Option Val) (kv : List (Val × Val)) (fields : List Field) :
    ∀ jkv, Spec.jFieldsM enc fields kv = some jkv → (fields.map Field.name).Nodup →
      ∀ fld ∈ fields, ∃ a, enc fld.type (presentOrDefault kv fld) = some a ∧ dictGetV jkv fld.name = some a := by
  induction fields with
  | nil => intro _ _ _ fld hf; cases hf
  | cons f rest ih =>
    intro jkv h hnd fld hf
    simp only [Spec.jFieldsM, Option.bind_eq_bind, Option.bind_eq_some_iff, Option.some.injEq] at h
    obtain ⟨a, ha, b, hb, rfl⟩ := h
    simp only [List.map_cons, List.nodup_cons] at hnd
    rcases List.mem_cons.1 hf with h1 | h1
    · subst h1; exact ⟨a, ha, by simp [dictGetV]⟩
    · obtain ⟨a', ha', hg⟩ := ih b hb hnd.2 fld h1
      refine ⟨a', ha', ?_⟩
      have hne : (f.name == fld.name) = false := by
        cases hc : (f.name == fld.name) with
        | false => rfl
        | true =>
          have e := beq_iff_eq.mp hc
          rw [e] at hnd
          exact absurd (List.mem_map_of_mem h1) hnd.1
      simp only [dictGetV, hne, Bool.false_eq_true, if_false, hg]

theorem fields_back (env : Env) (enc wr : Schema → Val → Option Val) (dec : Schema → Val → R Val) (kv jkv : List (Val × Val))
    (rest : List Field) :
    ∀ wkv acc, (∀ fld ∈ rest, ∃ a, enc fld.type (presentOrDefault kv fld) = some a ∧ dictGetV jkv fld.name = some a) →
      (∀ fld ∈ rest, ∀ x j w, enc fld.type x = some j → wr fld.type x = some w → dec fld.type j = .ok w) →
      Spec.jFieldsM wr rest kv = some wkv → (rest.map Field.name).Nodup → (∀ fld ∈ rest, fld.name ∉ dictKeys acc) →
      decFieldsWith env dec rest jkv acc = .ok (acc ++ wkv) := by
  induction rest with
  | nil =>
    intro wkv acc _ _ h _ _
    simp only [Spec.jFieldsM, Option.some.injEq] at h; subst h
    simp [decFieldsWith, pure, Except.pure]
  | cons f more ih =>
    intro wkv acc hget hx h hnd hfresh
    simp only [Spec.jFieldsM, Option.bind_eq_bind, Option.bind_eq_some_iff, Option.some.injEq] at h
    obtain ⟨a', ha', b', hb', rfl⟩ := h
    obtain ⟨a, ha, hg⟩ := hget f List.mem_cons_self
    simp only [List.map_cons, List.nodup_cons] at hnd
    rw [decFieldsWith]
    simp only [hg]
    show (dec f.type a >>= fun a => decFieldsWith env dec more jkv (valDictSet acc f.name a)) = _
    rw [hx f List.mem_cons_self _ a a' ha ha']
    show decFieldsWith env dec more jkv (valDictSet acc f.name a') = _
    rw [set_fresh acc f.name a' (hfresh f List.mem_cons_self)]
    rw [ih b' _ (fun g hg' => hget g (List.mem_cons_of_mem _ hg')) (fun g hg' => hx g (List.mem_cons_of_mem _ hg')) hb' hnd.2]
    · simp
    · intro g hg'
      rw [dictKeys_append]
      simp only [List.mem_append, not_or]
      refine ⟨hfresh g (List.mem_cons_of_mem _ hg'), ?_⟩
      intro hks
      have : g.name = f.name := by simpa [dictKeys] using hks
      exact hnd.1 (this ▸ List.mem_map_of_mem hg')

theorem null_shape (env : Env) (he : EnvNamed env) (b : Schema) (h : Spec.isNull env b = true) : ∃ d lt, b = .prim .null d lt := by
  cases b with
  | prim p d lt =>
    cases p <;> simp [Spec.isNull, unwrapRef] at h
    exact ⟨d, lt, rfl⟩
  | ref n =>
    simp only [Spec.isNull, unwrapRef] at h
    cases hg : env.get? n with
    | none => simp [hg] at h
    | some s =>
      have := he n s hg
      simp only [hg, Option.getD_some] at h
      cases s <;> simp [Schema.isNamedDef] at this <;> simp at h
  | _ => simp [Spec.isNull, unwrapRef] at h

/-- **reading back the text**: whatever the specification's JSON encoding of a datum is,
    `json_reader` (model `Json.decode`) turns it back into the record as written -/
theorem decode_encode (pick : Nat → List Schema → Val → Option (Nat × Val)) (env : Env) (he : EnvNamed env) (fuel : Nat) :
    ∀ s v j w, Spec.jsonEncodeCore pick fuel env s v = some j → Spec.written pick fuel env s v = some w →
      decode fuel env s j = .ok w := by
  induction fuel with
  | zero => intro s v j w h; simp [Spec.jsonEncodeCore, Spec.jsonEncodeWith] at h
  | succ fuel ih =>
    intro s v j w h hw
    unfold Spec.jsonEncodeCore at h ih
    cases s with
    | prim p d lt =>
      cases lt with
      | some _ => simp [Spec.jsonEncodeWith] at h
      | none =>
        simp only [Spec.jsonEncodeWith] at h; simp only [Spec.written] at hw
        simp only [decode]; exact prim_back p v j w h hw
    | fixed n sz lt al =>
      cases lt with
      | some _ => simp [Spec.jsonEncodeWith] at h
      | none =>
        simp only [Spec.jsonEncodeWith] at h; simp only [Spec.written] at hw
        cases v <;> simp only [reduceCtorEq] at h
        rename_i b
        split at h <;> simp only [Option.some.injEq, reduceCtorEq] at h
        rename_i hlen
        simp only [hlen, if_true, Option.some.injEq] at hw
        subst h; subst hw
        simp only [decode, codePoints_eq, latin1_roundtrip]; rfl
    | enum n syms d al =>
      simp only [Spec.jsonEncodeWith] at h; simp only [Spec.written] at hw
      cases v <;> simp only [reduceCtorEq] at h
      rename_i x
      split at h <;> simp only [Option.some.injEq, reduceCtorEq] at h
      rename_i hc
      simp only [hc, if_true, Option.some.injEq] at hw
      subst h; subst hw
      simp only [decode, hc, if_true]; rfl
    | array items =>
      simp only [Spec.jsonEncodeWith] at h; simp only [Spec.written] at hw
      cases v <;> simp only [reduceCtorEq, Option.map_eq_some_iff] at h hw
      all_goals
        obtain ⟨ys, hys, rfl⟩ := h
        obtain ⟨ws, hws, rfl⟩ := hw
        simp only [decode, items_back _ _ (decode fuel env items) _ ys ws (fun x _ j w hj hw' => ih items x j w hj hw') hys hws]
        rfl
    | map values =>
      simp only [Spec.jsonEncodeWith] at h; simp only [Spec.written] at hw
      cases v <;> simp only [reduceCtorEq, Option.map_eq_some_iff] at h hw
      rename_i kv
      obtain ⟨ys, hys, rfl⟩ := h
      split at hw
      · rename_i hk
        simp only [Option.map_eq_some_iff] at hw
        obtain ⟨ws, hws, rfl⟩ := hw
        simp only [Spec.dictKeysOk, Bool.and_eq_true, decide_eq_true_eq] at hk
        have := entries_back _ _ _ (decode fuel env values) kv ys ws [] (fun e _ j w hj hw' => ih values e.2 j w hj hw') hys hws hk.2
          (fun k _ => by simp [dictKeys])
        simp only [decode, this]
        rfl
      · cases hw
    | union bs =>
      simp only [Spec.jsonEncodeWith] at h; simp only [Spec.written] at hw
      split at hw
      · rename_i hnd
        cases hp : pick fuel bs v with
        | none => simp [hp] at h
        | some r =>
          obtain ⟨i, v'⟩ := r
          simp only [hp] at h hw
          cases hb : bs[i]? with
          | none => simp [hb] at h
          | some b =>
            have hmem : b ∈ bs := List.mem_of_getElem? hb
            simp only [hb, Option.bind_eq_bind, Option.bind_eq_some_iff] at h hw
            obtain ⟨jb, hjb, hj⟩ := h
            have hrec := ih b v' jb w hjb hw
            split at hj <;> simp only [Option.some.injEq] at hj <;> subst hj <;> rename_i hn
            · -- the null branch
              obtain ⟨d, lt, hbs⟩ := null_shape env he b hn
              subst hbs
              have hjnone : jb = .none := by
                cases fuel with
                | zero => simp [Spec.jsonEncodeWith] at hjb
                | succ f =>
                  cases lt with
                  | some _ => simp [Spec.jsonEncodeWith] at hjb
                  | none =>
                    simp only [Spec.jsonEncodeWith] at hjb
                    cases v' <;> simp only [Spec.jsonPrimFloats, Spec.jsonPrim, reduceCtorEq, Option.some.injEq] at hjb
                    exact hjb.symm
              subst hjnone
              simp only [decode]
              cases hf : bs.find? (isNullBranch env) with
              | none =>
                have := List.find?_eq_none.1 hf _ hmem
                rw [isNull_eq, hn] at this; simp at this
              | some b0 =>
                have h0 := List.find?_some hf
                rw [isNull_eq] at h0
                obtain ⟨d0, l0, hb0⟩ := null_shape env he b0 h0
                have : b0 = .prim .null d lt :=
                  nodup_map_inj Spec.jsonBranchName bs hnd b0 (List.mem_of_find?_eq_some hf) _ hmem (by rw [hb0]; rfl)
                subst this
                exact hrec
            · -- a wrapped branch
              simp only [decode, findLabel]
              cases hf : bs.find? (fun b' => label b' == Spec.jsonBranchName b) with
              | none =>
                have := List.find?_eq_none.1 hf _ hmem
                simp [label_eq] at this
              | some b1 =>
                have h1 := List.find?_some hf
                simp only [label_eq, beq_iff_eq] at h1
                have : b1 = b := nodup_map_inj Spec.jsonBranchName bs hnd b1 (List.mem_of_find?_eq_some hf) _ hmem h1
                subst this
                exact hrec
      · cases hw
    | record n fields al =>
      simp only [Spec.jsonEncodeWith] at h; simp only [Spec.written] at hw
      cases v <;> simp only [reduceCtorEq, Option.map_eq_some_iff] at h hw
      rename_i kv
      obtain ⟨ys, hys, rfl⟩ := h
      split at hw
      · rename_i hnd
        simp only [Option.map_eq_some_iff] at hw
        obtain ⟨ws, hws, rfl⟩ := hw
        have hget := get_of_fields _ kv fields ys hys hnd
        have := fields_back env _ _ (decode fuel env) kv ys fields ws [] hget
          (fun fld _ x j w hj hw' => ih fld.type x j w hj hw') hws hnd (fun _ _ => by simp [dictKeys])
        simp only [decode, this]
        rfl
      · cases hw
    | ref n =>
      simp only [Spec.jsonEncodeWith] at h; simp only [Spec.written] at hw
      cases hg : env.get? n with
      | none => simp [hg] at h
      | some s' => simp only [hg] at h hw; simp only [decode, hg]; exact ih s' v j w h hw

end JsonBack
