/-
  Proofs/Resolve.lean — C08: the reader-schema paths of the model against the specification reader.
-/
import Model.Resolve
import Spec.Resolve
import Proofs.Mono

namespace RejectLike
theorem ok_bind {α β} (a : α) (f : α → R β) : ((Except.ok a : R α) >>= f) = f a := rfl
theorem error_bind {α β} (e : Err) (f : α → R β) : ((Except.error e : R α) >>= f) = .error e := rfl
end RejectLike

namespace ResolveProofs
open Binary Resolve MonoProofs

/-- `maybe_promote` on two primitive type names is the specification's promotion -/
theorem promote_eq (wp rp : Prim) (v : Val) : maybePromote v wp.name rp.name = Spec.promote wp rp v := by
  cases wp <;> cases rp <;> rfl

/-- the promotion pairs of `match_types` are the specification's -/
theorem promotes_eq (wp rp : Prim) : promotes wp.name rp.name = Spec.promotable wp rp := by
  cases wp <;> cases rp <;> decide

/-- a primitive name is never the name of a named type in a table built by `parse_schema`
    (names there are those of record / enum / fixed definitions) -/
def NoPrimKeys (env : Env) : Prop := ∀ p : Prim, env.get? p.name = none

theorem prim_in_avro (p : Prim) : AVRO_TYPES.contains p.name = true := by cases p <;> decide

theorem prim_name_inj (a b : Prim) : (a.name == b.name) = (a == b) := by cases a <;> cases b <;> decide

/-- `match_types` on two primitive names -/
theorem matchNames_prim (ms : Schema → Schema → R Schema) (wenv renv : Env) (wp rp : Prim)
    (hw : NoPrimKeys wenv) :
    matchNamesWith ms wenv renv wp.name rp.name = .ok (wp == rp || Spec.promotable wp rp) := by
  unfold matchNamesWith
  rw [prim_name_inj, prim_in_avro, promotes_eq, hw wp]
  cases h1 : (wp == rp) <;> cases h2 : Spec.promotable wp rp <;> simp [prim_name_inj, h1] <;> rfl

/-- `match_schemas` on two primitives given by name: the reader schema when the specification's
    primitives match, a schema-resolution error otherwise -/
theorem matchSchemas_prim (fuel : Nat) (wenv renv : Env) (wp rp : Prim) (hw : NoPrimKeys wenv) :
    matchSchemas (fuel+1) wenv renv (.prim wp false none) (.prim rp false none) =
      if wp == rp || Spec.promotable wp rp then .ok (.prim rp false none) else .error .resolution := by
  simp only [matchSchemas, Schema.isNamedDef, Bool.false_and, Bool.and_false, Bool.false_eq_true, if_false,
    Schema.typeName, prim_in_avro, Bool.not_true, matchNames_prim _ wenv renv wp rp hw]
  cases (wp == rp || Spec.promotable wp rp) <;> rfl

/-- **primitives**: reading a primitive under a primitive reader type is the specification's
    clause (same type, or promoted; error otherwise), whatever the bytes -/
theorem readR_prim (fuel : Nat) (wenv renv : Env) (ro : ROpts) (wp rp : Prim) (bs : Bytes)
    (hw : NoPrimKeys wenv) :
    readR (fuel+2) wenv renv ro (.prim wp false none) (.prim rp false none) bs =
      Spec.resolveRead (fuel+2) wenv renv (.prim wp false none) (.prim rp false none) bs := by
  have hm : Spec.matchesS wenv renv (.prim wp false none) (.prim rp false none) =
      (wp == rp || Spec.promotable wp rp) := by
    simp [Spec.matchesS, Spec.matchesX, Spec.matchFlat, Spec.deref]
  rw [readR, Spec.resolveRead, matchSchemas_prim fuel wenv renv wp rp hw, hm]
  cases hc : (wp == rp || Spec.promotable wp rp)
  · rfl
  · simp only [if_true, Bool.not_true, Bool.false_eq_true, if_false, Spec.deref, Option.isSome_none,
      RejectLike.ok_bind, Schema.typeName, promote_eq]

/-- **enums**: the reader-side step on a decoded symbol is the specification's (kept symbol, else
    the reader's default, else a schema-resolution error) -/
theorem resolveSymbol_enum (sym rn : String) (rsyms : List String) (rdef : Option Val) (ral : List String) :
    resolveSymbol sym (.enum rn rsyms rdef ral) =
      (if rsyms.contains sym then pure (.str sym)
       else match rdef with
         | some d => if d.truthy then pure d else throw .resolution
         | none => throw .resolution) := rfl

/-- **record fields**: with the same field lookup the writer-field loop of `read_record` is the
    specification's (matched fields resolved and stored under the reader's name, others skipped) -/
theorem fields_eq (rd : Schema → Schema → Bytes → R (Val × Bytes)) (sk : Schema → Bytes → R Bytes) (rfs : List Field)
    (hfind : ∀ n, findReaderField rfs n = Spec.readerFieldFor rfs n) (wfs : List Field) :
    ∀ bs acc, readFieldsRWith rd sk rfs wfs bs acc = Spec.fieldsWith rd sk rfs wfs bs acc := by
  induction wfs with
  | nil => intro bs acc; rfl
  | cons f rest ih =>
    intro bs acc
    simp only [readFieldsRWith, Spec.fieldsWith, hfind f.name]
    cases Spec.readerFieldFor rfs f.name with
    | none =>
      simp only
      cases sk f.type bs with
      | error e => rfl
      | ok bs' => simp only [RejectLike.ok_bind, ih]
    | some rf =>
      simp only
      cases rd f.type rf.type bs with
      | error e => rfl
      | ok r => obtain ⟨x, bs'⟩ := r; simp only [RejectLike.ok_bind, ih]

theorem find_reverse_unique {α} (p : α → Bool) (l : List α)
    (huniq : ∀ a ∈ l, ∀ b ∈ l, p a = true → p b = true → a = b) : l.reverse.find? p = l.find? p := by
  induction l with
  | nil => rfl
  | cons x xs ih =>
    have ih' := ih (fun a ha b hb => huniq a (List.mem_cons_of_mem _ ha) b (List.mem_cons_of_mem _ hb))
    rw [List.reverse_cons, List.find?_append, ih']
    cases hp : p x with
    | false => simp [List.find?, hp]
    | true =>
      simp only [List.find?, hp]
      cases hf : xs.find? p with
      | none => rfl
      | some y =>
        have hy := List.find?_some hf
        have hmem := List.mem_of_find?_eq_some hf
        have := huniq y (List.mem_cons_of_mem _ hmem) x (List.mem_cons_self) hy hp
        simp [this]

/-- reader fields are told apart by their names, and no alias is claimed by two of them -/
def FieldsUnambiguous (rfs : List Field) : Prop :=
  (∀ a ∈ rfs, ∀ b ∈ rfs, a.name = b.name → a = b) ∧
  (∀ n, ∀ a ∈ rfs, ∀ b ∈ rfs, a.aliases.contains n = true → b.aliases.contains n = true → a = b)

/-- under that well-formedness the dict-based lookup of `read_record` (last entry wins) is the
    specification's "the reader field of that name, else the one listing it as an alias" -/
theorem findReaderField_eq (rfs : List Field) (h : FieldsUnambiguous rfs) (n : String) :
    findReaderField rfs n = Spec.readerFieldFor rfs n := by
  unfold findReaderField Spec.readerFieldFor
  rw [find_reverse_unique (fun f => f.name == n) rfs
        (fun a ha b hb pa pb => h.1 a ha b hb (by simp only [beq_iff_eq] at pa pb; rw [pa, pb])),
      find_reverse_unique (fun f => f.aliases.contains n) rfs (fun a ha b hb pa pb => h.2 n a ha b hb pa pb)]
  cases List.find? (fun f => f.name == n) rfs <;> rfl

end ResolveProofs
