/-
  Proofs/Encode.lean — the bytes `write_data` emits are the specification's encoding (C02).
-/
import Model.Binary
import Spec.Encode
import Spec.Normalize
import Proofs.Basic
import Proofs.Roundtrip

namespace EncodeProofs
open Binary BasicProofs

theorem leBytes_eq (n x : Nat) : Spec.leBytes n x = Py.toBytesLE n x := by
  induction n generalizing x with
  | zero => rfl
  | succ n ih =>
    unfold Spec.leBytes
    rw [List.range_succ_eq_map, List.map_cons, List.map_map, Py.toBytesLE]
    congr 1
    · simp
    · rw [← ih (x / 256)]
      unfold Spec.leBytes
      apply List.map_congr_left
      intro i _
      simp only [Function.comp]
      rw [Nat.pow_succ, Nat.mul_comm, ← Nat.div_div_eq_div_mul]

theorem dictGet_eq (kv : List (Val × Val)) (k : String) : Spec.dictGet kv k = dictGetV kv k := by
  induction kv with
  | nil => rfl
  | cons e rest ih =>
    obtain ⟨ek, ev⟩ := e
    unfold Spec.dictGet at ih ⊢
    cases ek <;> simp only [List.find?_cons, dictGetV, ih] <;> try rfl
    rename_i s
    by_cases h : s == k <;> simp [h, ih]

/-- spec-side length / count / index encoding is what the model's `encodeLong` writes -/
theorem encLen_eq (n : Nat) (h : n < 2 ^ 63) : encodeLong (n : Int) = WR.ok (Spec.encodeLong (n : Int)) := by
  have e2 : (2:Int)^63 = 9223372036854775808 := by decide
  have e3 : (2:Nat)^63 = 9223372036854775808 := by decide
  exact VarintProofs.encodeLong_eq_spec n (by omega) (by omega)

theorem limit2 : Spec.LIM = 2 ^ 63 := rfl

theorem encLen_some (n : Nat) (h : n < 2 ^ 63) : Spec.encLen n = some (Spec.encodeLong (n : Int)) := by
  unfold Spec.encLen; rw [limit2]; simp [h]

theorem lenPrefixed (b bs : Bytes) (hl : b.length < 2 ^ 63)
    (h : (encodeLong (b.length : Int)).append (WR.ok b) = ⟨bs, none⟩) :
    (Spec.encLen b.length).map (· ++ b) = some bs := by
  rw [encLen_eq _ hl, append_ok_iff] at h
  obtain ⟨b1, b2, h1, h2, rfl⟩ := h
  rw [ok_eq] at h1 h2; injection h1 with h1 _; injection h2 with h2 _; subst h1 h2
  simp [encLen_some _ hl]

theorem prim_eq_spec (p : Prim) (v nf : Val) (bs : Bytes)
    (hw : writePrim p v = ⟨bs, none⟩) (hn : Spec.normPrim p v = some nf) :
    Spec.encPrim p v = some bs := by
  cases p <;> cases v <;> simp only [Spec.normPrim, reduceCtorEq] at hn
  · simp only [writePrim, ok_eq, WR.mk.injEq, and_true] at hw; subst hw; rfl
  · rename_i b
    simp only [writePrim, encBool, ok_eq, WR.mk.injEq, and_true] at hw; subst hw
    cases b <;> simp [Spec.encPrim, Val.truthy]
  · rename_i n
    split at hn
    · rename_i hb
      have h64 := RoundtripProofs.int_bounds_32 hb
      simp only [writePrim, encInt, VarintProofs.encodeLong_eq_spec n h64.1 h64.2, ok_eq, WR.mk.injEq, and_true] at hw
      subst hw
      have e31 : (2:Int)^31 = 2147483648 := by decide
      unfold Validate.INT_MIN Validate.INT_MAX at hb
      have : -(2:Int)^31 ≤ n ∧ n < 2^31 := by omega
      simp only [Spec.encPrim]; rw [if_pos this]
    · simp at hn
  · rename_i n
    split at hn
    · rename_i hb
      have h64 := RoundtripProofs.int_bounds_64 hb
      simp only [writePrim, encInt, VarintProofs.encodeLong_eq_spec n h64.1 h64.2, ok_eq, WR.mk.injEq, and_true] at hw
      subst hw
      simp only [Spec.encPrim]; rw [if_pos h64]
    · simp at hn
  · rename_i n
    simp only [writePrim, encFloat, toDouble?] at hw
    cases ho : Fl.ofInt n with
    | none => simp [ho] at hn
    | some d =>
      simp only [ho, Option.bind_some, Option.map_eq_some_iff] at hn
      obtain ⟨f, hf, _⟩ := hn
      simp only [ho, hf, ok_eq, WR.mk.injEq, and_true] at hw; subst hw
      simp [Spec.encPrim, ho, hf, leBytes_eq, u32LE]
  · rename_i b
    simp only [writePrim, encFloat, toDouble?] at hw
    simp only [Option.map_eq_some_iff] at hn
    obtain ⟨f, hf, _⟩ := hn
    simp only [hf, ok_eq, WR.mk.injEq, and_true] at hw; subst hw
    simp [Spec.encPrim, hf, leBytes_eq, u32LE]
  · rename_i n
    simp only [writePrim, encDouble, toDouble?] at hw
    simp only [Option.map_eq_some_iff] at hn
    obtain ⟨d, hd, _⟩ := hn
    simp only [hd, ok_eq, WR.mk.injEq, and_true] at hw; subst hw
    simp [Spec.encPrim, hd, leBytes_eq, u64LE]
  · rename_i b
    simp only [writePrim, encDouble, toDouble?, ok_eq, WR.mk.injEq, and_true] at hw; subst hw
    simp [Spec.encPrim, leBytes_eq, u64LE]
  · rename_i b
    split at hn
    · rename_i hl
      simp only [writePrim, encBytes] at hw
      exact lenPrefixed b bs (by rw [RoundtripProofs.limit_eq] at hl; exact hl) hw
    · simp at hn
  · rename_i b
    split at hn
    · rename_i hl
      simp only [writePrim, encBytes] at hw
      exact lenPrefixed b bs (by rw [RoundtripProofs.limit_eq] at hl; exact hl) hw
    · simp at hn
  · rename_i s
    split at hn
    · rename_i hl
      simp only [writePrim, encUtf8] at hw
      exact lenPrefixed (utf8Enc s) bs (by rw [RoundtripProofs.limit_eq] at hl; exact hl) hw
    · simp at hn

theorem items_eq_spec (w : Val → WR) (nm : Val → Option Val) (f : Val → Option Bytes)
    (xs nfs : List Val) (bs : Bytes)
    (hrt : ∀ x ∈ xs, ∀ b nf, w x = ⟨b, none⟩ → nm x = some nf → f x = some b)
    (hw : WR.concat (xs.map w) = ⟨bs, none⟩) (hn : Spec.mapM' nm xs = some nfs) :
    Spec.concatM f xs = some bs := by
  induction xs generalizing bs nfs with
  | nil =>
    simp only [List.map_nil, WR.concat, ok_eq, WR.mk.injEq, and_true] at hw; subst hw; rfl
  | cons x xs ih =>
    rw [List.map_cons, RoundtripProofs.concat_cons_ok] at hw
    obtain ⟨b1, b2, h1, h2, rfl⟩ := hw
    simp only [Spec.mapM', Option.bind_eq_bind, Option.bind_eq_some_iff, Option.some.injEq] at hn
    obtain ⟨nf, hnf, nfs', hnfs, _⟩ := hn
    simp only [Spec.concatM, hrt x List.mem_cons_self b1 nf h1 hnf, Option.bind_eq_bind, Option.bind_some,
      ih nfs' b2 (fun y hy => hrt y (List.mem_cons_of_mem _ hy)) h2 hnfs]

theorem entries_eq_spec (w : Val → WR) (nm : Val → Option Val) (f : Val → Option Bytes)
    (kv nkv : List (Val × Val)) (bs : Bytes)
    (hrt : ∀ e ∈ kv, ∀ b nf, w e.2 = ⟨b, none⟩ → nm e.2 = some nf → f e.2 = some b)
    (hstr : ∀ e ∈ kv, ∃ k, e.1 = .str k ∧ (utf8Enc k).length < 2 ^ 63)
    (hw : WR.concat (kv.map fun (k, x) => (encUtf8 k).append (w x)) = ⟨bs, none⟩)
    (hn : Spec.normEntriesWith nm kv = some nkv) :
    Spec.entriesM f kv = some bs := by
  induction kv generalizing bs nkv with
  | nil =>
    simp only [List.map_nil, WR.concat, ok_eq, WR.mk.injEq, and_true] at hw; subst hw; rfl
  | cons e rest ih =>
    obtain ⟨kV, x⟩ := e
    obtain ⟨k, hk, hkl⟩ := hstr (kV, x) List.mem_cons_self
    simp only at hk; subst hk
    rw [List.map_cons, RoundtripProofs.concat_cons_ok] at hw
    obtain ⟨b1, b2, h1, h2, rfl⟩ := hw
    simp only at h1
    rw [append_ok_iff] at h1
    obtain ⟨bk, bx, hbk, hbx, rfl⟩ := h1
    simp only [Spec.normEntriesWith, Option.bind_eq_bind, Option.bind_eq_some_iff, Option.some.injEq] at hn
    obtain ⟨nf, hnf, nrest, hnrest, _⟩ := hn
    have hkb : Spec.encPrim .string (.str k) = some bk := by
      simp only [encUtf8] at hbk
      exact lenPrefixed (utf8Enc k) bk hkl hbk
    simp only [Spec.entriesM, hkb, hrt (.str k, x) List.mem_cons_self bx nf hbx hnf, Option.bind_eq_bind,
      Option.bind_some, ih nrest b2 (fun e he => hrt e (List.mem_cons_of_mem _ he))
        (fun e he => hstr e (List.mem_cons_of_mem _ he)) h2 hnrest, List.append_assoc]

theorem fields_eq_spec (w : Schema → Val → WR) (nm : Schema → Val → Option Val) (f : Schema → Val → Option Bytes)
    (o : WOpts) (fs : List Field) (kv nkv : List (Val × Val)) (bs : Bytes)
    (hrt : ∀ fl ∈ fs, ∀ v b nf, w fl.type v = ⟨b, none⟩ → nm fl.type v = some nf → f fl.type v = some b)
    (hco : ∀ fl ∈ fs, ∀ dv dv' nf b, fieldCoerce fl.type dv = .ok dv' → nm fl.type dv = some nf →
        f fl.type dv' = some b → f fl.type dv = some b)
    (hco2 : ∀ fl ∈ fs, ∀ dv dv' nf, fieldCoerce fl.type dv = .ok dv' → nm fl.type dv = some nf →
        nm fl.type dv' = some nf)
    (hw : writeFieldsWith w o fs kv = ⟨bs, none⟩)
    (hn : Spec.normFieldsWith nm fs kv = some nkv) :
    Spec.fieldsM f fs kv = some bs := by
  induction fs generalizing bs nkv with
  | nil =>
    simp only [writeFieldsWith, ok_eq, WR.mk.injEq, and_true] at hw; subst hw; rfl
  | cons fl rest ih =>
    simp only [writeFieldsWith] at hw
    split at hw
    · simp at hw
    · split at hw
      · simp at hw
      · rename_i dv' hco'
        rw [append_ok_iff] at hw
        obtain ⟨b1, b2, h1, h2, rfl⟩ := hw
        simp only [Spec.normFieldsWith, Option.bind_eq_bind, Option.bind_eq_some_iff, Option.some.injEq] at hn
        obtain ⟨nf, hnf, nrest, hnrest, _⟩ := hn
        have hnf' := hco2 fl List.mem_cons_self _ dv' nf hco' hnf
        have hf' := hrt fl List.mem_cons_self dv' b1 nf h1 hnf'
        have hf := hco fl List.mem_cons_self _ dv' nf b1 hco' hnf hf'
        have hdv : (Spec.dictGet kv fl.name).getD (fl.default.getD Val.none) =
            (match dictGetV kv fl.name with | some x => x | none => fl.default.getD Val.none) := by
          rw [dictGet_eq]; cases dictGetV kv fl.name <;> rfl
        have hf2 : f fl.type (match dictGetV kv fl.name with | some x => x | none => fl.default.getD Val.none) = some b1 := hf
        simp only [Spec.fieldsM, hdv, hf2, Option.bind_eq_bind, Option.bind_some,
          ih nrest b2 (fun g hg => hrt g (List.mem_cons_of_mem _ hg))
            (fun g hg => hco g (List.mem_cons_of_mem _ hg)) (fun g hg => hco2 g (List.mem_cons_of_mem _ hg))
            h2 hnrest]

/-- the branch selection the writer makes, as a `pick` parameter of the specification encoder -/
def writerPick (env : Env) (o : WOpts) : Nat → List Schema → Val → Option (Nat × Val) :=
  fun f bs v => (choose f env o bs v).toOption

theorem block_ok (n : Nat) (hn : n < 2 ^ 63) (body bs : Bytes)
    (h : (if n = 0 then encodeLong 0
          else ((encodeLong (n : Int)).append (WR.ok body)).append (encodeLong 0)) = ⟨bs, none⟩) :
    Spec.block n body = some bs := by
  unfold Spec.block
  split
  · rename_i h0
    simp only [h0, ↓reduceIte, RoundtripProofs.encodeLong_zero, WR.mk.injEq, and_true] at h
    rw [← h]
  · rename_i h0
    simp only [h0, ↓reduceIte] at h
    rw [append_ok_iff] at h
    obtain ⟨b12, b3, h12, h3, rfl⟩ := h
    rw [append_ok_iff] at h12
    obtain ⟨b1, b2, h1, h2, rfl⟩ := h12
    rw [RoundtripProofs.encodeLong_zero] at h3; injection h3 with h3 _; subst h3
    rw [encLen_eq n hn, ok_eq] at h1; injection h1 with h1 _; subst h1
    rw [ok_eq] at h2; injection h2 with h2 _; subst h2
    simp [encLen_some n hn]

theorem coerce_enc (pick : Nat → List Schema → Val → Option (Nat × Val)) (fuel : Nat) (env : Env) (o : WOpts)
    (t : Schema) (dv dv' nf : Val) (b : Bytes)
    (hc : fieldCoerce t dv = .ok dv') (hn : Spec.normalize fuel env o t dv = some nf)
    (he : Spec.encode pick fuel env t dv' = some b) : Spec.encode pick fuel env t dv = some b := by
  unfold fieldCoerce at hc
  split at hc
  · cases fuel with
    | zero => simp [Spec.normalize] at hn
    | succ fuel =>
      rename_i lt
      cases lt with
      | some l => simp [Spec.normalize] at hn
      | none =>
        simp only [Spec.normalize] at hn
        simp only [Spec.encode] at he ⊢
        cases dv <;> simp only [pyFloat, reduceCtorEq] at hc <;> simp only [Spec.normPrim, reduceCtorEq] at hn
        · rename_i n
          cases ho : Fl.ofInt n with
          | none => simp [ho] at hc
          | some d =>
            simp only [ho, Except.ok.injEq] at hc; subst hc
            simpa [ho, Spec.encPrim] using he
        · simp only [Except.ok.injEq] at hc; subst hc; exact he
  · cases fuel with
    | zero => simp [Spec.normalize] at hn
    | succ fuel =>
      rename_i lt
      cases lt with
      | some l => simp [Spec.normalize] at hn
      | none =>
        simp only [Spec.normalize] at hn
        simp only [Spec.encode] at he ⊢
        cases dv <;> simp only [pyFloat, reduceCtorEq] at hc <;> simp only [Spec.normPrim, reduceCtorEq] at hn
        · rename_i n
          cases ho : Fl.ofInt n with
          | none => simp [ho] at hc
          | some d =>
            simp only [ho, Except.ok.injEq] at hc; subst hc
            simpa [ho, Spec.encPrim] using he
        · simp only [Except.ok.injEq] at hc; subst hc; exact he
  · simp only [Except.ok.injEq] at hc; subst hc; exact he

/-- **C02, main statement.** For every schema and every datum with a defined normal form (i.e. a
    conforming datum), the bytes `write_data` emits are exactly the specification's encoding
    (`Spec.encode`: zig-zag varints, little-endian IEEE-754, length prefixes, one counted block plus
    terminator, fields in schema order, index + value for unions) for the branches the writer chose. -/
theorem writeData_eq_spec (env : Env) (o : WOpts) (fuel : Nat) :
    ∀ (s : Schema) (v nf : Val) (bs : Bytes),
      writeData fuel env o s v = ⟨bs, none⟩ → Spec.normalize fuel env o s v = some nf →
      Spec.encode (writerPick env o) fuel env s v = some bs := by
  induction fuel with
  | zero => intro s v nf bs hw; simp [writeData, WR.fail] at hw
  | succ fuel ih =>
    intro s v nf bs hw hn
    cases s with
    | prim p df lt =>
      cases lt with
      | some l => simp [Spec.normalize] at hn
      | none =>
        simp only [Spec.normalize] at hn
        simp only [writeData, Logical.prepare] at hw
        simp only [Spec.encode, prim_eq_spec p v nf bs hw hn]
    | fixed name size lt aliases =>
      cases lt with
      | some l => simp [Spec.normalize] at hn
      | none =>
        simp only [Spec.normalize] at hn
        cases v <;> simp only [reduceCtorEq] at hn
        rename_i b
        split at hn
        · rename_i hl
          simp only [writeData, Logical.prepare, encFixed, hl, bne_self_eq_false, Bool.false_eq_true,
            ↓reduceIte, ok_eq, WR.mk.injEq, and_true] at hw
          subst hw
          simp [Spec.encode, hl]
        · simp at hn
    | enum name syms dflt aliases =>
      simp only [Spec.normalize] at hn
      cases v <;> simp only [reduceCtorEq] at hn
      rename_i x
      split at hn
      · rename_i hc
        simp only [writeData, encEnum, indexOf?] at hw
        split at hw
        · rename_i i hi
          split at hi
          · rename_i hlt
            simp only [Option.some.injEq] at hi; subst hi
            have hi63 : List.findIdx (fun x_1 => x_1 == x) syms < 2 ^ 63 := by
              have := hc.2; rw [RoundtripProofs.limit_eq] at this; omega
            rw [encLen_eq _ hi63, ok_eq] at hw; injection hw with hw _; subst hw
            simp [Spec.encode, hlt, encLen_some _ hi63]
          · simp at hi
        · simp at hw
      · simp at hn
    | array items =>
      simp only [Spec.normalize] at hn
      have key : ∀ xs : List Val, iterItems? v = some xs → xs.length < Spec.LIMIT →
          ∀ nfs, Spec.mapM' (Spec.normalize fuel env o items) xs = some nfs →
          (Spec.concatM (Spec.encode (writerPick env o) fuel env items) xs).bind (Spec.block xs.length) = some bs := by
        intro xs hit hl nfs hnfs
        rw [RoundtripProofs.limit_eq] at hl
        simp only [writeData, hit] at hw
        by_cases hx : xs = []
        · subst hx
          simp only [List.isEmpty_nil, ↓reduceIte, RoundtripProofs.encodeLong_zero, WR.mk.injEq, and_true] at hw
          subst hw; rfl
        · have hne : xs.isEmpty = false := by cases xs <;> simp at hx ⊢
          simp only [hne, Bool.false_eq_true, ↓reduceIte] at hw
          rw [append_ok_iff] at hw
          obtain ⟨b12, b3, h12, h3, rfl⟩ := hw
          rw [append_ok_iff] at h12
          obtain ⟨b1, b2, h1, h2, rfl⟩ := h12
          have hbody := items_eq_spec (writeData fuel env o items) (Spec.normalize fuel env o items)
            (Spec.encode (writerPick env o) fuel env items) xs nfs b2
            (fun x _ b nf' h1 h2 => ih items x nf' b h1 h2) h2 hnfs
          rw [hbody]
          simp only [Option.bind_some]
          apply block_ok xs.length hl b2
          have hlen0 : xs.length ≠ 0 := by cases xs <;> simp at hx ⊢
          simp only [hlen0, ↓reduceIte]
          rw [append_ok_iff]
          refine ⟨b1 ++ b2, b3, ?_, h3, rfl⟩
          rw [append_ok_iff]
          exact ⟨b1, b2, h1, rfl, rfl⟩
      cases v <;> simp only [reduceCtorEq] at hn
      · rename_i xs
        split at hn
        · rename_i hl
          simp only [Option.map_eq_some_iff] at hn
          obtain ⟨nfs, hnfs, _⟩ := hn
          simpa [Spec.encode] using key xs rfl hl nfs hnfs
        · simp at hn
      · rename_i xs
        split at hn
        · rename_i hl
          simp only [Option.map_eq_some_iff] at hn
          obtain ⟨nfs, hnfs, _⟩ := hn
          simpa [Spec.encode] using key xs rfl hl nfs hnfs
        · simp at hn
    | map values =>
      simp only [Spec.normalize] at hn
      cases v <;> simp only [reduceCtorEq] at hn
      rename_i kv
      split at hn
      · rename_i hg
        obtain ⟨hkeys, hl, hutf⟩ := hg
        rw [RoundtripProofs.limit_eq] at hl
        simp only [Option.map_eq_some_iff] at hn
        obtain ⟨nkv, hnkv, _⟩ := hn
        simp only [writeData] at hw
        have hstr : ∀ e ∈ kv, ∃ k, e.1 = .str k ∧ (utf8Enc k).length < 2 ^ 63 := by
          intro e he
          have := List.all_eq_true.mp hutf e he
          obtain ⟨k, x⟩ := e
          cases k <;> simp at this
          rename_i k
          exact ⟨k, rfl, by rw [RoundtripProofs.limit_eq] at this; exact this⟩
        simp only [Spec.encode]
        by_cases hx : kv = []
        · subst hx
          simp only [List.isEmpty_nil, ↓reduceIte, RoundtripProofs.encodeLong_zero, WR.mk.injEq, and_true] at hw
          subst hw; rfl
        · have hne : kv.isEmpty = false := by cases kv <;> simp at hx ⊢
          simp only [hne, Bool.false_eq_true, ↓reduceIte] at hw
          rw [append_ok_iff] at hw
          obtain ⟨b12, b3, h12, h3, rfl⟩ := hw
          rw [append_ok_iff] at h12
          obtain ⟨b1, b2, h1, h2, rfl⟩ := h12
          have hbody := entries_eq_spec (writeData fuel env o values) (Spec.normalize fuel env o values)
            (Spec.encode (writerPick env o) fuel env values) kv nkv b2
            (fun e _ b nf' h1 h2 => ih values e.2 nf' b h1 h2) hstr h2 hnkv
          rw [hbody]
          simp only [Option.bind_some]
          apply block_ok kv.length hl b2
          have hlen0 : kv.length ≠ 0 := by cases kv <;> simp at hx ⊢
          simp only [hlen0, ↓reduceIte]
          rw [append_ok_iff]
          refine ⟨b1 ++ b2, b3, ?_, h3, rfl⟩
          rw [append_ok_iff]
          exact ⟨b1, b2, h1, rfl, rfl⟩
      · simp at hn
    | union branches =>
      simp only [Spec.normalize] at hn
      simp only [writeData] at hw
      cases hc : choose fuel env o branches v with
      | error e => simp [hc] at hn
      | ok iv =>
        obtain ⟨i, v'⟩ := iv
        simp only [hc] at hn hw
        cases hb : branches[i]? with
        | none => simp [hb] at hn
        | some b =>
          simp only [hb] at hn hw
          split at hn
          · rename_i hl
            rw [append_ok_iff] at hw
            obtain ⟨b1, b2, h1, h2, rfl⟩ := hw
            have hi : i < 2 ^ 63 := by
              have := (List.getElem?_eq_some_iff.mp hb).1
              rw [RoundtripProofs.limit_eq] at hl; omega
            rw [encLen_eq i hi, ok_eq] at h1; injection h1 with h1 _; subst h1
            simp [Spec.encode, writerPick, hc, Except.toOption, hb, encLen_some i hi, ih b v' nf b2 h2 hn]
          · simp at hn
    | record name fields aliases =>
      simp only [Spec.normalize] at hn
      cases v <;> simp only [reduceCtorEq] at hn
      rename_i kv
      split at hn
      · rename_i hnd
        simp only [Option.map_eq_some_iff] at hn
        obtain ⟨nkv, hnkv, _⟩ := hn
        simp only [writeData] at hw
        split at hw
        · simp at hw
        · simp only [Spec.encode]
          exact fields_eq_spec (writeData fuel env o) (Spec.normalize fuel env o)
            (Spec.encode (writerPick env o) fuel env) o fields kv nkv bs
            (fun f _ v b nf' h1 h2 => ih f.type v nf' b h1 h2)
            (fun f _ dv dv' nf' b hc hn' he => coerce_enc _ fuel env o f.type dv dv' nf' b hc hn' he)
            (fun f _ dv dv' nf' hc hn' => RoundtripProofs.coerce_norm fuel env o f.type dv dv' nf' hc hn')
            hw hnkv
      · simp at hn
    | ref n =>
      simp only [Spec.normalize] at hn
      simp only [writeData] at hw
      cases hg : env.get? n with
      | none => simp [hg] at hn
      | some s' =>
        simp only [hg] at hn hw
        simp only [Spec.encode, hg]
        exact ih s' v nf bs hw hn

end EncodeProofs
