/-
  Driver/Good.lean — executable (Bool) versions of the hypotheses of `c08_resolve_eq_spec`
  (`EnvWF`, `EnvGood`, `Good` of Proofs/ResolveMatch + Proofs/ResolveFull), evaluated by the driver
  on the schemas of every harness case, so that the evidence says how many of the runs lie inside
  the theorem's domain and which hypothesis excludes the others.

  Instrumentation only: no proof relates these functions to the `Prop`s (the derived `BEq` on
  `Schema` is structural equality, but that is not proved here); they are not part of any theorem.
-/
import Model.Resolve

deriving instance BEq for Val
deriving instance BEq for LogT
deriving instance BEq for Schema

namespace GoodB
open Resolve

def envWF (env : Env) : Bool :=
  env.all fun (k, d) => !AVRO_TYPES.contains k && d.isNamedDef && d.defName? == some k

def pairwiseB {α} (r : α → α → Bool) : List α → Bool
  | [] => true
  | a :: rest => rest.all (r a) && pairwiseB r rest

def nodupB (l : List String) : Bool := pairwiseB (fun a b => a != b) l

def fieldsUnamb (fs : List Field) : Bool :=
  nodupB (fs.map Field.name) &&
  pairwiseB (fun a b => !(a.aliases.any b.aliases.contains)) fs

def registered (env : Env) (n : String) (s : Schema) : Bool :=
  match env.get? n with
  | some d => d == s
  | none => false

mutual
def good (env : Env) (reg : Bool) : Schema → Bool
  | .prim _ _ lt => reg || lt.isNone
  | .fixed n s lt a => (reg || lt.isNone) && (!reg || registered env n (.fixed n s lt a))
  | .enum n s d a => !reg || registered env n (.enum n s d a)
  | .ref n => (env.get? n).isSome
  | .array i => good env reg i
  | .map v => good env reg v
  | .union bs => goodList env reg bs
  | .record n fs a => (!reg || (registered env n (.record n fs a) && fieldsUnamb fs)) && goodFields env reg fs
def goodList (env : Env) (reg : Bool) : List Schema → Bool
  | [] => true
  | s :: rest => good env reg s && !isList s && goodList env reg rest
def goodFields (env : Env) (reg : Bool) : List Field → Bool
  | [] => true
  | .mk _ t _ _ :: rest => good env reg t && goodFields env reg rest
end

def envGood (env : Env) (reg : Bool) : Bool := env.all fun e => good env reg e.2

/-- which hypothesis of `c08_resolve_eq_spec` fails first ("" when all hold) -/
def hypothesis (wenv renv : Env) (w r : Schema) : String :=
  if !envWF wenv then "writer-table" else if !envWF renv then "reader-table"
  else if !envGood wenv false then "writer-table-deep" else if !envGood renv true then "reader-table-deep"
  else if !good wenv false w then "writer-schema" else if !good renv true r then "reader-schema" else ""

end GoodB
