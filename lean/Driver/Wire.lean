/-
  Driver/Wire.lean — JSON-lines wire format between the Python harness and the Lean model.
  Not part of the model or the proofs: trusted glue (see DESIGN §7).
-/
import Lean.Data.Json
import Model.Basic
import Model.Schema

open Lean

namespace Wire

def hexVal (c : Char) : Nat :=
  if c.isDigit then c.toNat - 48 else if 'a' ≤ c && c ≤ 'f' then c.toNat - 87
  else if 'A' ≤ c && c ≤ 'F' then c.toNat - 55 else 0

def unhex (s : String) : Bytes :=
  let rec go : List Char → Bytes
    | a :: b :: rest => UInt8.ofNat (hexVal a * 16 + hexVal b) :: go rest
    | _ => []
  go s.toList

def hexDigit (n : Nat) : Char := if n < 10 then Char.ofNat (48 + n) else Char.ofNat (87 + n)
def hex (bs : Bytes) : String :=
  String.ofList (bs.flatMap fun b => [hexDigit (b.toNat / 16), hexDigit (b.toNat % 16)])

def hexToNat (s : String) : Nat := s.toList.foldl (fun acc c => acc * 16 + hexVal c) 0

def strOfHex (s : String) : String :=
  match String.fromUTF8? (ByteArray.mk (unhex s).toArray) with
  | some t => t
  | none => ""

def intOfJson (j : Json) : Int :=
  match j with
  | .str s => s.toInt?.getD 0
  | .num n => n.mantissa   -- exponent 0 expected
  | _ => 0

partial def toVal (j : Json) : Val :=
  match j with
  | .null => .none
  | .bool b => .bool b
  | .obj _ =>
    let get (k : String) : Option Json := (j.getObjVal? k).toOption
    match get "i" with
    | some x => .int (intOfJson x)
    | none =>
    match get "f" with
    | some (.str h) => .float (UInt64.ofNat (hexToNat h))
    | _ =>
    match get "s" with
    | some (.str h) => .str (strOfHex h)
    | _ =>
    match get "b" with
    | some (.str h) => .bytes (unhex h)
    | _ =>
    match get "ba" with
    | some (.str h) => .bytearray (unhex h)
    | _ =>
    match get "l" with
    | some (.arr xs) => .list (xs.toList.map toVal)
    | _ =>
    match get "t" with
    | some (.arr xs) => .tuple (xs.toList.map toVal)
    | _ =>
    match get "d" with
    | some (.arr xs) => .dict (xs.toList.map fun e =>
        match e with
        | .arr #[k, v] => (toVal k, toVal v)
        | _ => (.none, .none))
    | _ =>
    match get "date" with
    | some x => .date (intOfJson x)
    | none =>
    match get "time" with
    | some x => .time (intOfJson x).toNat
    | none =>
    match get "dt" with
    | some x => .datetime (intOfJson x) ((get "aware").bind (·.getBool?.toOption) |>.getD false)
    | none =>
    match get "dec" with
    | some (.arr #[s, .arr ds, e]) =>
        .decimal (intOfJson s != 0) (ds.toList.map fun d => (intOfJson d).toNat) (intOfJson e)
    | _ =>
    match get "uuid" with
    | some (.str h) => .uuid (hexToNat h)
    | _ =>
    match get "o" with
    | some (.str n) => .opaque n
    | _ => .opaque "?"
  | _ => .opaque "?"

def jsonStr (s : String) : String := (Json.str s).compress

partial def ofVal : Val → String
  | .none => "null"
  | .bool b => if b then "true" else "false"
  | .int n => "{\"i\":\"" ++ toString n ++ "\"}"
  | .float b => "{\"f\":\"" ++ (String.ofList (Nat.toDigits 16 b.toNat)) ++ "\"}"
  | .str s => "{\"s\":\"" ++ hex (utf8Enc s) ++ "\"}"
  | .bytes b => "{\"b\":\"" ++ hex b ++ "\"}"
  | .bytearray b => "{\"ba\":\"" ++ hex b ++ "\"}"
  | .list xs => "{\"l\":[" ++ ",".intercalate (xs.map ofVal) ++ "]}"
  | .tuple xs => "{\"t\":[" ++ ",".intercalate (xs.map ofVal) ++ "]}"
  | .dict kv => "{\"d\":[" ++ ",".intercalate (kv.map fun (k, v) => "[" ++ ofVal k ++ "," ++ ofVal v ++ "]") ++ "]}"
  | .date o => "{\"date\":\"" ++ toString o ++ "\"}"
  | .time us => "{\"time\":\"" ++ toString us ++ "\"}"
  | .datetime us aware => "{\"dt\":\"" ++ toString us ++ "\",\"aware\":" ++ (if aware then "true" else "false") ++ "}"
  | .decimal s ds e => "{\"dec\":[" ++ (if s then "1" else "0") ++ ",[" ++ ",".intercalate (ds.map toString) ++ "],\"" ++ toString e ++ "\"]}"
  | .uuid n => "{\"uuid\":\"" ++ (String.ofList (Nat.toDigits 16 n)) ++ "\"}"
  | .opaque n => "{\"o\":" ++ jsonStr n ++ "}"

def errOut (e : Err) : String := "{\"err\":\"" ++ e.name ++ "\"}"

end Wire
