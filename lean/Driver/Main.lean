/-
  Driver/Main.lean — one JSON request per input line, one JSON response per output line.
  Runs the executable definitions of Model/ and Spec/ (the very definitions the theorems are about).
-/
import Driver.Wire
import Driver.Good
import Model.Parse
import Model.Binary
import Model.Canon
import Model.Rabin
import Spec.Normalize
import Spec.Encode
import Model.Container
import Model.Resolve
import Spec.Conforms
import Spec.Choose
import Spec.Pcf
import Spec.Resolve
import Spec.JsonEnc
import Model.Json
import Model.JsonMachine
import Model.Load
import Model.Generate

open Lean Wire

def FUEL : Nat := 400

def getS (j : Json) (k : String) : String := (j.getObjValAs? String k).toOption.getD ""
def getB (j : Json) (k : String) : Bool := (j.getObjValAs? Bool k).toOption.getD false
def getJ (j : Json) (k : String) : Json := (j.getObjVal? k).toOption.getD .null
def getV (j : Json) (k : String) : Val := toVal (getJ j k)

def wopts (j : Json) : WOpts :=
  let o := getJ j "opts"
  { strict := getB o "strict", strictAllowDefault := getB o "sad", disableTuple := getB o "dtn" }

def ropts (j : Json) : ROpts :=
  let o := getJ j "ropts"
  { returnRecordName := getB o "rrn", returnRecordNameOverride := getB o "rrno",
    returnNamedType := getB o "rnt", returnNamedTypeOverride := getB o "rnto" }

/-- parse the raw schema of a request (`schema`), optionally after earlier pieces (`named`) -/
def parseReq (j : Json) (key : String := "schema") : R (Schema × Env) := do
  let pieces := match getJ j "named" with
    | .arr xs => xs.toList.map toVal
    | _ => []
  let mut env : Env := []
  for p in pieces do
    let (_, e) ← Parse.parseTop FUEL p env
    env := e
  Parse.parseTop FUEL (getV j key) env

def handle (j : Json) : String :=
  let op := getS j "op"
  match op with
  | "ping" => "{\"ok\":true}"
  | "parse" =>
    match parseReq j with
    | .error e => errOut e
    | .ok (s, env) =>
      "{\"ok\":{\"canon\":" ++ jsonStr (Canon.canon s) ++ ",\"names\":[" ++
        ",".intercalate (env.map fun (k, _) => jsonStr k) ++ "]},\"toraw\":" ++ ofVal (Canon.toRaw s) ++ "}"
  | "enc" =>
    match parseReq j with
    | .error e => "{\"perr\":\"" ++ e.name ++ "\"}"
    | .ok (s, env) =>
      let w := Binary.writeData FUEL env (wopts j) s (getV j "value")
      match w.err with
      | none => "{\"bytes\":\"" ++ hex w.out ++ "\"}"
      | some e => "{\"err\":\"" ++ e.name ++ "\",\"emitted\":\"" ++ hex w.out ++ "\"}"
  | "dec" =>
    match parseReq j with
    | .error e => "{\"perr\":\"" ++ e.name ++ "\"}"
    | .ok (s, env) =>
      match Binary.readData FUEL env (ropts j) s (unhex (getS j "bytes")) with
      | .error e => errOut e
      | .ok (v, rest) => "{\"ok\":" ++ ofVal v ++ ",\"rest\":" ++ toString rest.length ++ "}"
  | "normalize" =>
    match parseReq j with
    | .error e => "{\"perr\":\"" ++ e.name ++ "\"}"
    | .ok (s, env) =>
      match Spec.normalize FUEL env (wopts j) s (getV j "value") with
      | none => "{\"none\":true}"
      | some v => "{\"ok\":" ++ ofVal v ++ "}"
  | "spec.enc" =>
    match parseReq j with
    | .error e => "{\"perr\":\"" ++ e.name ++ "\"}"
    | .ok (s, env) =>
      let o := wopts j
      match Spec.encode (fun f bs v => (Binary.choose f env o bs v).toOption) FUEL env s (getV j "value") with
      | none => "{\"none\":true}"
      | some b => "{\"bytes\":\"" ++ hex b ++ "\"}"
  | "container.run" =>
    match parseReq j with
    | .error e => "{\"perr\":\"" ++ e.name ++ "\"}"
    | .ok (s, env) =>
      let o := wopts j
      let sync := unhex (getS j "sync")
      let interval := (getJ j "interval").getNat?.toOption.getD 16000
      let metadata : List (String × Bytes) := match getJ j "meta" with
        | .arr xs => xs.toList.filterMap fun x => match x with
            | .arr #[.str k, .str v] => some (strOfHex k, unhex v)
            | _ => none
        | _ => []
      let cfg : Container.WCfg := { codec := Container.Codec.null, sync := sync, interval := interval,
                                    validator := getB j "validator" }
      let enc := fun v => Binary.writeData FUEL env o s v
      let vo : VOpts := { strict := o.strict, disableTuple := o.disableTuple }
      let val := fun v => Validate.validate FUEL env vo false "" s (some v)
      let hdr := Container.writeHeader metadata sync
      let ops : List Container.Op := match getJ j "ops" with
        | .arr xs => xs.toList.map fun x =>
            match (x.getObjVal? "w").toOption, (x.getObjVal? "b").toOption with
            | some v, _ => Container.Op.write (toVal v)
            | _, some (.arr #[n, .str p]) => Container.Op.writeBlock (intOfJson n) (unhex p)
            | _, _ => Container.Op.flush
        | _ => []
      let init : Container.WState := { out := [], pending := [], count := 0 }
      let (st, errs) := ops.foldl (fun (acc : Container.WState × List String) op =>
          let (st', e) := Container.step enc val cfg acc.1 op
          (st', acc.2 ++ [match e with | some e => "\"" ++ e.name ++ "\"" | none => "null"])) (init, [])
      let (infos, _) := Container.readBlockInfos Container.Codec.null sync (st.out.length + 1) 0 st.out
      "{\"header\":\"" ++ hex hdr.out ++ "\",\"herr\":" ++ (match hdr.err with | some e => "\"" ++ e.name ++ "\"" | none => "null") ++
        ",\"blocks\":[" ++ ",".intercalate (infos.map fun b => "[" ++ toString b.numRecords ++ ",\"" ++ hex b.payload ++ "\"]") ++
        "],\"errs\":[" ++ ",".intercalate errs ++ "],\"pending\":\"" ++ hex st.pending ++ "\",\"count\":" ++ toString st.count ++ "}"
  | "container.read" =>
    match parseReq j with
    | .error e => "{\"perr\":\"" ++ e.name ++ "\"}"
    | .ok (s, env) =>
      let table : List (String × Bytes) := match getJ j "decomp" with
        | .arr xs => xs.toList.filterMap fun x => match x with
            | .arr #[.str c, .str p] => some (c, unhex p)
            | _ => none
        | _ => []
      let known : List String := match getJ j "codecs" with
        | .arr xs => xs.toList.filterMap fun x => x.getStr?.toOption
        | _ => ["null"]
      let codecFor : String → Option Container.Codec := fun n =>
        if !known.contains n then none
        else if n == "null" then some Container.Codec.null
        else some { compress := id, decompress := fun b => table.lookup (hex b) }
      let dec := fun bs => Binary.readData FUEL env (ropts j) s bs
      let bs := unhex (getS j "bytes")
      if getB j "blocks" then
        match Container.readHeader bs with
        | .error e => "{\"herr\":\"" ++ e.name ++ "\"}"
        | .ok (h, rest) =>
          match h.codecName with
          | .error e => "{\"herr\":\"" ++ e.name ++ "\"}"
          | .ok cn =>
            match codecFor cn with
            | none => "{\"herr\":\"value\"}"
            | some c =>
              let (infos, e) := Container.readBlockInfos c h.sync (rest.length + 1) (bs.length - rest.length) rest
              "{\"blocks\":[" ++ ",".intercalate (infos.map fun b =>
                  "[" ++ toString b.offset ++ "," ++ toString b.size ++ "," ++ toString b.numRecords ++ "]") ++
                "],\"end\":" ++ (match e with | .eof => "\"eof\"" | .error e => "{\"err\":\"" ++ e.name ++ "\"}") ++ "}"
      else
      let (h, recs, e) := Container.readContainer (fun _ => some dec) codecFor bs
      let hs := match h with
        | .error e => "{\"herr\":\"" ++ e.name ++ "\"}"
        | .ok h => "{\"meta\":[" ++ ",".intercalate (h.metadata.map fun (k, v) => "[" ++ jsonStr k ++ ",\"" ++ hex v ++ "\"]") ++
            "],\"sync\":\"" ++ hex h.sync ++ "\"}"
      "{\"header\":" ++ hs ++ ",\"records\":[" ++ ",".intercalate (recs.map ofVal) ++ "],\"end\":" ++
        (match e with | .eof => "\"eof\"" | .error e => "{\"err\":\"" ++ e.name ++ "\"}") ++ "}"
  | "spec.conforms" =>
    match parseReq j with
    | .error e => "{\"perr\":\"" ++ e.name ++ "\"}"
    | .ok (s, env) =>
      let b := Spec.conforms FUEL env (getB j "strict") (getB j "dtn") s (getV j "value")
      "{\"ok\":" ++ (if b then "true" else "false") ++ "}"
  | "spec.enc.rule" =>   -- the specification's encoding with the *documented* branch-choice rule
    match parseReq j with
    | .error e => "{\"perr\":\"" ++ e.name ++ "\"}"
    | .ok (s, env) =>
      let o := wopts j
      match Spec.encode (fun f bs v => Spec.choose f env o.strict o.disableTuple bs v) FUEL env s (getV j "value") with
      | none => "{\"none\":true}"
      | some b => "{\"bytes\":\"" ++ hex b ++ "\"}"
  | "json.enc" =>
    match parseReq j with
    | .error e => "{\"perr\":\"" ++ e.name ++ "\"}"
    | .ok (s, env) =>
      match Json.encode (!(getB j "nowut")) FUEL env (wopts j) s (getV j "value") with
      | .error e => errOut e
      | .ok v => "{\"ok\":" ++ ofVal v ++ "}"
  | "json.dec" =>
    match parseReq j with
    | .error e => "{\"perr\":\"" ++ e.name ++ "\"}"
    | .ok (s, env) =>
      match Json.decode FUEL env s (getV j "json") with
      | .error e => errOut e
      | .ok v => "{\"ok\":" ++ ofVal v ++ "}"
  | "spec.json" =>
    match parseReq j with
    | .error e => "{\"perr\":\"" ++ e.name ++ "\"}"
    | .ok (s, env) =>
      let o := wopts j
      match Spec.jsonEncode (fun f bs v => Spec.choose f env o.strict o.disableTuple bs v) FUEL env s (getV j "value") with
      | none => "{\"none\":true}"
      | some v => "{\"ok\":" ++ ofVal v ++ "}"
  | "spec.written" =>
    match parseReq j with
    | .error e => "{\"perr\":\"" ++ e.name ++ "\"}"
    | .ok (s, env) =>
      let o := wopts j
      match Spec.written (fun f bs v => (Binary.choose f env o bs v).toOption) FUEL env s (getV j "value") with
      | none => "{\"none\":true}"
      | some v => "{\"ok\":" ++ ofVal v ++ "}"
  | "inject" =>
    let inner := getV j "inner"
    let innerName := match inner with
      | .dict kv => (match dictGetV kv "name" with | some (.str n) => n | _ => "")
      | _ => ""
    match Load.inject FUEL inner innerName (getV j "outer") "" false with
    | .error e => errOut e
    | .ok (v, b) => "{\"ok\":" ++ ofVal v ++ ",\"injected\":" ++ (if b then "true" else "false") ++ "}"
  | "gen.image" =>
    match parseReq j with
    | .error e => "{\"perr\":\"" ++ e.name ++ "\"}"
    | .ok (s, env) =>
      "{\"ok\":" ++ (if Generate.inImage FUEL env s (getV j "value") then "true" else "false") ++ "}"
  | "spec.choose" =>
    match parseReq j with
    | .error e => "{\"perr\":\"" ++ e.name ++ "\"}"
    | .ok (s, env) =>
      let o := wopts j
      match s with
      | .union bs =>
        match Spec.choose FUEL env o.strict o.disableTuple bs (getV j "value") with
        | none => "{\"none\":true}"
        | some (i, _) => "{\"ok\":" ++ toString i ++ "}"
      | _ => errOut .other
  | "spec.canon" =>
    match Spec.pcf FUEL (getV j "schema") "" with
    | none => "{\"none\":true}"
    | some t => "{\"ok\":" ++ jsonStr t ++ "}"
  | "resolve" =>
    match parseReq j "writer" with
    | .error e => "{\"perr\":\"" ++ e.name ++ "\"}"
    | .ok (w, wenv) =>
      let bytes := unhex (getS j "bytes")
      match getJ j "reader" with
      | .null =>
        (match Binary.readData FUEL wenv (ropts j) w bytes with
         | .error e => errOut e
         | .ok (v, rest) => "{\"ok\":" ++ ofVal v ++ ",\"rest\":" ++ toString rest.length ++ "}")
      | _ =>
        match Parse.parseTop FUEL (getV j "reader") [] with
        | .error e => "{\"rperr\":\"" ++ e.name ++ "\"}"
        | .ok (r, renv) =>
          match Resolve.readR FUEL wenv renv (ropts j) w r bytes with
          | .error e => errOut e
          | .ok (v, rest) => "{\"ok\":" ++ ofVal v ++ ",\"rest\":" ++ toString rest.length ++ "}"
  | "c08.hyp" =>
    match parseReq j "writer" with
    | .error e => "{\"perr\":\"" ++ e.name ++ "\"}"
    | .ok (w, wenv) =>
      match Parse.parseTop FUEL (getV j "reader") [] with
      | .error e => "{\"rperr\":\"" ++ e.name ++ "\"}"
      | .ok (r, renv) => "{\"fails\":" ++ jsonStr (GoodB.hypothesis wenv renv w r) ++ "}"
  | "spec.resolve" =>
    match parseReq j "writer" with
    | .error e => "{\"perr\":\"" ++ e.name ++ "\"}"
    | .ok (w, wenv) =>
      match Parse.parseTop FUEL (getV j "reader") [] with
      | .error e => "{\"rperr\":\"" ++ e.name ++ "\"}"
      | .ok (r, renv) =>
        match Spec.resolveRead FUEL wenv renv w r (unhex (getS j "bytes")) with
        | .error e => errOut e
        | .ok (v, rest) => "{\"ok\":" ++ ofVal v ++ ",\"rest\":" ++ toString rest.length ++ "}"
  | "skip" =>
    match parseReq j with
    | .error e => "{\"perr\":\"" ++ e.name ++ "\"}"
    | .ok (s, env) =>
      match Binary.skipData FUEL env s (unhex (getS j "bytes")) with
      | .error e => errOut e
      | .ok rest => "{\"rest\":" ++ toString rest.length ++ "}"
  | "validate" =>
    match parseReq j with
    | .error e => "{\"perr\":\"" ++ e.name ++ "\"}"
    | .ok (s, env) =>
      let o : VOpts := { strict := getB j "strict", disableTuple := getB j "dtn" }
      match Validate.validate FUEL env o (getB j "raise") (getS j "field") s (some (getV j "value")) with
      | .error e => errOut e
      | .ok b => "{\"ok\":" ++ (if b then "true" else "false") ++ "}"
  | "choose" =>
    match parseReq j with
    | .error e => "{\"perr\":\"" ++ e.name ++ "\"}"
    | .ok (s, env) =>
      match s with
      | .union bs =>
        match Binary.choose FUEL env (wopts j) bs (getV j "value") with
        | .error e => errOut e
        | .ok (i, _) => "{\"ok\":" ++ toString i ++ "}"
      | _ => errOut .other
  | "fp" =>
    let algs := match getJ j "algs" with
      | .arr xs => xs.toList.filterMap fun x => x.getStr?.toOption
      | _ => []
    let jm := match getJ j "javamap" with
      | .arr xs => xs.toList.filterMap fun x => match x with
          | .arr #[.str a, .str b] => some (a, b)
          | _ => none
      | _ => []
    match Rabin.fingerprint algs jm (strOfHex (getS j "text")) (getS j "alg") with
    | .error e => errOut e
    | .ok (.hex h) => "{\"ok\":" ++ jsonStr h ++ "}"
    | .ok (.digest a) => "{\"digest\":" ++ jsonStr a ++ "}"
  | "f32" =>   -- self-test of the float layer: double bits → float bits → double bits
    let b := UInt64.ofNat (hexToNat (getS j "bits"))
    match Fl.f64ToF32 b with
    | none => "{\"err\":\"value\"}"
    | some f => "{\"f32\":\"" ++ String.ofList (Nat.toDigits 16 f.toNat) ++ "\",\"back\":\"" ++
        String.ofList (Nat.toDigits 16 (Fl.f32ToF64 f).toNat) ++ "\"}"
  | "jm.enc" =>      -- the push-down machine: json_writer(schema, records) -> the documents written
    match parseReq j with
    | .error e => "{\"perr\":\"" ++ e.name ++ "\"}"
    | .ok (s, env) =>
      let vs := match getV j "values" with | .list xs => xs | _ => []
      match JM.encodeAll (!(getB j "nowut")) FUEL env (wopts j) s vs with
      | .error e => errOut e
      | .ok docs => "{\"ok\":" ++ ofVal (.list docs) ++ "}"
  | "jm.dec" =>      -- the push-down machine: list(json_reader(text, schema)) for the parsed lines `docs`
    match parseReq j with
    | .error e => "{\"perr\":\"" ++ e.name ++ "\"}"
    | .ok (s, env) =>
      let docs := match getV j "docs" with | .list xs => xs | _ => []
      match JM.decodeAll FUEL env s docs with
      | .error e => errOut e
      | .ok vs => "{\"ok\":" ++ ofVal (.list vs) ++ "}"
  | "ofint" =>
    match Fl.ofInt (intOfJson (getJ j "n")) with
    | none => "{\"err\":\"value\"}"
    | some b => "{\"bits\":\"" ++ String.ofList (Nat.toDigits 16 b.toNat) ++ "\"}"
  | _ => "{\"err\":\"bad-op\"}"

partial def loop (hin hout : IO.FS.Stream) : IO Unit := do
  let line ← hin.getLine
  if line.isEmpty then return ()
  let out := match Json.parse line with
    | .error _ => "{\"err\":\"bad-json\"}"
    | .ok j => handle j
  hout.putStrLn out
  hout.flush
  loop hin hout

def main : IO Unit := do
  let hin ← IO.getStdin
  let hout ← IO.getStdout
  loop hin hout
  hout.flush
