/-
  Driver/Main.lean — one JSON request per input line, one JSON response per output line.
  Runs the executable definitions of Model/ and Spec/ (the very definitions the theorems are about).
-/
import Driver.Wire
import Model.Parse
import Model.Binary
import Model.Canon
import Model.Rabin
import Spec.Normalize
import Spec.Encode

open Lean Wire

def FUEL : Nat := 400

def getS (j : Json) (k : String) : String := (j.getObjValAs? String k).toOption.getD ""
def getB (j : Json) (k : String) : Bool := (j.getObjValAs? Bool k).toOption.getD false
def getJ (j : Json) (k : String) : Json := (j.getObjVal? k).toOption.getD .null
def getV (j : Json) (k : String) : Val := toVal (getJ j k)

def wopts (j : Json) : WOpts :=
  let o := getJ j "opts"
  { strict := getB o "strict", strictAllowDefault := getB o "sad", disableTuple := getB o "dtn" }

def ropts (j : Json) : ROpts :=
  let o := getJ j "ropts"
  { returnRecordName := getB o "rrn", returnRecordNameOverride := getB o "rrno",
    returnNamedType := getB o "rnt", returnNamedTypeOverride := getB o "rnto" }

/-- parse the raw schema of a request (`schema`), optionally after earlier pieces (`named`) -/
def parseReq (j : Json) (key : String := "schema") : R (Schema × Env) := do
  let pieces := match getJ j "named" with
    | .arr xs => xs.toList.map toVal
    | _ => []
  let mut env : Env := []
  for p in pieces do
    let (_, e) ← Parse.parseTop FUEL p env
    env := e
  Parse.parseTop FUEL (getV j key) env

def handle (j : Json) : String :=
  let op := getS j "op"
  match op with
  | "ping" => "{\"ok\":true}"
  | "parse" =>
    match parseReq j with
    | .error e => errOut e
    | .ok (s, env) =>
      "{\"ok\":{\"canon\":" ++ jsonStr (Canon.canon s) ++ ",\"names\":[" ++
        ",".intercalate (env.map fun (k, _) => jsonStr k) ++ "]}}"
  | "enc" =>
    match parseReq j with
    | .error e => "{\"perr\":\"" ++ e.name ++ "\"}"
    | .ok (s, env) =>
      let w := Binary.writeData FUEL env (wopts j) s (getV j "value")
      match w.err with
      | none => "{\"bytes\":\"" ++ hex w.out ++ "\"}"
      | some e => "{\"err\":\"" ++ e.name ++ "\",\"emitted\":\"" ++ hex w.out ++ "\"}"
  | "dec" =>
    match parseReq j with
    | .error e => "{\"perr\":\"" ++ e.name ++ "\"}"
    | .ok (s, env) =>
      match Binary.readData FUEL env (ropts j) s (unhex (getS j "bytes")) with
      | .error e => errOut e
      | .ok (v, rest) => "{\"ok\":" ++ ofVal v ++ ",\"rest\":" ++ toString rest.length ++ "}"
  | "normalize" =>
    match parseReq j with
    | .error e => "{\"perr\":\"" ++ e.name ++ "\"}"
    | .ok (s, env) =>
      match Spec.normalize FUEL env (wopts j) s (getV j "value") with
      | none => "{\"none\":true}"
      | some v => "{\"ok\":" ++ ofVal v ++ "}"
  | "spec.enc" =>
    match parseReq j with
    | .error e => "{\"perr\":\"" ++ e.name ++ "\"}"
    | .ok (s, env) =>
      let o := wopts j
      match Spec.encode (fun f bs v => (Binary.choose f env o bs v).toOption) FUEL env s (getV j "value") with
      | none => "{\"none\":true}"
      | some b => "{\"bytes\":\"" ++ hex b ++ "\"}"
  | "skip" =>
    match parseReq j with
    | .error e => "{\"perr\":\"" ++ e.name ++ "\"}"
    | .ok (s, env) =>
      match Binary.skipData FUEL env s (unhex (getS j "bytes")) with
      | .error e => errOut e
      | .ok rest => "{\"rest\":" ++ toString rest.length ++ "}"
  | "validate" =>
    match parseReq j with
    | .error e => "{\"perr\":\"" ++ e.name ++ "\"}"
    | .ok (s, env) =>
      let o : VOpts := { strict := getB j "strict", disableTuple := getB j "dtn" }
      match Validate.validate FUEL env o (getB j "raise") (getS j "field") s (some (getV j "value")) with
      | .error e => errOut e
      | .ok b => "{\"ok\":" ++ (if b then "true" else "false") ++ "}"
  | "choose" =>
    match parseReq j with
    | .error e => "{\"perr\":\"" ++ e.name ++ "\"}"
    | .ok (s, env) =>
      match s with
      | .union bs =>
        match Binary.choose FUEL env (wopts j) bs (getV j "value") with
        | .error e => errOut e
        | .ok (i, _) => "{\"ok\":" ++ toString i ++ "}"
      | _ => errOut .other
  | "fp" =>
    let algs := match getJ j "algs" with
      | .arr xs => xs.toList.filterMap fun x => x.getStr?.toOption
      | _ => []
    let jm := match getJ j "javamap" with
      | .arr xs => xs.toList.filterMap fun x => match x with
          | .arr #[.str a, .str b] => some (a, b)
          | _ => none
      | _ => []
    match Rabin.fingerprint algs jm (strOfHex (getS j "text")) (getS j "alg") with
    | .error e => errOut e
    | .ok (.hex h) => "{\"ok\":" ++ jsonStr h ++ "}"
    | .ok (.digest a) => "{\"digest\":" ++ jsonStr a ++ "}"
  | "f32" =>   -- self-test of the float layer: double bits → float bits → double bits
    let b := UInt64.ofNat (hexToNat (getS j "bits"))
    match Fl.f64ToF32 b with
    | none => "{\"err\":\"value\"}"
    | some f => "{\"f32\":\"" ++ String.ofList (Nat.toDigits 16 f.toNat) ++ "\",\"back\":\"" ++
        String.ofList (Nat.toDigits 16 (Fl.f32ToF64 f).toNat) ++ "\"}"
  | "ofint" =>
    match Fl.ofInt (intOfJson (getJ j "n")) with
    | none => "{\"err\":\"value\"}"
    | some b => "{\"bits\":\"" ++ String.ofList (Nat.toDigits 16 b.toNat) ++ "\"}"
  | _ => "{\"err\":\"bad-op\"}"

partial def loop (hin hout : IO.FS.Stream) : IO Unit := do
  let line ← hin.getLine
  if line.isEmpty then return ()
  let out := match Json.parse line with
    | .error _ => "{\"err\":\"bad-json\"}"
    | .ok j => handle j
  hout.putStrLn out
  loop hin hout

def main : IO Unit := do
  let hin ← IO.getStdin
  let hout ← IO.getStdout
  loop hin hout
  hout.flush
