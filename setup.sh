#!/bin/bash
# builds the Lean project (model, specification, proofs, driver) from files on disk only
set -e
cd "$(dirname "$0")"
export PYTHONPATH=/verif/harness
/venv/bin/python harness/gen_tables.py /repo >/dev/null
cd lean
lake build
