#!/bin/bash
# builds the Lean project (model, specification, proofs, driver) from files on disk only
set -e
cd "$(dirname "$0")"
export PYTHONPATH=/verif/harness
/venv/bin/python harness/gen_tables.py /repo lean/Gen/Tables.lean >/dev/null
/venv/bin/python harness/gen_effects.py /repo lean/Gen/Effects.lean >/dev/null
cd lean
lake build
