import ast, sys, os, json
ROOT="/repo/fastavro"
MUT_METHODS={"append","extend","update","pop","popitem","clear","setdefault","add","remove","discard","insert","sort","reverse","__setitem__","__delitem__"}
files=[]
for dp,dn,fn in os.walk(ROOT):
    for f in fn:
        if f.endswith(".py"): files.append(os.path.join(dp,f))
mods={}
for p in sorted(files):
    name=os.path.relpath(p,"/repo")[:-3].replace("/",".")
    mods[name]=ast.parse(open(p).read(),p)
def is_mutable_ctor(v):
    if isinstance(v,(ast.Dict,ast.List,ast.Set,ast.DictComp,ast.ListComp,ast.SetComp)): return True
    if isinstance(v,ast.Call):
        f=v.func
        n=f.id if isinstance(f,ast.Name) else (f.attr if isinstance(f,ast.Attribute) else "")
        return n in {"dict","list","set","Context","defaultdict","OrderedDict","BytesIO","StringIO","bytearray"}
    if isinstance(v,ast.BinOp): return is_mutable_ctor(v.left) or is_mutable_ctor(v.right)
    return False
report={}
for m,tree in mods.items():
    # module-level names bound to mutable objects
    glob={}
    for st in tree.body:
        if isinstance(st,ast.Assign):
            for t in st.targets:
                if isinstance(t,ast.Name): glob[t.id]=is_mutable_ctor(st.value)
        elif isinstance(st,(ast.ImportFrom,)):
            for a in st.names: glob.setdefault(a.asname or a.name, None)  # imported: unknown
    funcs=[n for n in ast.walk(tree) if isinstance(n,(ast.FunctionDef,ast.AsyncFunctionDef))]
    for fn in funcs:
        params=[a.arg for a in fn.args.args+fn.args.kwonlyargs]
        if fn.args.vararg: params.append(fn.args.vararg.arg)
        defaults=fn.args.defaults+[d for d in fn.args.kw_defaults if d is not None]
        mutable_defaults=[ast.unparse(d) for d in defaults if is_mutable_ctor(d)]
        localnames=set(params)
        for n in ast.walk(fn):
            if isinstance(n,ast.Name) and isinstance(n.ctx,ast.Store): localnames.add(n.id)
        globs_decl=set()
        for n in ast.walk(fn):
            if isinstance(n,ast.Global): globs_decl|=set(n.names)
        localnames-=globs_decl
        def root(e):
            while isinstance(e,(ast.Attribute,ast.Subscript)): e=e.value
            return e.id if isinstance(e,ast.Name) else None
        writes=[]; 
        for n in ast.walk(fn):
            tgts=[]
            if isinstance(n,ast.Assign): tgts=n.targets
            elif isinstance(n,(ast.AugAssign,ast.AnnAssign)): tgts=[n.target]
            elif isinstance(n,ast.Delete): tgts=n.targets
            for t in tgts:
                if isinstance(t,(ast.Attribute,ast.Subscript)):
                    r=root(t)
                    if r is not None: writes.append((r, "glob" if r not in localnames else ("param" if r in params else "local"), n.lineno, ast.unparse(t)))
                elif isinstance(t,ast.Name) and t.id in globs_decl:
                    writes.append((t.id,"glob",n.lineno,"rebind"))
            if isinstance(n,ast.Call) and isinstance(n.func,ast.Attribute) and n.func.attr in MUT_METHODS:
                r=root(n.func.value)
                if r is not None: writes.append((r, "glob" if r not in localnames else ("param" if r in params else "local"), n.lineno, ast.unparse(n.func)))
        gw=[w for w in writes if w[1]=="glob"]
        pw=[w for w in writes if w[1]=="param" and w[0]!="self"]
        if gw or pw or mutable_defaults:
            report[f"{m}.{fn.name}"]={"global_writes":gw,"param_writes":pw,"mutable_defaults":mutable_defaults}
for k,v in report.items():
    print(k)
    for kk,vv in v.items():
        if vv: print("   ",kk,vv)
