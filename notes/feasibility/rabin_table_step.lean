def P : BitVec 64 := 0xC15D213AA4D7A795#64
def step (x : BitVec 64) : BitVec 64 := (x >>> 1) ^^^ (if x.getLsbD 0 then P else 0#64)

theorem step_xor (a b : BitVec 64) : step (a ^^^ b) = step a ^^^ step b := by
  unfold step
  simp only [BitVec.ushiftRight_xor_distrib, BitVec.getLsbD_xor]
  cases a.getLsbD 0 <;> cases b.getLsbD 0 <;> simp
  · ac_rfl
  · ac_rfl
  · rw [show a >>> 1 ^^^ P ^^^ (b >>> 1 ^^^ P) = (a >>> 1 ^^^ b >>> 1) ^^^ (P ^^^ P) by ac_rfl]
    simp

def stepN : Nat → BitVec 64 → BitVec 64
  | 0, x => x
  | n+1, x => stepN n (step x)

theorem stepN_xor (n : Nat) (a b : BitVec 64) : stepN n (a ^^^ b) = stepN n a ^^^ stepN n b := by
  induction n generalizing a b with
  | zero => rfl
  | succ n ih => simp [stepN, step_xor, ih]

theorem stepN_shift (k : Nat) (x : BitVec 64) (h : ∀ i, i < k → x.getLsbD i = false) :
    stepN k x = x >>> k := by
  induction k generalizing x with
  | zero => simp [stepN]
  | succ k ih =>
    have h0 : x.getLsbD 0 = false := h 0 (by omega)
    have : step x = x >>> 1 := by unfold step; rw [h0]; simp
    rw [stepN, this, ih]
    · rw [← BitVec.shiftRight_add, Nat.add_comm]
    · intro i hi; rw [BitVec.getLsbD_ushiftRight]; exact h (1+i) (by omega)

theorem table_step (r b : BitVec 64) (hb : ∀ i, 8 ≤ i → b.getLsbD i = false) :
    stepN 8 (r ^^^ b) = (r >>> 8) ^^^ stepN 8 ((r ^^^ b) &&& 0xFF#64) := by
  have split : r ^^^ b = ((r ^^^ b) &&& ~~~0xFF#64) ^^^ ((r ^^^ b) &&& 0xFF#64) := by
    ext i hi
    simp only [BitVec.getElem_xor, BitVec.getElem_and, BitVec.getElem_not]
    cases (r[i] ^^ b[i]) <;> simp
  conv => lhs; rw [split, stepN_xor]
  congr 1
  rw [stepN_shift]
  · ext i hi
    simp only [BitVec.getElem_ushiftRight, BitVec.getLsbD_and, BitVec.getLsbD_xor, BitVec.getLsbD_not]
    have : b.getLsbD (8 + i) = false := hb _ (by omega)
    have h2 : (0xFF#64).getLsbD (8 + i) = false := by
      have : (0xFF#64) = BitVec.ofNat 64 (2^8 - 1) := rfl
      rw [this, BitVec.getLsbD_ofNat, Nat.testBit_two_pow_sub_one]; simp
    simp [this, h2]
    intro hr
    exact Nat.lt_of_not_le (fun hge => by
      have := BitVec.getLsbD_of_ge r (8 + i) hge
      simp [this] at hr)
  · intro i hi
    simp only [BitVec.getLsbD_and, BitVec.getLsbD_not]
    have : (0xFF#64).getLsbD i = true := by
      have : i = 0 ∨ i = 1 ∨ i = 2 ∨ i = 3 ∨ i = 4 ∨ i = 5 ∨ i = 6 ∨ i = 7 := by omega
      rcases this with h|h|h|h|h|h|h|h <;> subst h <;> decide
    simp [this]
