/-! Python-int bitwise layer: two's-complement semantics on unbounded Int, built from Nat ops -/
namespace Py
/-- Python `~x` -/
def inv (x : Int) : Int := -x - 1
/-- Python `x ^ y` on arbitrary ints -/
def xor (x y : Int) : Int :=
  match x, y with
  | .ofNat a,   .ofNat b   => Int.ofNat (a ^^^ b)
  | .ofNat a,   .negSucc b => .negSucc (a ^^^ b)      -- x ^ ~b = ~(x ^ b)
  | .negSucc a, .ofNat b   => .negSucc (a ^^^ b)
  | .negSucc a, .negSucc b => Int.ofNat (a ^^^ b)
/-- Python `x & y` -/
def and (x y : Int) : Int :=
  match x, y with
  | .ofNat a,   .ofNat b   => Int.ofNat (a &&& b)
  | .ofNat a,   .negSucc b => Int.ofNat (a &&& (a ^^^ (a &&& b)))  -- a & ~b = a ^ (a & b)
  | .negSucc a, .ofNat b   => Int.ofNat (b &&& (b ^^^ (a &&& b)))
  | .negSucc a, .negSucc b => .negSucc (a ||| b)
/-- Python `x >> k` (floor) and `x << k` -/
def shr (x : Int) (k : Nat) : Int := x >>> k
def shl (x : Int) (k : Nat) : Int := x * 2 ^ k
end Py

#eval Py.xor (Py.shl (-3) 1) (Py.shr (-3) 63)   -- 5
#eval Py.xor (Py.shl 3 1) (Py.shr 3 63)         -- 6
#eval Py.and (-8) 255                            -- 248
#eval Py.and 300 (-(128))                        -- 256

def zigzagPy (n : Int) : Int := Py.xor (Py.shl n 1) (Py.shr n 63)
def zigzagSpec (n : Int) : Int := if n ≥ 0 then 2 * n else -2 * n - 1

theorem shr63_nonneg (n : Int) (h0 : 0 ≤ n) (h : n < 2^63) : Py.shr n 63 = 0 := by
  unfold Py.shr
  rw [Int.shiftRight_eq_div_pow]
  have e : ((2 ^ 63 : Nat) : Int) = 9223372036854775808 := by decide
  have e2 : (2:Int)^63 = 9223372036854775808 := by decide
  rw [e]; rw [e2] at h
  omega

theorem shr63_neg (n : Int) (h0 : n < 0) (h : -(2^63) ≤ n) : Py.shr n 63 = -1 := by
  unfold Py.shr
  rw [Int.shiftRight_eq_div_pow]
  have e : ((2 ^ 63 : Nat) : Int) = 9223372036854775808 := by decide
  have e2 : (2:Int)^63 = 9223372036854775808 := by decide
  rw [e]; rw [e2] at h
  omega

theorem xor_zero_right (x : Int) : Py.xor x 0 = x := by
  cases x <;> simp [Py.xor]

theorem xor_neg_one (x : Int) : Py.xor x (-1) = -x - 1 := by
  cases x with
  | ofNat a =>
    show Py.xor (Int.ofNat a) (Int.negSucc 0) = _
    simp only [Py.xor, Nat.xor_zero]
    simp [Int.negSucc_eq]; omega
  | negSucc a =>
    show Py.xor (Int.negSucc a) (Int.negSucc 0) = _
    simp only [Py.xor, Nat.xor_zero]
    simp [Int.negSucc_eq]

theorem zigzag_eq (n : Int) (hlo : -(2^63) ≤ n) (hhi : n < 2^63) : zigzagPy n = zigzagSpec n := by
  unfold zigzagPy zigzagSpec Py.shl
  by_cases h : 0 ≤ n
  · rw [shr63_nonneg n h hhi, xor_zero_right]; simp [h]; omega
  · have h' : n < 0 := by omega
    rw [shr63_neg n h' hlo, xor_neg_one]; simp [h]; omega
