/-! Experiment: extension lemma and prefix-freeness (C03 truncation clause, C06 schemaless clause).
    Decoder of block_partitions_accept.lean (arrays of ints / nested arrays, any block form). -/
inductive Sch where
  | int
  | arr (items : Sch)
deriving Repr, Inhabited
inductive Val where
  | int (n : Int)
  | list (xs : List Val)
deriving Repr, Inhabited

def decI : List Int → Option (Int × List Int)
  | [] => none
  | b :: r => some (b, r)
theorem decI_ext {p q : List Int} {b : Int} {r : List Int} (h : decI p = some (b, r)) :
    decI (p ++ q) = some (b, r ++ q) := by
  cases p with
  | nil => simp [decI] at h
  | cons x xs => simp only [decI, Option.some.injEq, Prod.mk.injEq] at h; obtain ⟨rfl, rfl⟩ := h; rfl

mutual
def dec : Nat → Sch → List Int → Option (Val × List Int)
  | 0, _, _ => none
  | _+1, .int, bs => do let (n, r) ← decI bs; some (.int n, r)
  | f+1, .arr s, bs => do
      let (c, r) ← decI bs
      let (xs, r') ← decBlocks f s c r
      some (.list xs, r')
def decBlocks : Nat → Sch → Int → List Int → Option (List Val × List Int)
  | 0, _, _, _ => none
  | f+1, s, c, bs =>
    if c = 0 then some ([], bs)
    else if c < 0 then do
      let (_, r) ← decI bs
      let (xs, r') ← decItems f s (-c).toNat r
      let (c', r'') ← decI r'
      let (ys, r''') ← decBlocks f s c' r''
      some (xs ++ ys, r''')
    else do
      let (xs, r') ← decItems f s c.toNat bs
      let (c', r'') ← decI r'
      let (ys, r''') ← decBlocks f s c' r''
      some (xs ++ ys, r''')
def decItems : Nat → Sch → Nat → List Int → Option (List Val × List Int)
  | 0, _, _, _ => none
  | _+1, _, 0, bs => some ([], bs)
  | f+1, s, k+1, bs => do
      let (x, r) ← dec f s bs
      let (xs, r') ← decItems f s k r
      some (x :: xs, r')
end

/-- reads are left-to-right and never look past what they consume -/
theorem ext (f : Nat) :
    (∀ s p q v r, dec f s p = some (v, r) → dec f s (p ++ q) = some (v, r ++ q)) ∧
    (∀ s c p q v r, decBlocks f s c p = some (v, r) → decBlocks f s c (p ++ q) = some (v, r ++ q)) ∧
    (∀ s k p q v r, decItems f s k p = some (v, r) → decItems f s k (p ++ q) = some (v, r ++ q)) := by
  induction f with
  | zero => simp [dec, decBlocks, decItems]
  | succ f ih =>
    obtain ⟨ih1, ih2, ih3⟩ := ih
    refine ⟨?_, ?_, ?_⟩
    · intro s p q v r h
      cases s with
      | int =>
        simp only [dec, Option.bind_eq_bind, Option.bind_eq_some_iff, Option.some.injEq, Prod.mk.injEq] at h ⊢
        obtain ⟨⟨n, r1⟩, h1, rfl, rfl⟩ := h
        exact ⟨(n, r1 ++ q), decI_ext h1, rfl, rfl⟩
      | arr s =>
        simp only [dec, Option.bind_eq_bind, Option.bind_eq_some_iff, Option.some.injEq, Prod.mk.injEq] at h ⊢
        obtain ⟨⟨c, r1⟩, h1, ⟨xs, r2⟩, h2, rfl, rfl⟩ := h
        exact ⟨(c, r1 ++ q), decI_ext h1, (xs, r2 ++ q), ih2 _ _ _ _ _ _ h2, rfl, rfl⟩
    · intro s c p q v r h
      simp only [decBlocks] at h ⊢
      split at h
      · simp only [Option.some.injEq, Prod.mk.injEq] at h; obtain ⟨rfl, rfl⟩ := h
        rename_i hc; simp [hc]
      · rename_i hc
        split at h
        · rename_i hneg
          simp only [Option.bind_eq_bind, Option.bind_eq_some_iff, Option.some.injEq, Prod.mk.injEq] at h
          obtain ⟨⟨sz, r1⟩, h1, ⟨xs, r2⟩, h2, ⟨c', r3⟩, h3, ⟨ys, r4⟩, h4, rfl, rfl⟩ := h
          simp only [hc, hneg, ↓reduceIte, Option.bind_eq_bind, Option.bind_eq_some_iff, Option.some.injEq, Prod.mk.injEq]
          exact ⟨(sz, r1 ++ q), decI_ext h1, (xs, r2 ++ q), ih3 _ _ _ _ _ _ h2, (c', r3 ++ q), decI_ext h3,
                 (ys, r4 ++ q), ih2 _ _ _ _ _ _ h4, rfl, rfl⟩
        · rename_i hneg
          simp only [Option.bind_eq_bind, Option.bind_eq_some_iff, Option.some.injEq, Prod.mk.injEq] at h
          obtain ⟨⟨xs, r2⟩, h2, ⟨c', r3⟩, h3, ⟨ys, r4⟩, h4, rfl, rfl⟩ := h
          simp only [hc, hneg, ↓reduceIte, Option.bind_eq_bind, Option.bind_eq_some_iff, Option.some.injEq, Prod.mk.injEq]
          exact ⟨(xs, r2 ++ q), ih3 _ _ _ _ _ _ h2, (c', r3 ++ q), decI_ext h3,
                 (ys, r4 ++ q), ih2 _ _ _ _ _ _ h4, rfl, rfl⟩
    · intro s k p q v r h
      cases k with
      | zero => simp only [decItems, Option.some.injEq, Prod.mk.injEq] at h ⊢; obtain ⟨rfl, rfl⟩ := h; exact ⟨rfl, rfl⟩
      | succ k =>
        simp only [decItems, Option.bind_eq_bind, Option.bind_eq_some_iff, Option.some.injEq, Prod.mk.injEq] at h ⊢
        obtain ⟨⟨x, r1⟩, h1, ⟨xs, r2⟩, h2, rfl, rfl⟩ := h
        exact ⟨(x, r1 ++ q), ih1 _ _ _ _ _ h1, (xs, r2 ++ q), ih3 _ _ _ _ _ _ h2, rfl, rfl⟩

/-- prefix-freeness: if the full encoding `p ++ q` decodes consuming everything, the proper prefix `p`
    cannot decode successfully (at any fuel ≤ the one used; with monotonicity, at any fuel). -/
theorem prefix_never_ok (f : Nat) (s : Sch) (p q : List Int) (v : Val) (hq : q ≠ [])
    (hfull : dec f s (p ++ q) = some (v, [])) : ∀ v' r', dec f s p ≠ some (v', r') := by
  intro v' r' hp
  have := (ext f).1 s p q v' r' hp
  rw [hfull] at this
  simp only [Option.some.injEq, Prod.mk.injEq] at this
  obtain ⟨_, h2⟩ := this
  have : q = [] := by
    have := congrArg List.length h2
    simp at this
    exact List.eq_nil_of_length_eq_zero (by omega)
  exact hq this
