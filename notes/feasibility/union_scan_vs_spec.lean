/-! Experiment: write_union's no-hint scan vs a declarative spec (C09) -/
inductive Kind | record | float | double | other deriving DecidableEq, Repr
structure Br where
  kind : Kind
  conf : Bool      -- _validate(datum, candidate) result
  shared : Nat     -- number of field names shared with the datum (records only)
deriving Repr

structure St where
  best : Option Nat := none
  most : Option Nat := none      -- most_fields (-1 = none)
  cbf : Bool := false            -- could_be_float
  done : Bool := false           -- after `break`
deriving Repr, DecidableEq

def gt (n : Nat) : Option Nat → Bool
  | none => true
  | some m => n > m

/-- one loop iteration of write_union (fastavro/_write_py.py:178-221) -/
def stepU (s : St) (i : Nat) (c : Br) : St :=
  if s.done then s
  else if s.cbf then
    if c.kind = .double then { s with best := some i, done := true } else s
  else if c.conf then
    match c.kind with
    | .record => if gt c.shared s.most then { s with best := some i, most := some c.shared } else s
    | .float => { s with best := some i, cbf := true }
    | _ => { s with best := some i, done := true }
  else s

def scan (s : St) (i : Nat) : List Br → St
  | [] => s
  | c :: cs => scan (stepU s i c) (i+1) cs

def choose (bs : List Br) : Option Nat := (scan {} 0 bs).best

/-! declarative spec -/
def firstIdx (p : Br → Bool) (i : Nat) : List Br → Option Nat
  | [] => none
  | c :: cs => if p c then some i else firstIdx p (i+1) cs

/-- best conforming record: most shared fields, first on ties; `cur` = (index, shared) so far -/
def bestRecord (cur : Option (Nat × Nat)) (i : Nat) : List Br → Option (Nat × Nat)
  | [] => cur
  | c :: cs =>
    let cur' := if c.conf && c.kind == .record && gt c.shared (cur.map (·.2)) then some (i, c.shared) else cur
    bestRecord cur' (i+1) cs

def chooseSpecFrom (cur : Option (Nat × Nat)) (i : Nat) : List Br → Option Nat
  | [] => cur.map (·.1)
  | c :: cs =>
    if c.conf && c.kind != .record then
      if c.kind == .float then
        match firstIdx (fun d => d.kind == .double) (i+1) cs with
        | some k => some k
        | none => some i
      else some i
    else
      let cur' := if c.conf && c.kind == .record && gt c.shared (cur.map (·.2)) then some (i, c.shared) else cur
      chooseSpecFrom cur' (i+1) cs

def chooseSpec (bs : List Br) : Option Nat := chooseSpecFrom none 0 bs

#eval choose [⟨.record, true, 1⟩, ⟨.record, true, 2⟩, ⟨.float, true, 0⟩, ⟨.other, true, 0⟩, ⟨.double, false, 0⟩]
#eval chooseSpec [⟨.record, true, 1⟩, ⟨.record, true, 2⟩, ⟨.float, true, 0⟩, ⟨.other, true, 0⟩, ⟨.double, false, 0⟩]

theorem scan_done (s : St) (h : s.done = true) (i : Nat) (bs : List Br) : scan s i bs = s := by
  induction bs generalizing i with
  | nil => rfl
  | cons c cs ih => simp [scan, stepU, h, ih]

theorem scan_cbf (s : St) (hd : s.done = false) (hc : s.cbf = true) (i : Nat) (bs : List Br) :
    (scan s i bs).best =
      match firstIdx (fun d => d.kind == .double) i bs with
      | some k => some k
      | none => s.best := by
  induction bs generalizing i with
  | nil => simp [scan, firstIdx]
  | cons c cs ih =>
    simp only [scan, firstIdx]
    by_cases hk : c.kind = .double
    · have : stepU s i c = { s with best := some i, done := true } := by simp [stepU, hd, hc, hk]
      rw [this, scan_done _ rfl]; simp [hk]
    · have : stepU s i c = s := by simp [stepU, hd, hc, hk]
      rw [this, ih]; simp [hk]

theorem scan_spec (s : St) (hd : s.done = false) (hc : s.cbf = false) (i : Nat) (bs : List Br)
    (cur : Option (Nat × Nat)) (hb : s.best = cur.map (·.1)) (hm : s.most = cur.map (·.2)) :
    (scan s i bs).best = chooseSpecFrom cur i bs := by
  induction bs generalizing s i cur with
  | nil => simp [scan, chooseSpecFrom, hb]
  | cons c cs ih =>
    simp only [scan, chooseSpecFrom]
    by_cases hconf : c.conf = true
    · cases hk : c.kind with
      | record =>
        simp only [hconf, hk, Bool.true_and, bne_self_eq_false, Bool.false_eq_true, ↓reduceIte, beq_self_eq_true]
        by_cases hg : gt c.shared s.most = true
        · have : stepU s i c = { s with best := some i, most := some c.shared } := by
            simp [stepU, hd, hc, hconf, hk, hg]
          rw [this]; rw [hm] at hg; simp only [hg, ↓reduceIte]
          exact ih { s with best := some i, most := some c.shared } hd hc _ (some (i, c.shared)) rfl rfl
        · have : stepU s i c = s := by simp [stepU, hd, hc, hconf, hk, hg]
          rw [this]; rw [hm] at hg; simp only [hg, Bool.false_eq_true, ↓reduceIte]
          exact ih _ hd hc _ _ hb hm
      | float =>
        have : stepU s i c = { s with best := some i, cbf := true } := by simp [stepU, hd, hc, hconf, hk]
        rw [this, scan_cbf _ (by simpa using hd) rfl]
        simp [hconf, hk]
      | double =>
        have : stepU s i c = { s with best := some i, done := true } := by simp [stepU, hd, hc, hconf, hk]
        rw [this, scan_done _ rfl]; simp [hconf, hk]
      | other =>
        have : stepU s i c = { s with best := some i, done := true } := by simp [stepU, hd, hc, hconf, hk]
        rw [this, scan_done _ rfl]; simp [hconf, hk]
    · have : stepU s i c = s := by simp [stepU, hd, hc, hconf]
      rw [this]
      simp only [hconf, Bool.false_and, Bool.false_eq_true, ↓reduceIte]
      exact ih _ hd hc _ _ hb hm

theorem choose_eq_spec (bs : List Br) : choose bs = chooseSpec bs :=
  scan_spec {} rfl rfl 0 bs none rfl rfl
