/-! Experiment: container writer state machine + reader (C04/C05/C07 shape).
    Abstract record codec; its two properties are hypotheses (they are theorems of C01/C03). -/
section
variable {Rec : Type}
variable (encR : Rec → List Nat) (decR : List Nat → Option (Rec × List Nat))
variable (S1 S2 : Nat)

def decMany : Nat → List Nat → Option (List Rec × List Nat)
  | 0, bs => some ([], bs)
  | n+1, bs => do
      let (r, rest) ← decR bs
      let (rs, rest') ← decMany n rest
      some (r :: rs, rest')

inductive End | eof | err deriving DecidableEq, Repr

/-- reader over the block area; mirrors _iter_avro_records: count, length-checked payload, records, sync -/
def readBlocks : Nat → List Nat → List Rec × End
  | 0, _ => ([], .err)
  | _+1, [] => ([], .eof)
  | _+1, [_] => ([], .err)
  | f+1, c :: len :: rest =>
      if rest.length < len then ([], .err) else
      match decMany decR c (rest.take len) with
      | none => ([], .err)
      | some (rs, _) =>
        match rest.drop len with
        | a :: b :: rest' =>
            if a = S1 ∧ b = S2 then
              let r := readBlocks f rest'
              (rs ++ r.1, r.2)
            else (rs, .err)
        | _ => (rs, .err)

structure Blk (Rec : Type) where
  count : Nat
  payload : List Nat
  recs : List Rec

def Blk.bytes (S1 S2 : Nat) (b : Blk Rec) : List Nat := b.count :: b.payload.length :: b.payload ++ [S1, S2]
def flat (S1 S2 : Nat) (bs : List (Blk Rec)) : List Nat := bs.flatMap (Blk.bytes S1 S2)
def Blk.ok (decR : List Nat → Option (Rec × List Nat)) (b : Blk Rec) : Prop :=
  decMany decR b.count b.payload = some (b.recs, [])

theorem read_flat (bs : List (Blk Rec)) (h : ∀ b ∈ bs, Blk.ok decR b) (f : Nat) (hf : bs.length < f) :
    readBlocks decR S1 S2 f (flat S1 S2 bs) = (bs.flatMap (·.recs), .eof) := by
  induction bs generalizing f with
  | nil =>
    cases f with
    | zero => omega
    | succ f => simp [flat, readBlocks]
  | cons b bs ih =>
    cases f with
    | zero => omega
    | succ f =>
      have hb : Blk.ok decR b := h b (by simp)
      simp only [flat, List.flatMap_cons, Blk.bytes, List.cons_append, readBlocks]
      have hlen : ¬ ((b.payload ++ [S1, S2] ++ List.flatMap (Blk.bytes S1 S2) bs).length < b.payload.length) := by
        simp
      simp only [List.append_assoc] at hlen ⊢
      rw [if_neg hlen]
      have htake : (b.payload ++ ([S1, S2] ++ List.flatMap (Blk.bytes S1 S2) bs)).take b.payload.length = b.payload := by
        simp
      have hdrop : (b.payload ++ ([S1, S2] ++ List.flatMap (Blk.bytes S1 S2) bs)).drop b.payload.length
          = S1 :: S2 :: List.flatMap (Blk.bytes S1 S2) bs := by
        simp
      rw [htake, hdrop]
      unfold Blk.ok at hb
      rw [hb]
      simp only [and_self, ↓reduceIte]
      have := ih (fun b' hb' => h b' (by simp [hb'])) f (by simp at hf; omega)
      unfold flat at this
      rw [this]

/-! writer -/
structure W (Rec : Type) where
  blocks : List (Blk Rec)   -- ghost view of `out`
  pending : List Nat
  count : Nat
  pend : List Rec            -- ghost: records sitting in `pending`
  submitted : List Rec       -- ghost

def W.out (S1 S2 : Nat) (w : W Rec) : List Nat := flat S1 S2 w.blocks

def dump (w : W Rec) : W Rec :=
  { w with blocks := w.blocks ++ [⟨w.count, w.pending, w.pend⟩], pending := [], count := 0, pend := [] }

inductive Op (Rec : Type) | write (r : Rec) | flush | writeBad

def addRec (w : W Rec) (r : Rec) : W Rec :=
  { w with pending := w.pending ++ encR r, count := w.count + 1, pend := w.pend ++ [r], submitted := w.submitted ++ [r] }

def step (interval : Nat) (w : W Rec) : Op Rec → W Rec
  | .write r =>
      let w' := addRec encR w r
      if w'.pending.length ≥ interval then dump w' else w'
  | .flush => if w.pending ≠ [] ∨ w.count > 0 then dump w else w
  | .writeBad => w          -- repaired behaviour (buffer truncated back on error)

variable (hrt : ∀ r rest, decR (encR r ++ rest) = some (r, rest))

def WInv (w : W Rec) : Prop :=
  (∀ b ∈ w.blocks, Blk.ok decR b) ∧
  decMany decR w.count w.pending = some (w.pend, []) ∧
  w.blocks.flatMap (·.recs) ++ w.pend = w.submitted

include hrt in
theorem decMany_snoc (n : Nat) (bs : List Nat) (rs : List Rec) (r : Rec)
    (h : decMany decR n bs = some (rs, []))
    (hext : ∀ p q r' rest, decR p = some (r', rest) → decR (p ++ q) = some (r', rest ++ q)) :
    decMany decR (n+1) (bs ++ encR r) = some (rs ++ [r], []) := by
  induction n generalizing bs rs with
  | zero =>
    simp only [decMany, Option.some.injEq, Prod.mk.injEq] at h
    obtain ⟨rfl, rfl⟩ := h
    have := hrt r []
    simp only [List.append_nil] at this
    simp [decMany, this]
  | succ n ih =>
    simp only [decMany, Option.bind_eq_bind, Option.bind_eq_some_iff, Option.some.injEq, Prod.mk.injEq] at h
    obtain ⟨⟨r0, rest0⟩, h0, ⟨rs', rest'⟩, h1, rfl, hnil⟩ := h
    simp only at hnil; subst hnil
    have e0 := hext _ (encR r) _ _ h0
    have e1 := ih rest0 rs' h1
    rw [decMany, e0]
    simp only [Option.bind_eq_bind, Option.bind_some, e1]
    simp

include hrt in
theorem inv_step (interval : Nat) (w : W Rec) (op : Op Rec) (h : WInv decR w)
    (hext : ∀ p q r' rest, decR p = some (r', rest) → decR (p ++ q) = some (r', rest ++ q)) :
    WInv decR (step encR interval w op) := by
  obtain ⟨hb, hp, hs⟩ := h
  have dump_inv : ∀ w : W Rec, WInv decR w → WInv decR (dump w) := by
    intro w ⟨hb, hp, hs⟩
    refine ⟨?_, by simp [dump, decMany], ?_⟩
    · intro b hbm
      simp only [dump, List.mem_append, List.mem_singleton] at hbm
      rcases hbm with hbm | rfl
      · exact hb b hbm
      · exact hp
    · simp [dump, ← hs]
  cases op with
  | write r =>
    have hw : WInv decR (addRec encR w r) :=
      ⟨hb, decMany_snoc encR decR hrt _ _ _ _ hp hext, by simp [addRec, ← hs]⟩
    simp only [step]
    split
    · exact dump_inv _ hw
    · exact hw
  | flush =>
    simp only [step]
    split
    · exact dump_inv _ ⟨hb, hp, hs⟩
    · exact ⟨hb, hp, hs⟩
  | writeBad => exact ⟨hb, hp, hs⟩

/-- after a flush the stream reads back as exactly the submitted records -/
theorem flush_reads_back (interval : Nat) (w : W Rec) (h : WInv decR w) :
    let w' := step encR interval w .flush
    ∀ f, w'.blocks.length < f → readBlocks decR S1 S2 f (w'.out S1 S2) = (w'.submitted, .eof) := by
  intro w' f hf
  have hinv : WInv decR w' := by
    obtain ⟨hb, hp, hs⟩ := h
    show WInv decR (step encR interval w .flush)
    simp only [step]
    split
    · refine ⟨?_, by simp [dump, decMany], by simp [dump, ← hs]⟩
      intro b hbm
      simp only [dump, List.mem_append, List.mem_singleton] at hbm
      rcases hbm with hbm | rfl
      · exact hb b hbm
      · exact hp
    · exact ⟨hb, hp, hs⟩
  -- after flush nothing is pending
  have hpend : w'.pend = [] := by
    show (step encR interval w .flush).pend = []
    simp only [step]
    split
    · simp [dump]
    · rename_i hc
      have hc' : w.pending = [] ∧ w.count = 0 := by
        constructor
        · exact Classical.byContradiction fun hne => hc (Or.inl hne)
        · exact Nat.eq_zero_of_not_pos fun hpos => hc (Or.inr hpos)
      have := h.2.1
      rw [hc'.1, hc'.2] at this
      simp [decMany] at this
      exact this
  obtain ⟨hb, _, hs⟩ := hinv
  rw [W.out, read_flat decR S1 S2 _ hb f hf, ← hs, hpend]
  simp
end
