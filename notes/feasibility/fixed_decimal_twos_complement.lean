/-! Experiment: prepare_fixed_decimal's negative branch (fastavro/_logical_writers_py.py:149)
    value level: with b = bits_req = bit_length(u)+1 and S = 8*size,
      mask = (2^S - 1) xor (2^b - 1);  x = (2^b - u) ||| mask;  stored = x mod 2^S
    claim (b ≤ S, 0 < u < 2^(b-1)):  stored = 2^S - u   (two's complement of -u)
    counterexample u = 0 (negative zero): stored = 2^S - 2   (i.e. -2) -/

theorem xor_low_mask (S b : Nat) (h : b ≤ S) : (2^S - 1) ^^^ (2^b - 1) = 2^b * (2^(S-b) - 1) := by
  apply Nat.eq_of_testBit_eq
  intro i
  rw [Nat.testBit_xor, Nat.testBit_two_pow_sub_one, Nat.testBit_two_pow_sub_one, Nat.testBit_two_pow_mul,
      Nat.testBit_two_pow_sub_one]
  by_cases h1 : i < b
  · have : i < S := by omega
    simp [h1, this]; omega
  · have h1' : b ≤ i := by omega
    by_cases h2 : i < S
    · have : i - b < S - b := by omega
      simp [h1, h1', h2, this]
    · have : ¬ (i - b < S - b) := by omega
      simp [h1, h1', h2, this]

theorem fixed_neg_value (S b u : Nat) (hb : b ≤ S) (hu0 : 0 < u) (hu : u < 2^b) :
    ((2^b - u) ||| ((2^S - 1) ^^^ (2^b - 1))) = 2^S - u := by
  rw [xor_low_mask S b hb, Nat.or_comm, ← Nat.two_pow_add_eq_or_of_lt (by omega : 2^b - u < 2^b)]
  have hpow : 2^S = 2^b * 2^(S-b) := by rw [← Nat.pow_add]; congr 1; omega
  have hpos : 0 < 2^(S-b) := Nat.two_pow_pos _
  rw [hpow, Nat.mul_sub, Nat.mul_one]
  have : 2^b ≤ 2^b * 2^(S-b) := Nat.le_mul_of_pos_right _ hpos
  omega

-- the defect: negative zero.  u = 0, bit_length 0, b = 1; S = 16 (fixed of size 2)
example : (((2^1 - 0) ||| ((2^16 - 1) ^^^ (2^1 - 1))) % 2^16 : Nat) = 2^16 - 2 := by decide
