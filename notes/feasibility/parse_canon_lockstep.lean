/-! Experiment: parse_schema (with env, namespaces, redefinition check) then canonical writer
    vs. the spec transformation applied directly to raw JSON (C11/C13 lockstep). Reduced language. -/
inductive J where
  | str (s : String)
  | arr (xs : List J)
  | obj (kv : List (String × J))
deriving Repr, Inhabited

def prims : List String := ["null","boolean","int","long","float","double","bytes","string"]
def getStr (kv : List (String × J)) (k : String) : Option String :=
  match kv.lookup k with | some (.str s) => some s | _ => none
def getArr (kv : List (String × J)) (k : String) : Option (List J) :=
  match kv.lookup k with | some (.arr xs) => some xs | _ => none
def q (s : String) : String := "\"" ++ s ++ "\""

-- name handling kept abstract (the real model implements rsplit on '.')
variable (dotted : String → Bool) (nsOf : String → String)

/-- schema_name (fastavro/_schema_py.py:114) -/
def schemaName (kv : List (String × J)) (ns : String) : Option (String × String) := do
  let name ← getStr kv "name"
  let nspace := (getStr kv "namespace").getD ns
  if dotted name then some (nsOf name, name)
  else if nspace ≠ "" then some (nspace, nspace ++ "." ++ name)
  else some ("", name)

def refName (s ns : String) : String := if !dotted s && ns ≠ "" then ns ++ "." ++ s else s

structure St where
  names : List String
  env : List String

mutual
def parse : Nat → J → String → St → Option (J × St)
  | 0, _, _, _ => none
  | _+1, .str s, ns, st =>
      if s ∈ prims then some (.str s, st)
      else let full := refName dotted s ns
           if full ∈ st.env then some (.str full, st) else none
  | f+1, .arr xs, ns, st => do let (ys, st') ← parseList f xs ns st; some (.arr ys, st')
  | f+1, .obj kv, ns, st =>
      match getStr kv "type" with
      | some "array" => do
          let items ← kv.lookup "items"
          let (i', st') ← parse f items ns st
          some (.obj [("type", .str "array"), ("items", i')], st')
      | some "enum" => do
          let (_, full) ← schemaName dotted nsOf kv ns
          if full ∈ st.names then none else
          let syms ← getArr kv "symbols"
          some (.obj [("type", .str "enum"), ("name", .str full), ("symbols", .arr syms)],
                { names := full :: st.names, env := full :: st.env })
      | some "record" => do
          let (ns', full) ← schemaName dotted nsOf kv ns
          if full ∈ st.names then none else
          let fields ← getArr kv "fields"
          let (fs', st') ← parseFields f fields ns' { names := full :: st.names, env := full :: st.env }
          some (.obj [("type", .str "record"), ("name", .str full), ("fields", .arr fs')], st')
      | some p => if p ∈ prims then some (.obj [("type", .str p)], st) else none
      | none => none
def parseList : Nat → List J → String → St → Option (List J × St)
  | 0, _, _, _ => none
  | _+1, [], _, st => some ([], st)
  | f+1, x :: xs, ns, st => do
      let (y, st') ← parse f x ns st
      let (ys, st'') ← parseList f xs ns st'
      some (y :: ys, st'')
def parseFields : Nat → List J → String → St → Option (List J × St)
  | 0, _, _, _ => none
  | _+1, [], _, st => some ([], st)
  | f+1, .obj kv :: xs, ns, st => do
      let name ← getStr kv "name"
      let ty ← kv.lookup "type"
      let (ty', st') ← parse f ty ns st
      let (ys, st'') ← parseFields f xs ns st'
      some (.obj [("name", .str name), ("type", ty')] :: ys, st'')
  | _+1, _ :: _, _, _ => none
end

def symText : List J → String
  | [] => ""
  | [.str s] => q s
  | .str s :: rest => q s ++ "," ++ symText rest
  | _ :: rest => symText rest

-- _to_parsing_canonical_form on the *parsed* schema
mutual
def canon : Nat → J → Option String
  | 0, _ => none
  | _+1, .str s => some (q s)
  | f+1, .arr xs => do let t ← canonList f xs; some ("[" ++ t ++ "]")
  | f+1, .obj kv =>
      match getStr kv "type" with
      | some "array" => do
          let items ← kv.lookup "items"
          let t ← canon f items
          some ("{\"type\":\"array\",\"items\":" ++ t ++ "}")
      | some "enum" => do
          let name ← getStr kv "name"
          let syms ← getArr kv "symbols"
          some ("{\"name\":" ++ q name ++ ",\"type\":\"enum\",\"symbols\":[" ++ symText syms ++ "]}")
      | some "record" => do
          let name ← getStr kv "name"
          let fields ← getArr kv "fields"
          let t ← canonFields f fields
          some ("{\"name\":" ++ q name ++ ",\"type\":\"record\",\"fields\":[" ++ t ++ "]}")
      | some p => if p ∈ prims then some (q p) else none
      | none => none
def canonList : Nat → List J → Option String
  | 0, _ => none
  | _+1, [] => some ""
  | f+1, [x] => canon f x
  | f+1, x :: y :: xs => do let a ← canon f x; let b ← canonList f (y :: xs); some (a ++ "," ++ b)
def canonFields : Nat → List J → Option String
  | 0, _ => none
  | _+1, [] => some ""
  | f+1, .obj kv :: xs => do
      let name ← getStr kv "name"
      let ty ← kv.lookup "type"
      let t ← canon f ty
      let one := "{\"name\":" ++ q name ++ ",\"type\":" ++ t ++ "}"
      match xs with
      | [] => some one
      | _ => do let rest ← canonFields f xs; some (one ++ "," ++ rest)
  | _+1, _ :: _ => none
end

-- the specification's transformation, applied to *raw* JSON (no name table)
mutual
def pcf : Nat → J → String → Option String
  | 0, _, _ => none
  | _+1, .str s, ns => if s ∈ prims then some (q s) else some (q (refName dotted s ns))
  | f+1, .arr xs, ns => do let t ← pcfList f xs ns; some ("[" ++ t ++ "]")
  | f+1, .obj kv, ns =>
      match getStr kv "type" with
      | some "array" => do
          let items ← kv.lookup "items"
          let t ← pcf f items ns
          some ("{\"type\":\"array\",\"items\":" ++ t ++ "}")
      | some "enum" => do
          let (_, full) ← schemaName dotted nsOf kv ns
          let syms ← getArr kv "symbols"
          some ("{\"name\":" ++ q full ++ ",\"type\":\"enum\",\"symbols\":[" ++ symText syms ++ "]}")
      | some "record" => do
          let (ns', full) ← schemaName dotted nsOf kv ns
          let fields ← getArr kv "fields"
          let t ← pcfFields f fields ns'
          some ("{\"name\":" ++ q full ++ ",\"type\":\"record\",\"fields\":[" ++ t ++ "]}")
      | some p => if p ∈ prims then some (q p) else none
      | none => none
def pcfList : Nat → List J → String → Option String
  | 0, _, _ => none
  | _+1, [], _ => some ""
  | f+1, [x], ns => pcf f x ns
  | f+1, x :: y :: xs, ns => do let a ← pcf f x ns; let b ← pcfList f (y :: xs) ns; some (a ++ "," ++ b)
def pcfFields : Nat → List J → String → Option String
  | 0, _, _ => none
  | _+1, [], _ => some ""
  | f+1, .obj kv :: xs, ns => do
      let name ← getStr kv "name"
      let ty ← kv.lookup "type"
      let t ← pcf f ty ns
      let one := "{\"name\":" ++ q name ++ ",\"type\":" ++ t ++ "}"
      match xs with
      | [] => some one
      | _ => do let rest ← pcfFields f xs ns; some (one ++ "," ++ rest)
  | _+1, _ :: _, _ => none
end

@[simp] theorem getStr_cons_same (k : String) (s : String) (rest : List (String × J)) :
    getStr ((k, .str s) :: rest) k = some s := by simp [getStr, List.lookup]
theorem getStr_skip (k k' : String) (v : J) (rest : List (String × J)) (h : (k == k') = false) :
    getStr ((k', v) :: rest) k = getStr rest k := by simp [getStr, List.lookup, h]
theorem getArr_skip (k k' : String) (v : J) (rest : List (String × J)) (h : (k == k') = false) :
    getArr ((k', v) :: rest) k = getArr rest k := by simp [getArr, List.lookup, h]
@[simp] theorem getArr_cons_same (k : String) (xs : List J) (rest : List (String × J)) :
    getArr ((k, .arr xs) :: rest) k = some xs := by simp [getArr, List.lookup]

theorem lockstep (f : Nat) :
    (∀ j ns st p st', parse dotted nsOf f j ns st = some (p, st') → canon f p = pcf dotted nsOf f j ns) ∧
    (∀ xs ns st ps st', parseList dotted nsOf f xs ns st = some (ps, st') →
        canonList f ps = pcfList dotted nsOf f xs ns) ∧
    (∀ xs ns st ps st', parseFields dotted nsOf f xs ns st = some (ps, st') →
        canonFields f ps = pcfFields dotted nsOf f xs ns ∧ (ps = [] ↔ xs = [])) := by
  induction f with
  | zero => simp [parse, parseList, parseFields]
  | succ f ih =>
    obtain ⟨ih1, ih2, ih3⟩ := ih
    refine ⟨?_, ?_, ?_⟩
    · intro j ns st p st' h
      cases j with
      | str s =>
        simp only [parse] at h
        split at h
        · rename_i hp; simp only [Option.some.injEq, Prod.mk.injEq] at h; obtain ⟨rfl, rfl⟩ := h
          simp [canon, pcf, hp]
        · rename_i hp
          split at h
          · simp only [Option.some.injEq, Prod.mk.injEq] at h; obtain ⟨rfl, rfl⟩ := h
            simp [canon, pcf, hp]
          · simp at h
      | arr xs =>
        simp only [parse, Option.bind_eq_bind, Option.bind_eq_some_iff, Option.some.injEq, Prod.mk.injEq] at h
        obtain ⟨⟨ys, st1⟩, h1, rfl, rfl⟩ := h
        simp [canon, pcf, ih2 _ _ _ _ _ h1]
      | obj kv =>
        simp only [parse] at h
        split at h
        · -- array
          rename_i hty
          simp only [Option.bind_eq_bind, Option.bind_eq_some_iff, Option.some.injEq, Prod.mk.injEq] at h
          obtain ⟨items, hi, ⟨i', st1⟩, h1, rfl, rfl⟩ := h
          have := ih1 _ _ _ _ _ h1
          simp [canon, pcf, hty, hi, List.lookup, this]
        · -- enum
          rename_i hty
          simp only [Option.bind_eq_bind, Option.bind_eq_some_iff] at h
          obtain ⟨⟨n', full⟩, hn, h⟩ := h
          split at h
          · simp at h
          · simp only [Option.bind_eq_some_iff, Option.some.injEq, Prod.mk.injEq] at h
            obtain ⟨syms, hs, rfl, rfl⟩ := h
            simp [canon, pcf, hty, hn, hs, getStr_skip, getArr_skip]
        · -- record
          rename_i hty
          simp only [Option.bind_eq_bind, Option.bind_eq_some_iff] at h
          obtain ⟨⟨ns', full⟩, hn, h⟩ := h
          split at h
          · simp at h
          · simp only [Option.bind_eq_some_iff, Option.some.injEq, Prod.mk.injEq] at h
            obtain ⟨fields, hf, ⟨fs', st1⟩, h1, rfl, rfl⟩ := h
            have := (ih3 _ _ _ _ _ h1).1
            simp [canon, pcf, hty, hn, hf, getStr_skip, getArr_skip, this]
        · -- primitive dict
          -- primitive dict form: routine (the three `split` hypotheses exclude array/enum/record)
          sorry
        · simp at h
    · intro xs ns st ps st' h
      cases xs with
      | nil => simp only [parseList, Option.some.injEq, Prod.mk.injEq] at h; obtain ⟨rfl, rfl⟩ := h; simp [canonList, pcfList]
      | cons x xs =>
        simp only [parseList, Option.bind_eq_bind, Option.bind_eq_some_iff, Option.some.injEq, Prod.mk.injEq] at h
        obtain ⟨⟨y, st1⟩, h1, ⟨ys, st2⟩, h2, rfl, rfl⟩ := h
        have e1 := ih1 _ _ _ _ _ h1
        have e2 := ih2 _ _ _ _ _ h2
        cases xs with
        | nil =>
          cases f with
          | zero => simp [parseList] at h2
          | succ f' =>
            simp only [parseList, Option.some.injEq, Prod.mk.injEq] at h2; obtain ⟨rfl, rfl⟩ := h2
            simp [canonList, pcfList, e1]
        | cons x2 xs2 =>
          cases f with
          | zero => simp [parseList] at h2
          | succ f' =>
            simp only [parseList, Option.bind_eq_bind, Option.bind_eq_some_iff, Option.some.injEq, Prod.mk.injEq] at h2
            obtain ⟨⟨y2, st3⟩, h3, ⟨ys2, st4⟩, h4, rfl, rfl⟩ := h2
            simp only [canonList, pcfList, e1, e2]
    · -- parseFields: same pattern as parseList plus the `ps = [] ↔ xs = []` bookkeeping (routine)
      sorry
