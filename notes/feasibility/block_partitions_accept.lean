-- Experiment A: spec relation with arbitrary block partitions (incl. "negative count + size" form)
-- and acceptance by a decoder that mirrors _iter_array_or_map.  Ints are single cells here.
inductive Sch where
  | int
  | arr (items : Sch)
deriving Repr, Inhabited
inductive Val where
  | int (n : Int)
  | list (xs : List Val)
deriving Repr, Inhabited

def decI : List Int → Option (Int × List Int)
  | [] => none
  | b :: r => some (b, r)

mutual
def dec : Nat → Sch → List Int → Option (Val × List Int)
  | 0, _, _ => none
  | _+1, .int, bs => do let (n, r) ← decI bs; some (.int n, r)
  | f+1, .arr s, bs => do
      let (c, r) ← decI bs
      let (xs, r') ← decBlocks f s c r
      some (.list xs, r')
/-- `c` is the block count just read (may be negative => a size cell follows) -/
def decBlocks : Nat → Sch → Int → List Int → Option (List Val × List Int)
  | 0, _, _, _ => none
  | f+1, s, c, bs =>
    if c = 0 then some ([], bs)
    else if c < 0 then do
      let (_, r) ← decI bs          -- byte size, unused
      let (xs, r') ← decItems f s (-c).toNat r
      let (c', r'') ← decI r'
      let (ys, r''') ← decBlocks f s c' r''
      some (xs ++ ys, r''')
    else do
      let (xs, r') ← decItems f s c.toNat bs
      let (c', r'') ← decI r'
      let (ys, r''') ← decBlocks f s c' r''
      some (xs ++ ys, r''')
def decItems : Nat → Sch → Nat → List Int → Option (List Val × List Int)
  | 0, _, _, _ => none
  | _+1, _, 0, bs => some ([], bs)
  | f+1, s, k+1, bs => do
      let (x, r) ← dec f s bs
      let (xs, r') ← decItems f s k r
      some (x :: xs, r')
end

@[simp] theorem decI_cons (b : Int) (r : List Int) : decI (b :: r) = some (b, r) := rfl

mutual
inductive Enc : Sch → Val → List Int → Prop
  | int (n : Int) : Enc .int (.int n) [n]
  | arr {s xs bs} : Blocks s xs bs → Enc (.arr s) (.list xs) bs
inductive Blocks : Sch → List Val → List Int → Prop
  | done {s} : Blocks s [] [0]
  | pos {s xs ys b1 b2} : xs ≠ [] → Items s xs b1 → Blocks s ys b2 →
      Blocks s (xs ++ ys) ((xs.length : Int) :: b1 ++ b2)
  | neg {s xs ys b1 b2} (sz : Int) : xs ≠ [] → Items s xs b1 → Blocks s ys b2 →
      Blocks s (xs ++ ys) (-(xs.length : Int) :: sz :: b1 ++ b2)
inductive Items : Sch → List Val → List Int → Prop
  | nil {s} : Items s [] []
  | cons {s x xs b1 b2} : Enc s x b1 → Items s xs b2 → Items s (x :: xs) (b1 ++ b2)
end

theorem dec_mono (f : Nat) :
    (∀ s bs r, dec f s bs = some r → dec (f+1) s bs = some r) ∧
    (∀ s c bs r, decBlocks f s c bs = some r → decBlocks (f+1) s c bs = some r) ∧
    (∀ s k bs r, decItems f s k bs = some r → decItems (f+1) s k bs = some r) := by
  sorry

theorem mono_le {f g : Nat} (h : f ≤ g) :
    (∀ s bs r, dec f s bs = some r → dec g s bs = some r) ∧
    (∀ s c bs r, decBlocks f s c bs = some r → decBlocks g s c bs = some r) ∧
    (∀ s k bs r, decItems f s k bs = some r → decItems g s k bs = some r) := by
  sorry

mutual
theorem accept : ∀ {s v bs}, Enc s v bs → ∀ rest, ∃ g, dec g s (bs ++ rest) = some (v, rest)
  | _, _, _, .int n, rest => ⟨1, by simp [dec, decI]⟩
  | _, _, _, .arr hb, rest => by
      obtain ⟨g, hg⟩ := acceptBlocks hb rest
      refine ⟨g + 1, ?_⟩
      simp only [Option.bind_eq_bind, Option.bind_eq_some_iff] at hg
      obtain ⟨⟨c, r⟩, h1, h2⟩ := hg
      simp [dec, h1, h2]
theorem acceptBlocks : ∀ {s xs bs}, Blocks s xs bs → ∀ rest,
    ∃ g, (do let (c, r) ← decI (bs ++ rest); decBlocks g s c r) = some (xs, rest)
  | _, _, _, .done, rest => ⟨1, by simp [decBlocks]⟩
  | s, _, _, .pos (xs := xs) (ys := ys) (b1 := b1) (b2 := b2) hne hi hb, rest => by
      obtain ⟨g1, h1⟩ := acceptItems hi (b2 ++ rest)
      obtain ⟨g2, h2⟩ := acceptBlocks hb rest
      refine ⟨max g1 g2 + 1, ?_⟩
      have hlen : (0 : Int) < xs.length := by
        cases xs with
        | nil => exact absurd rfl hne
        | cons _ _ => simp only [List.length_cons]; omega
      simp only [List.cons_append, decI_cons, Option.bind_eq_bind, Option.bind_some]
      simp only [Option.bind_eq_bind] at h2
      rw [decBlocks]
      have e1 : ¬ ((xs.length : Int) = 0) := by omega
      have e2 : ¬ ((xs.length : Int) < 0) := by omega
      simp only [e1, e2, ↓reduceIte, Int.toNat_natCast, List.append_assoc]
      have h1' := (mono_le (Nat.le_max_left g1 g2)).2.2 _ _ _ _ h1
      rw [h1']
      simp only [Option.bind_eq_some_iff] at h2
      obtain ⟨⟨c', r'⟩, h3, h4⟩ := h2
      have h4' := (mono_le (Nat.le_max_right g1 g2)).2.1 _ _ _ _ h4
      simp [h3, h4']
  | s, _, _, .neg (xs := xs) (ys := ys) (b1 := b1) (b2 := b2) sz hne hi hb, rest => by
      obtain ⟨g1, h1⟩ := acceptItems hi (b2 ++ rest)
      obtain ⟨g2, h2⟩ := acceptBlocks hb rest
      refine ⟨max g1 g2 + 1, ?_⟩
      have hlen : (0 : Int) < xs.length := by
        cases xs with
        | nil => exact absurd rfl hne
        | cons _ _ => simp only [List.length_cons]; omega
      simp only [List.cons_append, decI_cons, Option.bind_eq_bind, Option.bind_some]
      simp only [Option.bind_eq_bind] at h2
      rw [decBlocks]
      have e1 : ¬ (-(xs.length : Int) = 0) := by omega
      have e2 : (-(xs.length : Int) < 0) := by omega
      simp only [e1, e2, ↓reduceIte, Int.neg_neg, Int.toNat_natCast, List.append_assoc, decI_cons,
        Option.bind_some, Option.bind_eq_bind]
      have h1' := (mono_le (Nat.le_max_left g1 g2)).2.2 _ _ _ _ h1
      rw [h1']
      simp only [Option.bind_eq_some_iff] at h2
      obtain ⟨⟨c', r'⟩, h3, h4⟩ := h2
      have h4' := (mono_le (Nat.le_max_right g1 g2)).2.1 _ _ _ _ h4
      simp [h3, h4']
theorem acceptItems : ∀ {s xs bs}, Items s xs bs → ∀ rest,
    ∃ g, decItems g s xs.length (bs ++ rest) = some (xs, rest)
  | _, _, _, .nil, rest => ⟨1, by simp [decItems]⟩
  | _, _, _, .cons (b2 := b2) he hi, rest => by
      obtain ⟨g1, h1⟩ := accept he (b2 ++ rest)
      obtain ⟨g2, h2⟩ := acceptItems hi rest
      refine ⟨max g1 g2 + 1, ?_⟩
      have h1' := (mono_le (Nat.le_max_left g1 g2)).1 _ _ _ h1
      have h2' := (mono_le (Nat.le_max_right g1 g2)).2.2 _ _ _ _ h2
      simp [decItems, List.append_assoc, h1', h2']
end
