def encVar (n : Nat) : List Nat :=
  if h : n < 128 then [n] else (n % 128 + 128) :: encVar (n / 128)
termination_by n
decreasing_by omega

def decVar (acc shift : Nat) : List Nat → Option (Nat × List Nat)
  | [] => none
  | b :: rest =>
    let acc' := acc ||| ((b &&& 0x7F) <<< shift)
    if b &&& 0x80 != 0 then decVar acc' (shift + 7) rest else some (acc', rest)

theorem and7F (b : Nat) : b &&& 0x7F = b % 128 := Nat.and_two_pow_sub_one_eq_mod b 7
theorem and80 : ∀ b, b < 256 → (b &&& 0x80 != 0) = decide (128 ≤ b) := by decide +kernel

theorem or_shift (acc x shift : Nat) (hacc : acc < 2 ^ shift) :
    acc ||| (x <<< shift) = acc + x * 2 ^ shift := by
  rw [Nat.shiftLeft_eq, Nat.or_comm, Nat.mul_comm, ← Nat.two_pow_add_eq_or_of_lt hacc]; omega

theorem dec_enc (n acc shift : Nat) (rest : List Nat) (hacc : acc < 2 ^ shift) :
    decVar acc shift (encVar n ++ rest) = some (acc + n * 2 ^ shift, rest) := by
  induction n using Nat.strongRecOn generalizing acc shift with
  | _ n ih =>
    unfold encVar
    split
    · rename_i h
      simp only [List.singleton_append, decVar, and7F]
      rw [and80 n (by omega), or_shift _ _ _ hacc]
      have : ¬ 128 ≤ n := by omega
      simp [this, Nat.mod_eq_of_lt h]
    · rename_i h
      simp only [List.cons_append, decVar, and7F]
      rw [and80 _ (by omega), or_shift _ _ _ hacc]
      have h1 : 128 ≤ n % 128 + 128 := by omega
      have e : (n % 128 + 128) % 128 = n % 128 := by omega
      simp only [h1, decide_true, ↓reduceIte, e]
      rw [ih (n / 128) (by omega)]
      · congr 2
        rw [Nat.pow_add]
        have := Nat.div_add_mod n 128
        generalize 2 ^ shift = p at *
        grind
      · rw [Nat.pow_add]
        have : n % 128 < 128 := Nat.mod_lt _ (by omega)
        generalize 2 ^ shift = p at *
        have : n % 128 * p + p ≤ 128 * p := by
          have := Nat.mul_le_mul_right p (show n % 128 + 1 ≤ 128 by omega)
          grind
        grind
