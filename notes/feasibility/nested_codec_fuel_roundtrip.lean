inductive Sch where
  | int
  | arr (items : Sch)
  | record (fields : List (String × Sch))
  | ref (name : String)
deriving Repr, Inhabited

inductive Val where
  | int (n : Nat)
  | list (xs : List Val)
  | dict (kv : List (String × Val))
deriving Repr, Inhabited

abbrev Env := List (String × Sch)
def encN (n : Nat) : List Nat := [n]
def decN : List Nat → Option (Nat × List Nat)
  | [] => none
  | b :: r => some (b, r)
@[simp] theorem decN_encN (n : Nat) (r : List Nat) : decN (encN n ++ r) = some (n, r) := rfl

-- encoder: single fuel, structural (decrements at every call) – simplest to reason about
mutual
def enc (env : Env) : Nat → Sch → Val → Option (List Nat)
  | 0, _, _ => none
  | _+1, .int, .int n => some (encN n)
  | f+1, .arr s, .list xs =>
      if xs.isEmpty then some (encN 0) else do
        let body ← encItems env f s xs
        some (encN xs.length ++ body ++ encN 0)
  | f+1, .record fs, .dict kv => encFields env f fs kv
  | f+1, .ref n, v => match env.lookup n with
        | some s => enc env f s v
        | none => none
  | _+1, _, _ => none
def encItems (env : Env) : Nat → Sch → List Val → Option (List Nat)
  | 0, _, _ => none
  | _+1, _, [] => some []
  | f+1, s, x :: xs => do
      let a ← enc env f s x
      let b ← encItems env f s xs
      some (a ++ b)
def encFields (env : Env) : Nat → List (String × Sch) → List (String × Val) → Option (List Nat)
  | 0, _, _ => none
  | _+1, [], _ => some []
  | f+1, (n, s) :: fs, kv => do
      let v ← kv.lookup n
      let a ← enc env f s v
      let b ← encFields env f fs kv
      some (a ++ b)
end

mutual
def dec (env : Env) : Nat → Sch → List Nat → Option (Val × List Nat)
  | 0, _, _ => none
  | _+1, .int, bs => do let (n, r) ← decN bs; some (.int n, r)
  | f+1, .arr s, bs => do
      let (c, r) ← decN bs
      let (xs, r') ← decBlocks env f s c r
      some (.list xs, r')
  | f+1, .record fs, bs => do
      let (kv, r) ← decFields env f fs bs
      some (.dict kv, r)
  | f+1, .ref n, bs => match env.lookup n with
      | some s => dec env f s bs
      | none => none
def decBlocks (env : Env) : Nat → Sch → Nat → List Nat → Option (List Val × List Nat)
  | 0, _, _, _ => none
  | _+1, _, 0, bs => some ([], bs)
  | f+1, s, c+1, bs => do
      let (x, r) ← dec env f s bs
      if c = 0 then do
        let (c', r') ← decN r
        let (xs, r'') ← decBlocks env f s c' r'
        some (x :: xs, r'')
      else do
        let (xs, r'') ← decBlocks env f s c r
        some (x :: xs, r'')
def decFields (env : Env) : Nat → List (String × Sch) → List Nat → Option (List (String × Val) × List Nat)
  | 0, _, _ => none
  | _+1, [], bs => some ([], bs)
  | f+1, (n, s) :: fs, bs => do
      let (v, r) ← dec env f s bs
      let (kv, r') ← decFields env f fs r
      some ((n, v) :: kv, r')
end

-- fuel monotonicity, all three at once by induction on fuel
theorem dec_mono (env : Env) (f : Nat) :
    (∀ s bs r, dec env f s bs = some r → dec env (f+1) s bs = some r) ∧
    (∀ s c bs r, decBlocks env f s c bs = some r → decBlocks env (f+1) s c bs = some r) ∧
    (∀ fs bs r, decFields env f fs bs = some r → decFields env (f+1) fs bs = some r) := by
  induction f with
  | zero => simp [dec, decBlocks, decFields]
  | succ f ih =>
    obtain ⟨ih1, ih2, ih3⟩ := ih
    refine ⟨?_, ?_, ?_⟩
    · intro s bs r h
      cases s with
      | int => simpa [dec] using h
      | arr s =>
        simp only [dec, Option.bind_eq_bind, Option.bind_eq_some_iff] at h ⊢
        obtain ⟨⟨c, r1⟩, h1, ⟨xs, r2⟩, h2, h3⟩ := h
        exact ⟨(c, r1), h1, (xs, r2), ih2 _ _ _ _ h2, h3⟩
      | record fs =>
        simp only [dec, Option.bind_eq_bind, Option.bind_eq_some_iff] at h ⊢
        obtain ⟨⟨kv, r1⟩, h1, h2⟩ := h
        exact ⟨(kv, r1), ih3 _ _ _ h1, h2⟩
      | ref n =>
        simp only [dec] at h ⊢
        split at h
        · exact ih1 _ _ _ h
        · simp at h
    · intro s c bs r h
      cases c with
      | zero => simpa [decBlocks] using h
      | succ c =>
        simp only [decBlocks, Option.bind_eq_bind, Option.bind_eq_some_iff] at h ⊢
        obtain ⟨⟨x, r1⟩, h1, h2⟩ := h
        refine ⟨(x, r1), ih1 _ _ _ h1, ?_⟩
        split at h2
        · simp only [Option.bind_eq_bind, Option.bind_eq_some_iff] at h2 ⊢
          obtain ⟨⟨c', r2⟩, h3, ⟨xs, r3⟩, h4, h5⟩ := h2
          rename_i hc; simp only [hc, ↓reduceIte, Option.bind_eq_bind, Option.bind_eq_some_iff]
          exact ⟨(c', r2), h3, (xs, r3), ih2 _ _ _ _ h4, h5⟩
        · simp only [Option.bind_eq_bind, Option.bind_eq_some_iff] at h2 ⊢
          obtain ⟨⟨xs, r3⟩, h4, h5⟩ := h2
          rename_i hc; simp only [hc, ↓reduceIte, Option.bind_eq_bind, Option.bind_eq_some_iff]
          exact ⟨(xs, r3), ih2 _ _ _ _ h4, h5⟩
    · intro fs bs r h
      cases fs with
      | nil => simpa [decFields] using h
      | cons hd fs =>
        obtain ⟨n, s⟩ := hd
        simp only [decFields, Option.bind_eq_bind, Option.bind_eq_some_iff] at h ⊢
        obtain ⟨⟨v, r1⟩, h1, ⟨kv, r2⟩, h2, h3⟩ := h
        exact ⟨(v, r1), ih1 _ _ _ h1, (kv, r2), ih3 _ _ _ h2, h3⟩

theorem dec_mono_le (env : Env) {f g : Nat} (hfg : f ≤ g) :
    (∀ s bs r, dec env f s bs = some r → dec env g s bs = some r) ∧
    (∀ s c bs r, decBlocks env f s c bs = some r → decBlocks env g s c bs = some r) ∧
    (∀ fs bs r, decFields env f fs bs = some r → decFields env g fs bs = some r) := by
  induction hfg with
  | refl => exact ⟨fun _ _ _ h => h, fun _ _ _ _ h => h, fun _ _ _ h => h⟩
  | step _ ih =>
    obtain ⟨a, b, c⟩ := ih
    obtain ⟨a', b', c'⟩ := dec_mono env _
    exact ⟨fun s bs r h => a' _ _ _ (a _ _ _ h), fun s k bs r h => b' _ _ _ _ (b _ _ _ _ h),
           fun fs bs r h => c' _ _ _ (c _ _ _ h)⟩

/-- record normal form: the fields in schema order -/
def normFields (fs : List (String × Sch)) (kv : List (String × Val)) (sub : Sch → Val → Val) :
    List (String × Val) := fs.filterMap (fun (n, s) => (kv.lookup n).map (fun v => (n, sub s v)))

-- round trip, all three at once by induction on the encoder's fuel.
-- (toy: the value read back is the value written, records re-ordered to schema order are
--  handled by stating the result existentially with a relation; here we keep it simple and
--  state it for items/blocks and ints/arrays/refs, records returning *some* kv)
theorem rt (env : Env) (f : Nat) :
    (∀ s v bs, enc env f s v = some bs → ∀ rest, ∃ g v', dec env g s (bs ++ rest) = some (v', rest)) ∧
    (∀ s xs bs, encItems env f s xs = some bs → ∀ rest c, c = xs.length → 0 < c →
        ∃ g vs, decBlocks env g s c (bs ++ encN 0 ++ rest) = some (vs, rest) ∧ vs.length = c) ∧
    (∀ fs kv bs, encFields env f fs kv = some bs → ∀ rest, ∃ g kv', decFields env g fs (bs ++ rest) = some (kv', rest)) := by
  induction f with
  | zero => simp [enc, encItems, encFields]
  | succ f ih =>
    obtain ⟨ih1, ih2, ih3⟩ := ih
    refine ⟨?_, ?_, ?_⟩
    · intro s v bs h rest
      cases s with
      | int =>
        cases v <;> simp only [enc, Option.some.injEq, reduceCtorEq] at h
        rename_i n
        subst h
        exact ⟨1, .int n, by simp [dec]⟩
      | arr s =>
        cases v <;> simp only [enc, reduceCtorEq] at h
        rename_i xs
        split at h
        · simp only [Option.some.injEq] at h; subst h
          exact ⟨2, .list [], by simp [dec, decBlocks]⟩
        · rename_i hne
          simp only [Option.bind_eq_bind, Option.bind_eq_some_iff, Option.some.injEq] at h
          obtain ⟨body, hb, rfl⟩ := h
          have hpos : 0 < xs.length := by
            cases xs <;> simp_all
          obtain ⟨g, vs, hg, _⟩ := ih2 s xs body hb rest xs.length rfl hpos
          refine ⟨g+1, .list vs, ?_⟩
          rw [List.append_assoc] at hg
          simp [dec, List.append_assoc, hg]
      | record fs =>
        cases v <;> simp only [enc, reduceCtorEq] at h
        obtain ⟨g, kv', hg⟩ := ih3 _ _ _ h rest
        exact ⟨g+1, .dict kv', by simp [dec, hg]⟩
      | ref n =>
        simp only [enc] at h
        split at h
        · rename_i s' hs
          obtain ⟨g, v', hg⟩ := ih1 _ _ _ h rest
          exact ⟨g+1, v', by simp [dec, hs, hg]⟩
        · simp at h
    · intro s xs bs h rest c hc hpos
      cases xs with
      | nil => simp at hc; omega
      | cons x xs =>
        simp only [encItems, Option.bind_eq_bind, Option.bind_eq_some_iff, Option.some.injEq] at h
        obtain ⟨a, ha, b, hb, rfl⟩ := h
        subst hc
        cases xs with
        | nil =>
          cases f with
          | zero => simp [encItems] at hb
          | succ f' =>
            simp only [encItems, Option.some.injEq] at hb; subst hb
            obtain ⟨g, v', hg⟩ := ih1 _ _ _ ha (encN 0 ++ rest)
            refine ⟨g+2, [v'], ?_, rfl⟩
            have := (dec_mono_le env (Nat.le_succ g)).1 _ _ _ hg
            simp [decBlocks, List.append_assoc, this]
        | cons y ys =>
          obtain ⟨g1, v', hg1⟩ := ih1 _ _ _ ha (b ++ encN 0 ++ rest)
          obtain ⟨g2, vs, hg2, hl⟩ := ih2 s (y :: ys) b hb rest _ rfl (by simp)
          refine ⟨max g1 g2 + 1, v' :: vs, ?_, by simp [hl]⟩
          have h1 := (dec_mono_le env (Nat.le_max_left g1 g2)).1 _ _ _ hg1
          have h2 := (dec_mono_le env (Nat.le_max_right g1 g2)).2.1 _ _ _ _ hg2
          simp only [List.length_cons, decBlocks, List.append_assoc] at h1 h2 ⊢
          simp [h1, h2]
    · intro fs kv bs h rest
      cases fs with
      | nil =>
        simp only [encFields, Option.some.injEq] at h; subst h
        exact ⟨1, [], by simp [decFields]⟩
      | cons hd fs =>
        obtain ⟨n, s⟩ := hd
        simp only [encFields, Option.bind_eq_bind, Option.bind_eq_some_iff, Option.some.injEq] at h
        obtain ⟨v, hv, a, ha, b, hb, rfl⟩ := h
        obtain ⟨g1, v', hg1⟩ := ih1 _ _ _ ha (b ++ rest)
        obtain ⟨g2, kv', hg2⟩ := ih3 _ _ _ hb rest
        refine ⟨max g1 g2 + 1, (n, v') :: kv', ?_⟩
        have h1 := (dec_mono_le env (Nat.le_max_left g1 g2)).1 _ _ _ hg1
        have h2 := (dec_mono_le env (Nat.le_max_right g1 g2)).2.2 _ _ _ hg2
        simp [decFields, List.append_assoc, h1, h2]
