import io, sys, threading, decimal, os, json, tempfile
import fastavro
from fastavro import schemaless_reader, schemaless_writer
import fastavro._logical_readers_py as lr
S5={"type":"bytes","logicalType":"decimal","precision":5,"scale":0}
S2={"type":"bytes","logicalType":"decimal","precision":2,"scale":0}
b5=io.BytesIO(); schemaless_writer(b5,S5,decimal.Decimal("12345")); b5=b5.getvalue()
b2=io.BytesIO(); schemaless_writer(b2,S2,decimal.Decimal("12")); b2=b2.getvalue()
seq=(schemaless_reader(io.BytesIO(b5),S5), schemaless_reader(io.BytesIO(b2),S2))
# forced schedule: pause thread A right after `decimal_context.prec = precision` (line 57), run B fully, resume A
pause=threading.Event(); resume=threading.Event(); res={}
code=lr.read_decimal.__code__
first=code.co_firstlineno
def tracerA(frame, event, arg):
    if frame.f_code is code:
        def local(frame, event, arg):
            if event=="line" and frame.f_lineno==first+8:  # the `return decimal_context.create_decimal` line
                pause.set(); resume.wait()
            return local
        return local
    return tracerA
def A():
    sys.settrace(tracerA)
    res["A"]=schemaless_reader(io.BytesIO(b5),S5)
    sys.settrace(None)
def B():
    pause.wait(); res["B"]=schemaless_reader(io.BytesIO(b2),S2); resume.set()
ta=threading.Thread(target=A); tb=threading.Thread(target=B); ta.start(); tb.start(); ta.join(); tb.join()
print("sequential", seq, "interleaved", (res["A"],res["B"]), "lines", first)
# C19
d=tempfile.mkdtemp()
files={"ns.A":{"type":"record","name":"A","namespace":"ns","fields":[{"name":"b","type":"B"},{"name":"c","type":"ns.C"},{"name":"e","type":{"type":"array","items":"other.E"}}]},
"ns.B":{"type":"record","name":"B","namespace":"ns","fields":[{"name":"d","type":"D"}]},
"ns.C":{"type":"record","name":"ns.C","fields":[{"name":"d","type":["null","D"]},{"name":"e","type":{"type":"map","values":"other.E"}}]},
"ns.D":{"type":"fixed","name":"D","namespace":"ns","size":2},
"other.E":{"type":"enum","name":"E","namespace":"other","symbols":["X"]}}
for k,v in files.items(): json.dump(v, open(os.path.join(d,k+".avsc"),"w"))
from fastavro.schema import load_schema, load_schema_ordered, to_parsing_canonical_form as cf
s=load_schema(os.path.join(d,"ns.A.avsc"))
print(cf(s))
try:
    s2=load_schema_ordered([os.path.join(d,x+".avsc") for x in ["ns.D","other.E","ns.B","ns.C","ns.A"]]); print(cf(s2)==cf(s))
except Exception as e: print("ordered EXC", type(e).__name__, e)
os.remove(os.path.join(d,"ns.D.avsc"))
try: load_schema(os.path.join(d,"ns.A.avsc"))
except Exception as e: print("missing EXC", type(e).__name__, e)
