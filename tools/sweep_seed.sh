#!/bin/bash
# tools/sweep_seed2.sh [ids...]: for each sub-agent change in ${SEEDBASE:-/tmp/seed2}: confirm it (suite unchanged, demo fails
# with / passes without), then apply it to /repo, run the property's quick check, undo it.
ids=${@:-C01 C02 C03 C04 C05 C06 C07 C08 C09 C10 C11 C12 C13 C14 C15 C16 C17 C18 C19 C20}
for id in $ids; do
  for k in 1 2; do
    [ -f ${SEEDBASE:-/tmp/seed2}/out-$id/patch$k.diff ] || { echo "$id-$k: no patch"; continue; }
    c=$(/verif/tools/confirm_seed.sh $id $k 2>&1 | tail -1)
    cd /repo && git diff --quiet || { echo "/repo dirty"; exit 3; }
    if git -C /repo apply ${SEEDBASE:-/tmp/seed2}/out-$id/patch$k.diff 2>/dev/null; then
      out=$(cd /verif && timeout 1200 ./check $id --tier quick 2>&1 | tail -4)
      git -C /repo checkout -- . ; git -C /repo clean -qfd fastavro
      echo "$c || check: $(echo "$out" | grep -E 'VIOLATION|MACHINERY' | head -1 | sed 's/replay=.*json//') :: $(echo "$out" | tail -1)"
    else
      echo "$c || patch does not apply to /repo HEAD"
    fi
  done
done
