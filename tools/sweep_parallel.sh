#!/bin/bash
# tools/sweep_parallel.sh [workers=5]: every seeded change against the check of its own property (quick tier), on N scratch copies of
# /verif and /repo (outside both; each check is pointed at its copy with VERIF_REPO), then the harmless patches (one worker per area).
# The copies are removed at the end.  /repo and /verif themselves are not touched, so they stay free to work on.
N=${1:-5}; S=${SCRATCH:-/tmp/psw}; mkdir -p $S
cp /verif/tools/sweep_seeded_parallel_part.sh $S/sweep_part.sh; cp /verif/tools/sweep_harmless_parallel_part.sh $S/harm_part.sh
ids=($(ls /verif/seeded | grep -E '^C[0-9]+-[0-9]+$' | sort))
for w in $(seq 1 $N); do rm -rf $S/verif$w $S/repo$w; cp -a /verif $S/verif$w; git clone -q /repo $S/repo$w; done
for w in $(seq 1 $N); do part=(); for ((i=w-1;i<${#ids[@]};i+=N)); do part+=(${ids[$i]}); done; (cd $S && ./sweep_part.sh $w "${part[@]}" > sweep$w.log 2>&1) & done
wait
cat $S/sweep*.log | sort -t- -k1,1 -k2,2n > $S/sweep_all.log
echo "seeded: $(grep -c 'VIOLATION property' $S/sweep_all.log) of ${#ids[@]} reported; not reported:"; grep -v 'VIOLATION property' $S/sweep_all.log
for n in 1 2 3 4 5; do w=$((5+n)); rm -rf $S/verif$w $S/repo$w; cp -a /verif $S/verif$w; git clone -q /repo $S/repo$w; (cd $S && ./harm_part.sh $n > harm$n.log 2>&1) & done
wait
echo "harmless:"; cat $S/harm*.log
for w in $(seq 1 10); do rm -rf $S/verif$w $S/repo$w; done
