#!/bin/bash
# tools/sweep_harmless.sh: behaviour-preserving refactorings /verif/harmless/HN-K/patch.diff (written by sub-agents that saw no part of /verif), each applied to /repo,
# the checks of its area + C17/C18 run (quick), undone. Any VIOLATION here is a false alarm of the machinery.
declare -A AREA
AREA[1]="C01 C02 C03 C06 C08 C09 C17 C18"
AREA[2]="C11 C12 C13 C14 C19 C04 C17 C18"
AREA[3]="C04 C05 C06 C07 C12 C17 C18"
AREA[4]="C08 C09 C10 C01 C02 C17 C18"
AREA[5]="C15 C16 C20 C12 C17 C18"
for n in ${@:-1 2 3 4 5}; do
  for k in 1 2 3 4 5 6; do
    f=/verif/harmless/H$n-$k/patch.diff
    [ -f $f ] || { echo "harm $n-$k: no patch"; continue; }
    cd /repo && git diff --quiet || { echo "/repo dirty"; exit 3; }
    git -C /repo apply $f 2>/dev/null || { echo "harm $n-$k: patch does not apply"; continue; }
    res=""
    for p in ${AREA[$n]}; do
      out=$(cd /verif && timeout 1200 ./check $p --tier quick 2>&1 | tail -3)
      v=$(echo "$out" | grep -E 'VIOLATION|MACHINERY' | head -1 | sed 's/replay=[^ ]*//')
      [ -n "$v" ] && { res="$res [$p: $v]"; }
    done
    git -C /repo checkout -- . ; git -C /repo clean -qfd fastavro
    echo "harm $n-$k: ${res:-all clean}"
  done
done
