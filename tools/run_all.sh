#!/bin/bash
# tools/run_all.sh [tier] [seeds...]: every check, every seed; one summary line each
tier=${1:-quick}; shift
seeds=${@:-0}
cd /verif
for s in $seeds; do
  for p in C01 C02 C03 C04 C05 C06 C07 C08 C09 C10 C11 C12 C13 C14 C15 C16 C17 C18 C19 C20; do
    out=$(VERIF_SEED=$s timeout 3600 ./check $p --tier $tier 2>&1)
    rc=$?
    echo "seed=$s $p rc=$rc $(echo "$out" | grep -c '^KNOWN-FINDING') known :: $(echo "$out" | grep -E '^VIOLATION|MACHINERY' | head -1) :: $(echo "$out" | tail -1)"
  done
done
