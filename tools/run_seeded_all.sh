#!/bin/bash
# tools/run_seeded_all.sh: every seeded change against the check of its own property (quick tier)
cd /verif
for d in seeded/*/; do id=$(basename $d); tools/try_seeded.sh $id; done
