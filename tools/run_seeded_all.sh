#!/bin/bash
# tools/run_seeded_all.sh: every seeded change against the check of its own property; one line each
cd /verif
for d in seeded/*/; do
  id=$(basename $d); p=${id%%-*}
  tools/try_seeded.sh $id $p 2>&1 | tail -1
done
