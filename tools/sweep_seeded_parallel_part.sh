#!/bin/bash
# $1 = worker index, rest = seeded ids
w=$1; shift
V=/tmp/psw/verif$w; R=/tmp/psw/repo$w
for id in "$@"; do
  p=${id%%-*}
  git -C $R checkout -q -- . ; git -C $R clean -qfd fastavro
  git -C $R apply /verif/seeded/$id/patch.diff || { echo "== seeded $id :: APPLY-FAILED"; continue; }
  out=$(cd $V && VERIF_REPO=$R timeout 1200 ./check $p --tier quick 2>&1 | tail -4)
  echo "== seeded $id / check $p :: $(echo "$out" | grep -E 'VIOLATION|MACHINERY' | head -2 | tr '\n' ' ') :: $(echo "$out" | tail -1)"
  git -C $R checkout -q -- . ; git -C $R clean -qfd fastavro
done
