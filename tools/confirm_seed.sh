#!/bin/bash
# tools/confirm_seed2.sh <Cxx> <k>: confirm a sub-agent's change k for property Cxx in its scratch worktree:
# clean suite summary == patched suite summary (and same failing ids), demo fails with patch, passes without.
id=$1; k=$2
wt=${SEEDBASE:-/tmp/seed2}/wt-$id; out=${SEEDBASE:-/tmp/seed2}/out-$id
cd $wt || exit 3
git checkout -q -- . ; git clean -qfd
suite() { /venv/bin/python -m pytest -q -p no:cacheprovider --timeout=900 -x --co -q >/dev/null 2>&1; /venv/bin/python -m pytest -q -p no:cacheprovider --timeout=900 2>&1 | grep -E '^(FAILED|ERROR)|passed|failed' | sed 's/ in [0-9.]*s.*//' | sort; }
[ -f ${SEEDBASE:-/tmp/seed2}/confirm/clean_suite.txt ] || suite > ${SEEDBASE:-/tmp/seed2}/confirm/clean_suite.txt
git apply $out/patch$k.diff || { echo "$id-$k: patch does not apply"; exit 3; }
suite > ${SEEDBASE:-/tmp/seed2}/confirm/$id-$k.suite.txt
if diff -q ${SEEDBASE:-/tmp/seed2}/confirm/clean_suite.txt ${SEEDBASE:-/tmp/seed2}/confirm/$id-$k.suite.txt >/dev/null; then s=same; else s=DIFFERENT; fi
PYTHONPATH=$wt timeout 600 /venv/bin/python $out/demo$k.py > ${SEEDBASE:-/tmp/seed2}/confirm/$id-$k.demo_with.txt 2>&1; w=$?
git checkout -q -- . ; git clean -qfd
PYTHONPATH=$wt timeout 600 /venv/bin/python $out/demo$k.py > ${SEEDBASE:-/tmp/seed2}/confirm/$id-$k.demo_without.txt 2>&1; wo=$?
echo "$id-$k: suite=$s demo_with_patch=$w demo_without=$wo"
