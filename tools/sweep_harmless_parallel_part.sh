#!/bin/bash
# $1 = area number; uses copies verif$((5+n)) repo$((5+n))
n=$1; w=$((5+n)); V=/tmp/psw/verif$w; R=/tmp/psw/repo$w
declare -A AREA
AREA[1]="C01 C02 C03 C06 C08 C09 C17 C18"
AREA[2]="C11 C12 C13 C14 C19 C04 C17 C18"
AREA[3]="C04 C05 C06 C07 C12 C17 C18"
AREA[4]="C08 C09 C10 C01 C02 C17 C18"
AREA[5]="C15 C16 C20 C12 C17 C18"
for k in 1 2 3 4 5 6; do
  f=/verif/harmless/H$n-$k/patch.diff
  [ -f $f ] || { echo "harm $n-$k: no patch"; continue; }
  git -C $R checkout -q -- . ; git -C $R clean -qfd fastavro
  git -C $R apply $f 2>/dev/null || { echo "harm $n-$k: patch does not apply"; continue; }
  res=""
  for p in ${AREA[$n]}; do
    out=$(cd $V && VERIF_REPO=$R timeout 1200 ./check $p --tier quick 2>&1 | tail -3)
    v=$(echo "$out" | grep -E 'VIOLATION|MACHINERY' | head -1 | sed 's/replay=[^ ]*//')
    [ -n "$v" ] && { res="$res [$p: $v]"; }
    echo "$out" | tail -1 | grep -q "rc=0" || res="$res [$p: no rc=0: $(echo "$out" | tail -1 | cut -c1-80)]"
  done
  git -C $R checkout -q -- . ; git -C $R clean -qfd fastavro
  echo "harm $n-$k: ${res:-all clean}"
done
