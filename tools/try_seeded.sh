#!/bin/bash
# tools/try_seeded.sh <seeded id, e.g. C01-1> [property ids...]: apply the patch to /repo, run the
# checks, undo the patch straight afterwards.
id=$1; shift
props=${@:-${id%%-*}}
cd /repo && git diff --quiet || { echo "/repo dirty"; exit 3; }
git -C /repo apply /verif/seeded/$id/patch.diff || exit 3
for p in $props; do
  out=$(cd /verif && timeout 900 ./check $p --tier ${TIER:-quick} 2>&1 | tail -4)
  rc=$?
  echo "== seeded $id / check $p :: $(echo "$out" | grep -E 'VIOLATION|MACHINERY' | head -2 | tr '\n' ' ') :: $(echo "$out" | tail -1)"
done
git -C /repo checkout -- . ; git -C /repo clean -qfd fastavro
