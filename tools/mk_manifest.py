#!/usr/bin/env python3
"""Writes /verif/MANIFEST.json from the table below (kept in one place so that it is always valid)."""
import json, os
BASE = open('/root/.vp/BASELINE.json').read()
baseline_cmd = json.loads(BASE)["cmd"]

CLAIMED = {
 "C01": dict(cat="proof", ref="DESIGN.md §5 C01, §12",
   text="Lean theorems c01_roundtrip / c01_stream / c01_long_roundtrip: for the whole recursive codec model (all schema kinds, by-name recursion, "
        "defaults, unions) read_data(write_data(v)) returns Spec.normalize(v) and consumes exactly the written bytes, unbounded in size and depth; "
        "the model is tied to /repo by differential correspondence on generated cases each run, and the implementation's round trip is compared "
        "with Spec.normalize directly.",
   note="assumes the correspondence sample is representative of the code (model==implementation is observed, not proved); logical types are C16; "
        "float<->double conversions and int->float are the model's integer-arithmetic implementations validated against struct.pack; CPython primitives trusted",
   tech="Lean 4 proof of model round trip + generated-table obligations + model/implementation correspondence"),
}
CLAIMED["C02"] = dict(cat="proof", ref="DESIGN.md §5 C02, §12",
   text="Lean theorems c02_bytes / c02_encodeLong_eq_spec / c02_little_endian: for every schema and conforming datum the bytes write_data emits equal "
        "Spec.encode, an encoder written from the specification (arithmetic zig-zag/varint, LE IEEE-754, length prefixes, one counted block + terminator, "
        "fields in order, index+value), for the branches the writer selected; the implementation's bytes are compared byte for byte with Spec.encode on "
        "generated cases and exhaustive per-primitive boundary tables.",
   note="model==implementation observed by correspondence, not proved; branch *selection* is property C09; float rounding is the model's integer implementation "
        "validated against struct.pack; CPython primitives trusted",
   tech="Lean 4 proof model-writer = spec-encoder + independent spec encoder run against the implementation's bytes")
CLAIMED["C03"] = dict(cat="proof", ref="DESIGN.md §5 C03, §12",
   text="Lean theorems c03_accept / c03_skip (mutual induction over the relation Spec.Enc: every partition of arrays/maps into blocks, positive and "
        "negative-count+size forms, any nesting, is decoded to the encoded value / skipped exactly), c03_read_extend + c03_prefix (no proper prefix of a "
        "valid encoding decodes), c03_bad_index (negative or too-large union/enum index is an error when reading and skipping). Implementation is run on "
        "re-blocked encodings, every out-of-range index (with and without reader schema) and every proper prefix.",
   note="model==implementation observed by correspondence; the spec-side re-blocking encoder in the harness is trusted glue but is itself checked against the "
        "proven model on every case (a disagreement is a machinery error, not a violation)",
   tech="Lean 4 proof over an inductive spec relation + correspondence on re-blocked encodings, bad indices, prefixes")
CLAIMED["C14"] = dict(cat="proof", ref="DESIGN.md §5 C14, §12",
   text="Lean theorems: c14_rabin_eq_spec (the Python loop on unbounded ints = the specification's 64-bit fingerprint64, for every byte string), "
        "c14_table_eq_bitserial (table-driven = bit-serial CRC by GF(2)-linearity, no bv_decide), c14_hex (16 hex digits, little-endian, decodes back), "
        "c14_empty, c14_dispatch (unknown name -> ValueError; Java spellings and advertised names -> that digest), c14_congruence; per-run obligation that "
        "the polynomial literal and the algorithm tables in /repo are the ones the model uses. Implementation compared with an independent bit-serial CRC "
        "and with hashlib on thousands of texts.",
   note="hash functions themselves (hashlib) and str.encode are trusted; shake_* (no fixed length) outside the property; model==implementation observed by correspondence",
   tech="Lean 4 proof (BitVec linearity, decide +kernel on the 256-entry table) + bit-serial reference run against the implementation")
CLAIMED["C16"] = dict(cat="proof", ref="DESIGN.md §5 C16, §12",
   text="Lean theorems over the whole domains: c16_date (every ordinal 1..3652059), c16_time_millis/micros (every µs of the day), "
        "c16_timestamp_millis/micros (every instant of the datetime range, floor before the epoch), c16_twos_complement, c16_bytes_decimal, "
        "c16_fixed_decimal (the mask/bits_req algorithm = sign-extended two's complement of exactly the unscaled integer, incl. negative zero and the "
        "most negative value), c16_decimal_never_other_number (rejections). Implementation compared with independent integer arithmetic on boundary "
        "and random values of every logical type, and with the model through the full codec.",
   note="Python's datetime/decimal/uuid objects are abstracted to integers (ordinal, µs, as_tuple, 128-bit int): toordinal/fromordinal, timedelta "
        "normalisation, time.mktime under TZ=UTC, Context.create_decimal/scaleb, uuid.UUID are trusted; float division int(a/b) modelled as integer "
        "division (validated at the carry points by the run); model==implementation observed by correspondence",
   tech="Lean 4 proof (omega over the full ranges; bit-level lemmas for two's complement) + correspondence through logical schemas")
CONT_NOTE = ("compression libraries are external: theorems hold for every codec with decompress(compress x) = x (checked on every payload of the run); "
             "JSON text of the schema in the header is handled by json.loads/dumps (trusted); block *grouping* is not compared (c04_partition_independent "
             "shows it does not matter); sizes below 2^63; model==implementation observed by correspondence")
CLAIMED["C04"] = dict(cat="proof", ref="DESIGN.md §5 C04, §12",
   text="Lean theorems c04_roundtrip (any records, any sound codec, sync interval, marker, validator: flush then read = normal forms, normal end), "
        "c04_partition_independent (records do not depend on block grouping), c04_header_roundtrip (metadata map and marker read back exactly). "
        "Implementation: files written on BytesIO / real files / write-only non-seekable output, read from read-only sequential input, all codecs and "
        "exact-fill intervals, compared byte-for-byte with the model's prediction, parsed by an independent parser, re-grouped and re-encoded.",
   note=CONT_NOTE, tech="Lean 4 proof (writer invariant + reader over any block sequence) + byte-level correspondence of whole files")
CLAIMED["C05"] = dict(cat="proof", ref="DESIGN.md §5 C05, §12",
   text="Lean theorems c05_writer_layout (every history yields header ++ blocks in the specification's layout holding exactly the submitted records), "
        "c05_reader_accepts (any block partition incl. empty blocks, any sound codec), c05_tiling (block infos contiguous from header end to file end, counts "
        "and payloads exact), c05_is_avro. Implementation: own files through an independent parser (incl. after append), files of an independent writer "
        "(chunked / negative-count header maps, codec key absent) through reader and block_reader, shipped fixtures, is_avro on all short strings.",
   note=CONT_NOTE + "; known finding F16 (non-UTF-8 metadata value rejected)", tech="Lean 4 proof + independent Python layout parser/writer against the implementation")
CLAIMED["C06"] = dict(cat="proof", ref="DESIGN.md §5 C06, §12",
   text="Lean theorems c06_truncation (any prefix of the block area yields exactly the first j blocks' records and ends normally only on a block "
        "boundary), c06_boundary, c06_sync (altered marker after block i: records of blocks <= i then ValueError), c06_schemaless_prefix (= c03_prefix). "
        "Implementation: every byte offset of generated files (all codecs) and 52 alterations of every marker, through reader (seekable and sequential) "
        "and block_reader, compared with the statement and with the model's reader.",
   note=CONT_NOTE + "; what a corrupted *payload* does is outside the property", tech="Lean 4 proof by induction over a ghost block list + exhaustive cut enumeration against the implementation")
CLAIMED["C07"] = dict(cat="proof", ref="DESIGN.md §5 C07, §12",
   text="Lean theorems c07_history (invariant over every finite history of write / failed write / flush / block copy), c07_flush_reads_back, "
        "c07_failed_write_contributes_nothing, c07_header_never_changes, c07_reopen_resumes (re-opening a stream that begins with this file's header yields the same "
        "sync marker and codec whatever arguments are passed), c07_reopen_is_flush (closing a writer and opening a new one for append = a flush: a history with re-opens "
        "is a history of one writer), c07_appendable_table + translator obligation Tables.appendable_table (_is_appendable tabulated over its decision domain by "
        "running it on probe streams). Implementation: random histories incl. failing writes at every field, "
        "write_block from donor files of every codec, reopen-for-append with arbitrary arguments; after every flush the stream is read back and the "
        "header compared; final stream compared with the model's prediction.",
   note=CONT_NOTE + "; the header re-read at re-open is proved for headers this writer produced (metadata sizes below the varint model's limit); two live writers on one stream not covered",
   tech="Lean 4 invariant proof over operation histories + history correspondence")
CLAIMED["C10"] = dict(cat="proof", ref="DESIGN.md §5 C10, §12",
   text="Lean theorems c10_validate_eq_conforms (validate(raise_errors=False) = Spec.conforms, the documented mapping, for every plain schema, datum, "
        "strict and disable_tuple_notation, any depth), c10_raise_iff (raising mode raises ValidationError exactly in the False cases: validate_raise_eq "
        "proves raise mode = non-raise mode with False lifted, at every depth), c10_strict, c10_gate (validating writer leaves its state untouched). "
        "Implementation compared with Spec.conforms on conforming data and single mutations x raise x strict x dtn, validate_many, the validating Writer.",
   note="logical-type annotations excluded from this theorem (C16); 'everything validate accepts is encoded and round-trips' is checked on the implementation and "
        "follows for the model from C01/C02 where the normal form is defined; model==implementation observed by correspondence",
   tech="Lean 4 proof (validate = conforms; raise-mode lifting) + Spec.conforms oracle against the implementation")
CLAIMED["C09"] = dict(cat="proof", ref="DESIGN.md §5 C09, §12",
   text="Lean theorems c09_choose_eq_spec (write_union's scan with its record-accumulation / could_be_float / break structure = the documented rule "
        "Spec.choose: first conforming non-record branch, float defers to a later double, else the conforming record sharing most field names, first on "
        "ties; error when nothing conforms; hints select the first branch of that name), c09_hint (exact selection / ValueError), c09_closure_branch (the "
        "(name, value) pair read_union reports for a named branch selects, written back, exactly the branch it was read from) and c09_closure_union_level (hence "
        "identical bytes for the union whenever the value inside re-encodes identically). Determinism is by "
        "construction (pure function; hidden state is C17). Implementation: bytes compared with Spec.encode under the documented rule at any nesting depth, "
        "all reader options against the model, closure (read with return_named_type, write back, identical bytes), unknown hints.",
   note="the closure clause is proved per union level; the induction over a whole datum (values inside re-encode identically, unnamed branches keep their choice) is "
        "checked on the implementation and tied to the model by correspondence, not proved (partial for that clause); theorem guard: plain "
        "schemas (no logical types) and no exception while validating branches; model==implementation observed by correspondence",
   tech="Lean 4 proof (scan = declarative rule, via validate = conforms) + rule-based spec encoder against the implementation's bytes")
CLAIMED["C11"] = dict(cat="proof", ref="DESIGN.md §5 C11, §12",
   text="Lean theorems: c11_names (whatever parse_schema accepts, every named type carries the full name of the specification's namespace rules and every "
        "reference is spelled with the full name it denotes, at every position: canonical text = Spec.pcf of the raw schema), c11_reference_resolves, one "
        "rejection theorem per rule (c11_reject_undefined / _redefined + c11_definition_registers + c11_names_only_grow / _unnamed / _symbols / _enum_default / "
        "_default_prim / _default_union / _default_array / _default_map / _default_named / _decimal) and c11_error_propagates_{union,array,map,field,top}: an "
        "error at any child position is the parent's error, so each rule fires at every depth. Implementation: generated valid schemas and single ill-forming "
        "mutations of every listed kind at random positions, compared with the statement and with the model.",
   note="acceptance of 'every specification-valid schema' is relative to the generator's notion of valid (checked, not proved); float('...') in the float/double "
        "default check is approximated in the model (digits/nan/inf); known finding F19 (redefinition across top-level union members); model==implementation "
        "observed by correspondence",
   tech="Lean 4 proof (parser/canonical-form lockstep with an independent spec transformation; rejection + propagation lemmas) + mutation harness")
CLAIMED["C13"] = dict(cat="proof", ref="DESIGN.md §5 C13, §12",
   text="Lean theorems c13_eq_spec / c13_eq_spec_nested (to_parsing_canonical_form(parse_schema(raw)) = Spec.pcf(raw), the specification's transformation "
        "written on the raw JSON value, for every schema, namespace nesting and depth), c13_spec_stable, c13_cosmetic_type / c13_cosmetic_field (the "
        "transformation reads only type, name, namespace, fields, symbols, items, values, size and a field's name and type: edits confined to anything else, or "
        "to attribute order, cannot change the canonical form), c13_cosmetic_name / c13_inherited_namespace, c13_fixed_point / c13_idempotent (the fixed-point "
        "clause at the level of JSON values: Canon.toRaw s is the value the canonical text denotes — compared with json.loads of the implementation's text on "
        "every case — and the specification's transformation applied to it returns the same text, for every schema whose names read back in scope; the "
        "complement is finding F18). Implementation: canonical text compared with Spec.pcf on generated schemas and the repository's "
        "reference vectors, ten kinds of cosmetic rewrite at random positions, fixed point, same-encoding both ways.",
   note="json.loads itself is trusted (its result is compared with the model's Canon.toRaw); the same-encoding clause runs through the codec: tested against the "
        "implementation, not proved (partial for that clause); "
        "the 'namespace+name vs dotted' rewrite is tested, not proved; known finding F18 (null namespace inside a namespaced type: the specification's form is "
        "not a fixed point); strings are interpolated without JSON escaping in both implementation and model (names/symbols are regex-restricted)",
   tech="Lean 4 proof (parser/canonical writer lockstep with an independent spec transformation) + cosmetic-rewrite harness")
CLAIMED["C08"] = dict(cat="proof", ref="DESIGN.md §5 C08, §11, §12",
   text="Lean proof of the whole resolving reader against an independent specification reader. c08_resolve_eq_spec: for every writer/reader schema pair, every byte "
        "string and every nesting depth, each definite result of read_data with a reader schema (model Resolve.readR: value + remaining bytes, schema-resolution "
        "error, decoding error) is the result of Spec.resolveRead (written from the specification's rule list) — through arrays, maps, records (field matching by "
        "name then alias, skipping, defaults), unions on either side and named types inline or by reference; by induction on nesting, composing c08_match_eq_spec "
        "(match_types = the specification's 'schemas match'), Proofs/MatchSchemas (what match_schemas returns), c08_pick_eq_spec (reader-union branch = own type first, "
        "full-name match before namesakes, else first promotable), Proofs/RecordDefaults (the fill-in-defaults loop = 'reader fields nothing was matched with take "
        "their default'), c08_promotions / c08_primitives / c08_enum_default / c08_field_matching. Hypotheses (ResolveFull.Good, EnvWF): tables as parse_schema builds "
        "them, names defined, no logical type in the writer schema, reader definitions are the reader table's entries, reader record fields told apart by name and by "
        "alias, no union directly inside a union; the driver evaluates these hypotheses on every harness case (tag theorem-domain:inside/outside in the evidence). "
        "The promotion pairs of match_types and the conversions of maybe_promote are regenerated from /repo's source each run (Tables.resolve_tables). Tie to the code: "
        "implementation, model and specification reader are run on reader schemas derived from the writer schema by 1-4 of 27 kinds of compatible/incompatible "
        "evolution steps at random depths, reader == writer as separate/cosmetically different object, schemaless and container readers.",
   note="'definite' excludes only the model's own nesting-fuel exhaustion (fuel bounds nesting depth; the driver runs with 400). Modelled, not verified: the Python "
        "source itself (tied by the differential run). Reader field defaults are returned as the raw JSON value (open finding F25; bytes/fixed/nested-record defaults "
        "excluded from generation); return_* options together with a reader schema and logical types under resolution are outside the model; eager schema matching of "
        "arrays/maps (error even for an empty array) is taken as the specification's reading",
   tech="Lean 4 proof (model reader = specification reader, induction on nesting) + generated promotion tables + three-way differential run (implementation / model / specification reader)")
CLAIMED["C12"] = dict(cat="proof", ref="DESIGN.md §5 C12, §12",
   text="PARTIAL proof. Lean theorems: c12_marked_returned_unchanged (an object carrying the parsed marker is returned as it is and reproduces its named-schema "
        "dictionary, so every operation sees the pair it saw before), c12_name_is_definition_{read,write,validate,skip} (where a schema refers to a type by name "
        "each operation does exactly what it does on the definition held by the dictionary), c12_later_definitions_harmless (further definitions in a shared "
        "dictionary never change a read or skip), c12_piece_is_entry (parsing a named-type definition — as a separate piece or inline — leaves the dictionary mapping "
        "its full name to exactly the parsed definition returned) and c12_piece_then_name (so a later reference by that name is read, written and skipped exactly "
        "like the definition). That the raw schema and its pieces fill the dictionary alike for the other names, and idempotence for unmarked parsed forms, are "
        "checked on the implementation: raw / parsed / parsed twice / piecewise (random subsets of the named types parsed separately, dependencies first) x "
        "schemaless write+read, validate, canonical form, container write + stand-alone read, JSON write+read, generate_one.",
   note="dictionary-equality clause observed, not proved; known finding F4 (canonical form and container header of a piecewise-parsed schema keep bare names); "
        "piecewise forms exist only for top-level records (only they carry __named_schemas); F26 fixed",
   tech="Lean 4 theorems on the (schema, dictionary) interface + differential run over schema forms and operations")
CLAIMED["C15"] = dict(cat="proof", ref="DESIGN.md §5 C15, §11, §12, §13",
   text="PARTIAL proof. Lean theorems: c15_encode_eq_spec (the value json_writer emits = the specification's JSON encoding Spec.jsonEncode — null as null, union "
        "values wrapped under the branch name with full names for named types, bytes/fixed as strings of code points, enums as symbols, objects and arrays — for the "
        "branches write_union selects, at any depth, on the core fragment: floating fields hold floats, no empty map key, no logical types), c15_core_is_spec, "
        "c15_bytes_strings (code-point strings decode back to the bytes), c15_read_back (the read-back clause at any depth: json_reader — model Json.decode — applied "
        "to that encoding with the same schema returns the record as written, Spec.written), and, for the grammar machine of fastavro/io/parser.py with the "
        "AvroJSONEncoder state modelled step by step (Model/JsonMachine.lean: grammar built from the schema incl. the recursion guard, symbol stack, lazily executed "
        "actions, root symbol, frame stack, stale keys, flush): c15_machine_value / c15_machine_json_writer / c15_machine_emits_spec — the machine writes exactly the "
        "function-level (= specification) encoding for every schema without empty records and forced-null productions, any nesting depth, any non-empty record list; "
        "kernel-checked counterexamples (c15_machine_counterexample_*) show the machine derails outside those hypotheses (findings F33, F5b, F5a, F28). "
        "READ side of the machine (AvroJSONDecoder driven by read_data: frame stack, _current, _key, _push_and_adjust, read_index re-binding the union member, "
        "iter_array / iter_map, lazily executed actions, drain_actions between documents; Proofs/JsonMachineDec.lean): c15_machine_json_reader (the machine returns "
        "what the function-level reader returns, any depth, any number of documents, for schemas whose map values leave at most their own RecordEnd pending — DOk: "
        "primitives, enums, fixed, arrays, maps, unions of those, records whose last field is one of those — and documents of the "
        "writer's shape — Fits: every field present, or absent with a default of that shape, which the machine reads exactly as the function-level reader does; "
        "proved of every specification encoding by spec_fits), c15_machine_reads_spec (so the specification's encodings are read back as the "
        "records as written) and c15_machine_round_trip (json_writer then json_reader on the machine = the records as written). "
        "The driver evaluates Spec.written and the machine model on every harness case; implementation = machine model is compared on record lists (also on the "
        "derailing shapes and on texts with keys removed), and a failure is attributed to a recorded finding only when the machine model reproduces it. The "
        "agreement-with-binary and absent-field-default clauses are checked on the implementation (JSON text compared by value with Spec.jsonEncode under the documented "
        "branch rule, read back, compared with the binary round trip, fields deleted from the text take the specification's reading of their default, defaults family "
        "over every field kind, write_union_type on/off, empty record list).",
   note="the read-side theorems exclude maps whose values are unions with a record branch or records ending in a record (F28) ; absent fields are covered relative to the function-level reader "
        "(against the specification's reading of a default: harness, spec_default oracle, finding F27); the model's loops carry an iteration bound of 1,000,000 (hypothesis Small); open findings F5a-d, F27, F28, F33 (grammar "
        "machine), F14 (numbers not rounded to the type's precision); F30-F32 (defaults consumed / dropped) found by the machine model and fixed in /repo; "
        "model==implementation observed by correspondence",
   tech="Lean 4 proof (function-level encoder = specification encoder; push-down machine writer = function-level encoder; function-level reader inverts it; push-down machine reader = function-level reader) + machine model and specification encoder run against the implementation")
CLAIMED["C17"] = dict(cat="proof", ref="DESIGN.md §5 C17, §12",
   text="Lean: c17_history_independent (generic theorem: for every semantics of the calls that respects the footprints of the effect table, the result of any call after "
        "any history equals its result in the initial store), with the table obligations c17_table_safe (whatever an entry point may read before writing it is written "
        "by no entry point) and c17_args_intact (no parameter other than the named-schema dictionary / output stream / writer metadata is mutated, no mutable default is "
        "mutated) discharged by evaluation on Gen/Effects.lean, which harness/gen_effects.py regenerates from /repo's source on every run (AST effect summaries closed over "
        "the call graph). The property itself is evaluated directly: every call of generated histories (same type names with other definitions, shared parsed objects, "
        "schema versions, appends, failing calls) is repeated first in a pristine fork and compared; module-level state and arguments are snapshotted around every call "
        "and compared with the table.",
   note="the table is a syntactic over-approximation: aliasing through object attributes (e.g. Writer.metadata), setattr/exec and C code are invisible to the extractor and are "
        "covered only by the dynamic snapshots; the theorem speaks about the abstract store semantics, the tie to the interpreter is that validation",
   tech="generated effect table (translator) + Lean 4 footprint theorem + fresh-fork differential histories with state snapshots")
CLAIMED["C18"] = dict(cat="proof", ref="DESIGN.md §5 C18, §12",
   text="Lean: c18_interleaving_serializable (threads that only read the shared objects reach under every schedule of their atomic steps the state they reach alone; the "
        "store is unchanged), c18_write_sharing_is_unsafe (the hypothesis is necessary: set-then-read of a shared attribute returns the other thread's value under the "
        "schedule A,B,A), and the obligation c18_table_threadsafe on the effect table regenerated from /repo each run (no public entry point writes a module-level state "
        "object). Implementation: a deterministic scheduler (sys.settrace) pre-empts thread A at line events inside the package, runs thread B to completion and resumes "
        "A, for ordered pairs of 14 operation kinds sharing parsed schemas; thorough tier adds every pre-emption point and free-running threads with a 1 µs switch interval.",
   note="partial for the runtime: pre-emption inside C-level operations, the interpreter's real switch points, free-threaded builds and memory-model effects cannot be "
        "expressed in the model and are only sampled; one context switch per run (A parked, B complete) is the schedule family searched deterministically; F10 fixed",
   tech="generated effect table + Lean 4 interleaving theorem + forced-schedule search on real threads")
CLAIMED["C19"] = dict(cat="proof", ref="DESIGN.md §5 C19, §12",
   text="PARTIAL proof. Lean theorems about _inject_schema (model Load.inject), for every raw schema: c19_reference_resolution (a reference is resolved against the "
        "namespace in effect exactly as parse_schema resolves it and is replaced iff it denotes the loaded definition), c19_record_namespace, c19_inject_first_use (among "
        "union branches / record fields exactly the first position containing the reference is rewritten, everything after it untouched), c19_inject_absent_unchanged, "
        "c19_inject_at_most_once. The iteration parse -> load -> inject -> parse, load_schema_ordered and the missing-file error are checked on the implementation: random "
        "acyclic dependency graphs (diamonds, repeated use, several namespaces, qualified and relative spellings, references from fields / items / values / union branches) "
        "written one type per file, compared (canonical form, bytes and values of data) with an independent first-use inliner; every single file removed.",
   note="composition through the load loop observed, not proved; files are real files in a scratch directory (removed after the run); model==implementation of _inject_schema "
        "observed by correspondence",
   tech="Lean 4 step theorems on the injection function + independent inliner against the implementation")
CLAIMED["C20"] = dict(cat="proof", ref="DESIGN.md §5 C20, §12",
   text="Lean theorems c20_generated_conforms (for EVERY oracle standing for the library's random source — randint returns some integer of its range, random() some "
        "float, getrandbits some bytes — a datum gen_data returns conforms to the schema by Spec.conforms, the relation validate implements (C10) and the writers accept "
        "(C01/C02); any depth, through by-name references; plain schemas whose records have distinct field names), c20_generated_validates (composed with C10's theorem: validate never answers False on a generated datum), c20_exact_count (generate_many yields exactly n "
        "values), c20_terminates_tree (on a schema without by-name references gen_data returns, whatever the oracle does: a budget of the schema's depth suffices) and "
        "c20_nontermination_counterexample (F6 as a theorem: Node{children: array<Node>} is never generated, for every oracle and every budget). Translator obligation "
        "Tables.generate_ranges: the integer ranges gen_data draws from, tabulated by RUNNING it with a recording random source on int/long x every logical annotation. "
        "Implementation: schemas of the generator incl. logical types and recursive types, n in {0,1,3}, several random seeds: count, validate, schemaless and "
        "container write + read back; every generated value must lie in the image of the model generator (Generate.inImage) and conform by Spec.conforms; recursive types with "
        "further choice points per level; the object parse_schema returned given to the generator and then to the container writer; recursive types classified by their "
        "mean-offspring matrix (subcritical ones must generate: a RecursionError there is a violation, not F6).",
   note="termination is proved for tree schemas only; beyond them known finding F6 (self-reference through an array or map never returns); logical types are checked on the implementation only; "
        "model==implementation observed through the image check (the random streams themselves cannot be aligned)",
   tech="Lean 4 proof over an arbitrary random oracle + image/conformance check of the implementation's values")
PENDING = {}

def main():
    props = [json.loads(l) for l in open('/verif/properties.jsonl')]
    checks, na = [], []
    for p in props:
        pid = p["id"]
        if pid in CLAIMED:
            c = CLAIMED[pid]
            checks.append({
                "property_id": pid,
                "quick_cmd": "./check %s --tier quick" % pid,
                "thorough_cmd": "./check %s --tier thorough" % pid,
                "evidence_file": "/verif/evidence/%s.json" % pid,
                "replay_cmd_template": "./check %s --replay {path}" % pid,
                "engine": "lean-model+correspondence",
                "level_claimed": {"category": c["cat"], "text": c["text"] + " Directed input families added against six rounds of seeded breaking changes (220, all but one "
                                  "neutralised change detected by the check of their property): DESIGN.md §13.7, §13.10, §13.11.", "design_ref": c["ref"] + ", §13"},
                "level_note": c["note"],
                "technique": c["tech"],
            })
        else:
            na.append({"property_id": pid, "reason": PENDING.get(pid, "check not built yet in this round (work in progress; see DESIGN.md §10 order of work)")})
    m = {
        "version": 1,
        "setup_cmd": "cd /verif && ./setup.sh",
        "hooks": {"guard": "FASTAVRO_VERIF", "enable": "no source hooks are needed: checks drive the public API in-process (schedules via sys.settrace, streams via wrappers)",
                  "baseline_off_cmd": baseline_cmd, "source_commits": [], "add_only": True},
        "engines": [{"name": "lean-model+correspondence", "path": "/verif/lean + /verif/harness",
                     "serves_properties": sorted(CLAIMED), "kind_free_text": "Lean 4 model, theorems and compiled line-protocol driver; Python harness running fastavro in-process"}],
        "checks": checks,
        "not_applicable": na,
        "notes": "See DESIGN.md. Every check regenerates lean/Gen/Tables.lean from /repo, rebuilds the Lean project incrementally, audits axioms, and compares model, specification and implementation.",
    }
    json.dump(m, open('/verif/MANIFEST.json', 'w'), indent=1)

if __name__ == "__main__":
    main()
