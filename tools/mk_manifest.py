#!/usr/bin/env python3
"""Writes /verif/MANIFEST.json from the table below (kept in one place so that it is always valid)."""
import json, os
BASE = open('/root/.vp/BASELINE.json').read()
baseline_cmd = json.loads(BASE)["cmd"]

CLAIMED = {
 "C01": dict(cat="proof", ref="DESIGN.md §5 C01, §12",
   text="Lean theorems c01_roundtrip / c01_stream / c01_long_roundtrip: for the whole recursive codec model (all schema kinds, by-name recursion, "
        "defaults, unions) read_data(write_data(v)) returns Spec.normalize(v) and consumes exactly the written bytes, unbounded in size and depth; "
        "the model is tied to /repo by differential correspondence on generated cases each run, and the implementation's round trip is compared "
        "with Spec.normalize directly.",
   note="assumes the correspondence sample is representative of the code (model==implementation is observed, not proved); logical types are C16; "
        "float<->double conversions and int->float are the model's integer-arithmetic implementations validated against struct.pack; CPython primitives trusted",
   tech="Lean 4 proof of model round trip + generated-table obligations + model/implementation correspondence"),
}
PENDING = {}

def main():
    props = [json.loads(l) for l in open('/verif/properties.jsonl')]
    checks, na = [], []
    for p in props:
        pid = p["id"]
        if pid in CLAIMED:
            c = CLAIMED[pid]
            checks.append({
                "property_id": pid,
                "quick_cmd": "./check %s --tier quick" % pid,
                "thorough_cmd": "./check %s --tier thorough" % pid,
                "evidence_file": "/verif/evidence/%s.json" % pid,
                "replay_cmd_template": "./check %s --replay {path}" % pid,
                "engine": "lean-model+correspondence",
                "level_claimed": {"category": c["cat"], "text": c["text"], "design_ref": c["ref"]},
                "level_note": c["note"],
                "technique": c["tech"],
            })
        else:
            na.append({"property_id": pid, "reason": PENDING.get(pid, "check not built yet in this round (work in progress; see DESIGN.md §10 order of work)")})
    m = {
        "version": 1,
        "setup_cmd": "cd /verif && ./setup.sh",
        "hooks": {"guard": "FASTAVRO_VERIF", "enable": "no source hooks are needed: checks drive the public API in-process (schedules via sys.settrace, streams via wrappers)",
                  "baseline_off_cmd": baseline_cmd, "source_commits": [], "add_only": True},
        "engines": [{"name": "lean-model+correspondence", "path": "/verif/lean + /verif/harness",
                     "serves_properties": sorted(CLAIMED), "kind_free_text": "Lean 4 model, theorems and compiled line-protocol driver; Python harness running fastavro in-process"}],
        "checks": checks,
        "not_applicable": na,
        "notes": "See DESIGN.md. Every check regenerates lean/Gen/Tables.lean from /repo, rebuilds the Lean project incrementally, audits axioms, and compares model, specification and implementation.",
    }
    json.dump(m, open('/verif/MANIFEST.json', 'w'), indent=1)

if __name__ == "__main__":
    main()
